#!/venv/bin/python
"""Entry point: check.py <Cxx> [--tier quick|thorough] [--replay file]

exit 0: property held on everything explored; exit 1: VIOLATION line printed; exit 2: harness error.
"""
import os
import sys
import argparse

HERE = os.path.dirname(os.path.abspath(__file__))
sys.path.insert(0, HERE)
from vlib import runner  # noqa: E402


def main():
    ap = argparse.ArgumentParser()
    ap.add_argument("prop")
    ap.add_argument("--tier", default=os.environ.get("VERIF_TIER", "quick"), choices=["quick", "thorough"])
    ap.add_argument("--seed", type=int, default=None)
    ap.add_argument("--replay", default=None)
    ap.add_argument("--shard", type=int, default=None)
    ap.add_argument("--nshards", type=int, default=None)
    ap.add_argument("--out", default=None)
    a = ap.parse_args()
    pid = a.prop.upper()
    seed = a.seed if a.seed is not None else int(os.environ.get("VERIF_SEED", "1") or 1)
    try:
        if a.replay:
            return runner.replay(pid, a.replay)
        if a.shard is not None:
            runner.run_shard(pid, a.tier, seed, a.shard, a.nshards, a.out)
            return 0
        return runner.main(pid, a.tier, seed, a.nshards)
    except runner.HarnessError as e:
        sys.stderr.write("HARNESS ERROR: %s\n" % e)
        return 2
    except Exception:
        import traceback

        traceback.print_exc()
        return 2


if __name__ == "__main__":
    sys.exit(main())
