"""C07 - initial state matches the databook or the run is refused; characteristic sums stay consistent."""
import math
import numpy as np
from hypothesis import strategies as st
from vlib import gen_model, simcase, build, datainterp
from vlib.runner import Violation, Discard, HarnessError

ID = "C07"
RULE = (
    "cases = ModelSpecs whose initial conditions are entered through a drawn mix of compartments and (nested / denominator) characteristics: truth-first values A*x0, then one of "
    "{consistent determined, under-determined (compartments left free), over-determined consistent, inconsistent, implying a negative compartment, off by ~1e-6 at the tolerance edge}, "
    "calibration factors on initial quantities, zero defaults, junctions inside characteristics, start year on/off data years; oracle: if the model builds, the pre-flush index-0 sizes "
    "are >= 0 and every initialisation quantity is reproduced within 1e-6*(1+#members) (fractions times their denominator value); if it does not build the exception is BadInitialization; "
    "throughout an accepted run every characteristic = sum of members (/ denominator; 0 when the numerator < 1e-6); non-trivial = accepted with a characteristic and a factor != 1 in "
    "the initialisation, or refused; distinct = case hash"
)
ASSUMPTIONS = [
    "refusal is a violation only when the databook was derived from a non-negative state AND determines it uniquely (full column rank); for under-determined systems the minimum-norm solution may be refused legitimately and such cases are only counted",
    "pre-flush state read from Model(...) before Model.process()",
]
BUDGET = {"quick": 4000, "thorough": 16000}  # thorough = 4x quick: a depth that was run to completion, quiet, at seed 1 (deterministic given the seed)
TIME_CAP = {"quick": 70, "thorough": 1500}
PROFILE = {"p_indirect_junction": 0.0, "max_steps": 4, "min_steps": 1, "p_timed": 0.2, "p_junction": 0.4, "p_function": 0.1, "extreme": 0.1, "max_pops": 2, "p_transfer": 0.2, "characs": True, "p_output_pars": 0.0, "max_ord": 4}


@st.composite
def cases(draw, prof):
    spec = draw(gen_model.model_specs(prof))
    body = [c for c in spec["comps"] if c["kind"] in ("ord", "junc")]
    names = [c["name"] for c in body]
    # extra characteristics (not necessarily nested) with an explicit cascade are not needed: keep the nested family and add a free-form one only as non-cascade
    characs = spec["characs"]
    pops = spec["pops"]
    data = spec["data"]
    start = spec["settings"]["start"]
    truth = {pop: {} for pop in pops}
    for c in body:
        for pop in pops:
            e = data["q"].get(c["name"], {}).get(pop)
            truth[pop][c["name"]] = datainterp.series_value(e, start) if e else 0.0
    # which compartments stay in the databook / get a zero default / are left free
    mode = {}
    for c in body:
        m = draw(st.sampled_from(["db", "db", "db", "zero", "free"])) if characs else "db"
        mode[c["name"]] = m
        c["db"] = m == "db"
        c["free"] = m == "free"
        if m == "db" and c["name"] not in data["q"]:
            data["q"][c["name"]] = {pop: {"a": truth[pop][c["name"]]} for pop in pops}
        if m != "db":
            data["q"].pop(c["name"], None)
            data.get("yf", {}).pop(c["name"], None)
        if m == "zero":
            for pop in pops:
                truth[pop][c["name"]] = 0.0
    if draw(st.integers(0, 2)) == 0:
        # the Compartments sheet has a "Setup Weight" column: filled in (1) for one databook compartment, blank for the others
        dbc = [c for c in body if c["db"]]
        if dbc:
            draw(st.sampled_from(dbc))["sw"] = 1
    # characteristics in the databook
    in_db = []
    for x in characs:
        if x["den"] is None and draw(st.integers(0, 2)) > 0:
            x["db"] = True
            in_db.append(x["name"])
    for x in characs:
        if x["den"] is not None and x["den"] in in_db and draw(st.integers(0, 3)) > 0:
            x["db"] = True
            in_db.append(x["name"])
    cmap = {x["name"]: x for x in characs}

    def members(name):
        if name in cmap:
            out = []
            for i in cmap[name]["inc"]:
                out += members(i)
            return out
        return [name]

    def tval(pop, name):
        return sum(truth[pop][m] for m in members(name))

    klass = draw(st.sampled_from(["consistent", "consistent", "perturb-big", "perturb-edge", "negative", "yfactor"]))
    for xn in in_db:
        x = cmap[xn]
        data["q"][xn] = {}
        for pop in pops:
            v = tval(pop, xn)
            if x["den"] is not None:
                d = tval(pop, x["den"])
                v = v / d if d > 0 else 0.0
            data["q"][xn][pop] = {"t": [start], "v": [v]} if draw(st.booleans()) else {"a": v}
    quantities = [n for n in names if mode[n] == "db"] + in_db
    label = klass
    if quantities:
        q = draw(st.sampled_from(quantities))
        fracs = [xn for xn in in_db if cmap[xn]["den"] is not None]
        if klass == "yfactor" and fracs and draw(st.booleans()):
            # calibration factor on a fraction characteristic or on its denominator (they must be applied independently)
            xf_ = draw(st.sampled_from(fracs))
            q = draw(st.sampled_from([xf_, cmap[xf_]["den"]]))
        pop = draw(st.sampled_from(pops))
        e = data["q"][q][pop]
        cur = e["v"][0] if "v" in e else e["a"]
        if klass == "perturb-big":
            new = cur * draw(st.sampled_from([0.5, 1.5, 1.01])) + draw(st.sampled_from([0.0, 1e-3, 5.0]))
        elif klass == "perturb-edge":
            new = cur + draw(st.sampled_from([1e-7, 5e-7, 0.9e-6, 1.1e-6, 2e-6, 1e-5, 2e-5, 3e-5, -5e-7, -2e-6, -2e-5]))
        elif klass == "negative":
            new = cur * draw(st.sampled_from([0.0, 0.1, 1.0, 1.0, 3.0])) - draw(st.sampled_from([0.0, 1e-5, 1e-3, 0.5, 1.0, 10.0])) * draw(st.sampled_from([1.0, -1.0]))
            new = max(new, 0.0) if draw(st.booleans()) else new
        elif klass == "yfactor":
            f = draw(st.sampled_from([0.5, 2.0, 1.25]))
            data.setdefault("yf", {}).setdefault(q, {})[pop] = f
            new = cur / f
            if draw(st.booleans()):
                data.setdefault("myf", {})[q] = 2.0
                for pp in pops:
                    ee = data["q"][q][pp]
                    if pp == pop:
                        continue
                    if "v" in ee:
                        ee["v"][0] = ee["v"][0] / 2.0
                    else:
                        ee["a"] = ee["a"] / 2.0
                new = new / 2.0
        else:
            new = cur
        if "v" in e:
            e["v"][0] = new
        else:
            e["a"] = new
    if len(pops) >= 2 and quantities and draw(st.integers(0, 3)) == 0:
        # table layout: the first population's row is written as an "All" row (the fallback for populations without a row of their own)
        # while the other populations keep their own rows, which take precedence - the numbers every population gets are unchanged
        qa = draw(st.sampled_from(quantities))
        if list(data["q"][qa].keys())[0] == pops[0]:
            data.setdefault("all_rows", [])
            if qa not in data["all_rows"]:
                data["all_rows"].append(qa)
            data.setdefault("all_rows_own", {})[qa] = list(pops[1:])
            spec["labels"] = sorted(set(spec.get("labels", [])) | {"init:all-row-layout"})
    if draw(st.booleans()) and quantities:
        # start year off the data year: second data point so interpolation matters
        spec["settings"]["start"] = start  # (kept; data years equal the start year by construction)
    return {"spec": spec, "klass": label}


def strategy(tier):
    prof = dict(PROFILE)
    if tier == "thorough":
        prof.update(max_ord=6, max_pops=3)
    return cases(prof)


def data_has_all_row(case):
    return bool(case["spec"]["data"].get("all_rows_own"))


def check(case):
    import atomica as at

    spec = case["spec"]
    simcase.quiet()
    try:
        b = build.build_all(spec)
    except HarnessError:
        raise
    except Exception as e:
        raise Discard("atomica raised %s at %s while building inputs (decided by C18)" % (type(e).__name__, simcase.atomica_frame(e)))
    P, ps = b["P"], b["ps"]
    data = spec["data"]
    start = spec["settings"]["start"]
    cmap = {x["name"]: x for x in spec["characs"]}
    labels = ["class:" + case["klass"]] + (["layout:all-row-with-own-rows"] if data_has_all_row(case) else [])

    def fac(name, pop):
        return data.get("yf", {}).get(name, {}).get(pop, 1.0) * data.get("myf", {}).get(name, 1.0)

    def members(name):
        if name in cmap:
            out = []
            for i in cmap[name]["inc"]:
                out += members(i)
            return out
        return [name]

    try:
        m = at.Model(P.settings, P.framework, ps)
    except at.BadInitialization as e:
        # The databook values of the 'consistent' and 'yfactor' classes are derived from a non-negative state x0, so an assignment
        # reproducing them exists.  If the initialisation quantities determine the state uniquely (full column rank) that assignment is
        # the only candidate and refusing it means the run was NOT started although the databook can be matched.
        if case["klass"] in ("consistent", "yfactor"):
            body = [c["name"] for c in spec["comps"] if c["kind"] in ("ord", "junc")]
            rows = []
            for c in spec["comps"]:
                if c["kind"] in ("ord", "junc") and (c.get("db") or not c.get("free")):
                    rows.append([1.0 if b_ == c["name"] else 0.0 for b_ in body])
            for x in spec["characs"]:
                if x.get("db"):
                    mem = members(x["name"])
                    rows.append([1.0 if b_ in mem else 0.0 for b_ in body])
            big = 0.0
            for q_, bypop in data["q"].items():
                if q_ in body or q_ in cmap:
                    for e_ in bypop.values():
                        big = max(big, abs(datainterp.series_value(e_, start)))
            if big > 1e7:
                # the 1e-6 tolerance is absolute: with stocks above ~1e7 the rounding error of the linear solve itself approaches it,
                # so a refusal there says nothing about the rule
                labels.append("refused-huge-magnitudes")
            elif rows and np.linalg.matrix_rank(np.array(rows)) == len(body):
                raise Violation(ID, "refused-although-consistent-and-determined", "the databook was derived from a non-negative state and determines it uniquely, but the run was refused: %s" % str(e)[:300])
            labels.append("refused-underdetermined-consistent")
        return {"nontrivial": True, "labels": labels + ["refused"]}
    except Exception as e:
        where = simcase.atomica_frame(e)
        if "initialize_compartments" in repr(e) or True:
            import traceback

            tb = traceback.extract_tb(e.__traceback__)
            fn_names = [fr.name for fr in tb]
            if "initialize_compartments" in fn_names:
                raise Violation(ID, "refused-with-wrong-error/%s" % type(e).__name__, "initialisation failed with %s (%s) at %s instead of BadInitialization" % (type(e).__name__, str(e)[:200], where))
        raise Discard("atomica raised %s at %s while building the model (decided by C18)" % (type(e).__name__, where))
    # accepted: the databook must be reproduced
    used_factor = False
    used_charac = False
    for pop in m.pops:
        x = {c.name: float(np.asarray(c.vals)[0]) for c in pop.comps}
        for c in pop.comps:
            if type(c).__name__ in ("SourceCompartment", "SinkCompartment"):
                continue
            if not (x[c.name] >= 0) or not math.isfinite(x[c.name]):
                raise Violation(ID, "accepted-negative-or-nonfinite", "%s/%s starts at %r" % (pop.name, c.name, x[c.name]))
        for q, bypop in data["q"].items():
            kind = "comp" if q in x else ("charac" if q in cmap else None)
            if kind is None:
                continue
            target = datainterp.series_value(bypop[pop.name], start) * fac(q, pop.name)
            mem = members(q)
            if kind == "charac" and cmap[q]["den"] is not None:
                den = cmap[q]["den"]
                target *= datainterp.series_value(data["q"][den][pop.name], start) * fac(den, pop.name)
            got = sum(x[n] for n in mem)
            if abs(got - target) > 1e-6 * (1 + len(mem)) + 1e-12 * abs(target):
                raise Violation(ID, "accepted-but-databook-not-reproduced/%s" % kind, "%s/%s: databook (x factors%s) says %r, model starts with %r (members %s = %s)" % (pop.name, q, " x denominator" if kind == "charac" and cmap[q]["den"] else "", target, got, mem, [x[n] for n in mem]))
            if fac(q, pop.name) != 1:
                used_factor = True
            if kind == "charac":
                used_charac = True
        # zero-default compartments
        for c in spec["comps"]:
            if c["kind"] in ("ord", "junc") and not c.get("db") and not c.get("free"):
                if abs(x[c["name"]]) > 2e-6:
                    raise Violation(ID, "accepted-but-zero-default-not-zero", "%s/%s has default value 0 but starts at %r" % (pop.name, c["name"], x[c["name"]]))
    labels.append("accepted")
    # run and check characteristic consistency at every index
    try:
        m.process()
        res = at.Result(model=m, parset=ps, name="run")
    except Exception as e:
        raise Discard("atomica raised %s at %s while running (decided by C18)" % (type(e).__name__, simcase.atomica_frame(e)))
    for pop in res.model.pops:
        cv = {c.name: np.asarray(c.vals, dtype=float) for c in pop.comps}
        if not all(np.all(np.isfinite(v)) for v in cv.values()):
            raise Discard("non-finite stocks (decided by C02)")
        for xobj in pop.characs:
            num = sum(cv[n] for n in members(xobj.name))
            got = np.asarray(xobj.vals, dtype=float)
            if cmap[xobj.name]["den"] is not None:
                den = sum(cv[n] for n in members(cmap[xobj.name]["den"]))
                exp = np.where(num < 1e-6, 0.0, np.where(den > 0, num / np.where(den > 0, den, 1.0), np.inf))
                labels.append("charac-with-denominator")
            else:
                exp = num
            bad = ~((got == exp) | (np.abs(got - exp) <= 1e-9 * np.maximum(1.0, np.abs(exp))))
            if bad.any():
                i = int(np.nonzero(bad)[0][0])
                raise Violation(ID, "characteristic-sum", "%s/%s index %d: reported %r, sum of members%s gives %r" % (pop.name, xobj.name, i, got[i], "/denominator" if cmap[xobj.name]["den"] else "", exp[i]))
    return {"nontrivial": bool(used_factor and used_charac), "labels": sorted(set(labels))}
