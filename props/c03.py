"""C03 - each step's flows follow the documented unit conversion on an exact dt grid; reference reproduces trajectories."""
import itertools
import numpy as np
from hypothesis import strategies as st
from vlib import gen_model, simcase, oracles, replay, libcase
from vlib.build import link_key
from vlib.runner import Violation, Discard

ID = "C03"
RULE = (
    "three kinds of case: 'grid' = (start, end, dt) triples (Hypothesis draws + an enumerated product of starts x spans x step sizes) checked against the validity predicate "
    "t_k = start + k*dt (1e-9), strictly increasing, number of steps = the first grid point at or after the end year ((end-start)/dt integer up to 1e-12 => that integer, else ceil); 'model' = perturbed library projects and generated ModelSpecs (every unit type, timescales != 1, "
    "shared parameters, several parameters per link, timed sources, junctions, transfers) where at EVERY index the recorded value of EVERY link is compared (1e-9 of the source stock) with "
    "an independent one-step replay of the documented conversion rules from atomica's own state and parameter values, and the next state with stock + in - out (per bin for timed "
    "compartments); 'free' = free run of the reference simulator (refsim) from the same inputs, all trajectories rtol 1e-8, mismatches without a one-step mismatch counted as inconclusive; "
    "non-trivial: grid = dt not dyadic or span not a multiple of dt; model = >= 3 different units with non-zero flow and a timescale != 1; distinct = case hash"
)
ASSUMPTIONS = [
    "domain as C01; the replay reads atomica's parameter arrays (their correctness is C06's subject) and state at index t and predicts links(t) and state(t+1)",
    "grid predicate: when (end-start)/dt is within 1e-12 (relative) of an integer k the run must have k steps; between 1e-12 and 1e-8 both k and ceil are accepted",
]
BUDGET = {"quick": 6000, "thorough": 24000}  # thorough = 4x quick: a depth that was run to completion, quiet, at seed 1 (deterministic given the seed)
TIME_CAP = {"quick": 75, "thorough": 1500}
PROFILE = {"p_programs": 0.3, "p_second_type": 0.15, "p_function": 0.3, "extreme": 0.15, "max_steps": 25, "p_timed": 0.5, "p_junction": 0.5}

STARTS = [2000.0, 2000.5, 1999.75, 2017.0, 2001.25, 1990.0, 2000.1]
SPANS = [0.0, 0.3, 1.0, 1.5, 2.0, 3.0, 5.0, 7.7, 10.0, 10.2, 15.0, 20.0, 33.0, 35.0, 50.0]
STEPS = [1.0, 0.5, 0.25, 0.125, 0.1, 0.2, 0.3, 0.7, 1 / 3, 1 / 12, 1 / 52, 1 / 365, 0.05, 0.01, 2.0, 0.4, 0.6, 1 / 6, 1 / 24]


def static_cases(tier):
    for s, sp, dt in itertools.product(STARTS, SPANS, STEPS):
        if sp / dt > 4000:
            continue
        yield {"kind": "grid", "start": s, "end": s + sp, "dt": dt, "how": "ctor"}
        if tier == "thorough":
            yield {"kind": "grid", "start": s, "end": s + sp, "dt": dt, "how": "update"}
            yield {"kind": "grid", "start": s, "end": s + sp, "dt": dt, "how": "dt-setter"}


@st.composite
def grid_cases(draw):
    start = draw(st.one_of(st.sampled_from(STARTS), st.floats(1950, 2050, allow_nan=False).map(lambda x: round(x, 2))))
    dt = draw(st.one_of(st.sampled_from(STEPS), st.integers(1, 400).map(lambda k: 1.0 / k), st.floats(0.003, 2.0, allow_nan=False)))
    n = draw(st.integers(0, 600))
    off = draw(st.sampled_from([0.0, 0.0, 0.3, 0.5, 0.999, 1e-9, -1e-9]))
    end = start + max(0.0, (n - off)) * dt
    return {"kind": "grid", "start": start, "end": end, "dt": dt, "how": draw(st.sampled_from(["ctor", "update", "dt-setter"]))}


def strategy(tier):
    prof = dict(PROFILE)
    if tier == "thorough":
        prof.update(max_steps=80, max_ord=6, max_pops=4)
    models = gen_model.model_specs(prof).map(lambda s: {"kind": "model", "spec": s})
    libs = libcase.lib_cases(20 if tier == "quick" else 80, quick=(tier == "quick")).map(lambda s: {"kind": "model", "spec": s})
    return st.one_of(grid_cases(), grid_cases(), models, models, models, models, models, libs)


def check_grid(case):
    import atomica as at

    simcase.quiet()
    start, end, dt = case["start"], case["end"], case["dt"]
    if case["how"] == "ctor":
        s = at.ProjectSettings(start, end, dt)
    elif case["how"] == "update":
        s = at.ProjectSettings()
        s.update_time_vector(start=start, end=end, dt=dt)
    else:
        s = at.ProjectSettings(start, end, 0.25)
        s.sim_dt = dt
        s.sim_end = end
    t = np.asarray(s.tvec, dtype=float)
    n = len(t) - 1
    if n < 0:
        raise Violation(ID, "grid/empty", "empty time vector for %r" % case)
    k = np.arange(len(t))
    exact = start + k * dt
    err = np.abs(t - exact)
    tolv = 1e-9 * np.maximum(1.0, np.abs(t))
    if (err > tolv).any():
        i = int(np.nonzero(err > tolv)[0][0])
        raise Violation(ID, "grid/not-start-plus-k-dt", "settings %r: t[%d]=%r but start+k*dt=%r (%d points, spacing %r)" % (case, i, t[i], exact[i], len(t), (t[-1] - t[0]) / max(n, 1)))
    if n >= 1 and not np.all(np.diff(t) > 0):
        raise Violation(ID, "grid/not-increasing", "settings %r" % case)
    # number of steps: the first grid point at or after the end year.  r = (end-start)/dt; when r is an integer k up to floating
    # point error (|r-k| <= 1e-12*max(1,k)) the answer is k; between 1e-12 and 1e-8 either reading is accepted; otherwise ceil(r)
    import math

    r = (end - start) / dt
    kk = round(r)
    d = abs(r - kk)
    if d <= 1e-12 * max(1.0, abs(kk)):
        allowed = {kk}
    elif d <= 1e-8 * max(1.0, abs(kk)):
        allowed = {kk, math.ceil(r)}
    else:
        allowed = {math.ceil(r)}
    allowed = {max(0, a) for a in allowed}
    if n not in allowed:
        raise Violation(ID, "grid/ends-before-end-year" if n < min(allowed) else "grid/ends-late", "settings %r: %d steps (last point %r) but the first grid point at or after the end year %r is step %s ((end-start)/dt = %r)" % (case, n, t[-1], end, sorted(allowed), r))
    if abs(s.sim_dt - dt) > 0 or abs(s.sim_start - start) > 0:
        raise Violation(ID, "grid/settings-changed", "settings %r: sim_start %r sim_dt %r" % (case, s.sim_start, s.sim_dt))
    ratio = (end - start) / dt
    dyadic = float(dt).hex().rstrip("0").endswith("p-0") or (dt * 1024) == int(dt * 1024)
    nontrivial = (not dyadic) or abs(ratio - round(ratio)) > 1e-9
    return {"nontrivial": bool(nontrivial), "labels": ["kind:grid", "how:" + case["how"], "grid:dyadic" if dyadic else "grid:non-dyadic", "grid:span-multiple" if abs(ratio - round(ratio)) <= 1e-9 else "grid:span-not-multiple"]}


def upstream_stock(rp, junc, ti, _seen=None):
    """people held by the non-junction compartments that feed a junction (through chains of junctions)"""
    _seen = _seen or set()
    if id(junc) in _seen:
        return 0.0
    _seen.add(id(junc))
    tot = 0.0
    for k in junc.inlinks:
        if isinstance(k.source, rp.Junc):
            tot += upstream_stock(rp, k.source, ti, _seen)
        elif not isinstance(k.source, rp.Src):
            tot += abs(float(rp.cv[k.source][ti]))
    return tot


def check_model(spec):
    b, res = simcase.run_any(spec)
    # the engine must integrate on the grid it reports
    t = np.asarray(res.t, dtype=float)
    dt = float(res.model.dt)
    s = spec["settings"] if "lib" not in spec else {"start": spec["start"], "dt": spec["dt"]}
    if abs(dt - s["dt"]) > 0 or np.any(np.abs(t - (s["start"] + np.arange(len(t)) * dt)) > 1e-9 * np.maximum(1.0, np.abs(t))):
        raise Violation(ID, "grid/model-time-vector", "model time vector is not start+k*dt: dt=%r spacing=%r points=%d settings=%r" % (dt, (t[-1] - t[0]) / max(1, len(t) - 1), len(t), s))
    oracles.check_structure(spec, res, ID, ("links", "residual", "timed"))
    rp = replay.Replay(res)
    T = len(t)
    units = set()
    for ti in range(T):
        pred, pbins, info = rp.predict_links(ti)
        for pop in res.model.pops:
            for l in pop.links:
                a, p = float(rp.lv[l][ti]), pred[l]
                if not np.isfinite(p):
                    continue  # amount / denormal stock overflows in the reference as well (C02 decides those)
                if isinstance(l.source, rp.Junc):
                    # what passes through the junction this step; its inflows may be flush links (stock minus the other outflows), so
                    # they carry the rounding error of the stocks upstream: the tolerance gains 1e-12 x those stocks (1e-3 here x 1e-9 below)
                    src_size = float(sum(abs(rp.lv[k][ti]) for k in l.source.inlinks)) + 1e-3 * upstream_stock(rp, l.source, ti)
                elif isinstance(l.source, rp.Src):
                    src_size = abs(p)
                else:
                    src_size = float(rp.cv[l.source][ti])
                scale = max(1.0, src_size, abs(p))
                if abs(a - p) > 1e-9 * scale:
                    u = l.parameter.units if l.parameter is not None else ("flush" if isinstance(l.source, rp.Timed) else "junction-residual")
                    if isinstance(l.source, rp.Junc):
                        u = "junction"
                    raise Violation(ID, "conversion/%s" % u, "index %d link %s: recorded %r, documented conversion gives %r (source size %r, parameter value %r, timescale %r, dt %r)" % (ti, link_key(l), a, p, float(rp.cv[l.source][ti]), float(rp.pv[l.parameter][ti]) if l.parameter is not None else None, l.parameter.timescale if l.parameter is not None else None, dt))
                if a > 0 and l.parameter is not None:
                    units.add(l.parameter.units + ("*" if l.parameter.timescale != 1 else ""))
        if ti < T - 1:
            nxt = rp.predict_next(ti)
            for c, pv in nxt.items():
                if isinstance(c, rp.Timed):
                    got = np.asarray(c._vals[:, ti + 1], dtype=float)
                    bad = got.shape != pv.shape or np.any(np.abs(got - pv) > 1e-9 * max(1.0, float(rp.cv[c][ti]), float(np.sum(pv))))
                else:
                    got = float(rp.cv[c][ti + 1])
                    bad = abs(got - pv) > 1e-9 * max(1.0, float(rp.cv[c][ti]), abs(pv))
                if bad:
                    raise Violation(ID, "state-update/%s" % type(c).__name__, "%s/%s index %d->%d: recorded %r, stock+in-out gives %r" % (c.pop.name, c.name, ti, ti + 1, np.asarray(got).tolist(), np.asarray(pv).tolist()))
    free_labels, inconclusive = free_run(spec, res, rp, b.get("preflush")) if "lib" not in spec else (["free:not-run(library model)"], {})
    base_units = {u.rstrip("*") for u in units}
    nontrivial = len(base_units) >= 3 and any(u.endswith("*") for u in units)
    return {"nontrivial": nontrivial, "labels": ["kind:model"] + simcase.labels_of(spec) + ["unit:" + u for u in sorted(units)] + free_labels, "inconclusive": inconclusive}


def free_run(spec, res, rp, preflush=None):
    """free run of the reference simulator from the same INPUTS; all trajectories rtol 1e-8 (relative to the population's largest stock)"""
    from vlib import refsim, canon

    try:
        sim = refsim.RefSim(spec)
        # with a characteristic among the initialisation quantities the initial state is the solution of a linear system, which atomica
        # reproduces to its absolute tolerance of 1e-6 only (C07 decides that): the free run then starts from atomica's pre-flush state
        ref = sim.run(initial=preflush if (spec.get("indirect_init") and preflush) else None)
    except refsim.Unsupported as e:
        return ["free:unsupported(%s)" % e], {}
    got = canon.result_arrays(res)
    t = np.asarray(res.t, dtype=float)
    if len(sim.t) != len(t) or np.max(np.abs(sim.t - t)) > 1e-9:
        raise Violation(ID, "free/time-grid", "reference grid %r..%r (%d points) vs atomica %r..%r (%d points)" % (sim.t[0], sim.t[-1], len(sim.t), t[0], t[-1], len(t)))
    missing = sorted(set(got) - set(ref), key=repr)
    extra = sorted(set(ref) - set(got), key=repr)
    if missing or extra:
        raise Violation(ID, "free/variables", "atomica has %r which the reference lacks; the reference has %r which atomica lacks" % (missing[:4], extra[:4]))
    popmax = {}
    for k, v in got.items():
        if k[0] == "comp":
            popmax[k[1]] = max(popmax.get(k[1], 0.0), float(np.nanmax(np.abs(v))) if v.size else 0.0)
    first = None
    for k in sorted(got, key=repr):
        x, y = got[k], ref[k]
        if x.shape != y.shape:
            raise Violation(ID, "free/shape", "%s: atomica %r reference %r (number of elapsed-time bins or time points differs)" % (k, x.shape, y.shape))
        S = max(1.0, popmax.get(k[1], 0.0))
        with np.errstate(invalid="ignore"):
            bad = np.abs(x - y) > 1e-8 * np.maximum(S, np.maximum(np.abs(x), np.abs(y)))
            bad |= np.isnan(x) != np.isnan(y)
            bad &= ~(x == y)
        if bad.any():
            i = int(np.min(np.argwhere(bad)[:, -1]))
            if first is None or i < first[0]:
                first = (i, k, x[..., i].tolist(), y[..., i].tolist())
    if first is None:
        return ["free:match"], {}
    i, k, x, y = first
    if i == 0:
        raise Violation(ID, "free/initial/%s" % k[0], "at the first time point %s is %r in atomica but %r in the reference simulation run from the same inputs" % (k, x, y))
    # mismatch after matching up to i-1: atomica's flows and state update from its own state were already confirmed by the one-step replay;
    # confirm the parameters from atomica's own state too - if they agree, the divergence is amplified rounding (a branch flipped), not a rule
    state = sim.state_from_result(res, i)
    snap = {pop.name: {par.name: float(rp.pv[par][i]) for par in pop.pars} for pop in res.model.pops}
    pv = sim.eval_pars(state, i, snap=snap)
    covs = {(c["par"], c["pop"]): c for c in ((spec.get("progs") or {}).get("covouts") or [])} if "comps" in spec else {}
    for pop in res.model.pops:
        for par in pop.pars:
            if par.name in pv[pop.name]:
                a, e = float(rp.pv[par][i]), float(pv[pop.name][par.name])
                extra = 0.0
                co = covs.get((par.name, pop.name))
                if co is not None:
                    # a program outcome is baseline + sum of weight x (outcome - baseline): near full coverage the terms cancel, so the
                    # value is exact only relative to the outcomes' magnitude (times the per-step conversion of number / per-year formats)
                    mag = max([abs(co["base"])] + [abs(v_) for v_ in co["progs"].values()] + [abs(float(v_)) for v_ in (co.get("imp") or {}).values()])
                    fmt = sim.pars[par.name]["fmt"]
                    conv = 1.0
                    if fmt == "number":
                        conv = sum(sim.size(state, pop.name, l_["src"]) for l_ in sim.links if l_["sp"] == pop.name and l_["par"] == par.name) / sim.dt
                    elif fmt in ("rate", "probability"):
                        conv = 1.0 / sim.dt
                    extra = abs(conv) * mag
                if not (a == e or (np.isnan(a) and np.isnan(e)) or abs(a - e) <= 1e-9 * max(1.0, abs(a), abs(e), extra if np.isfinite(extra) else 0.0)):
                    raise Violation(ID, "free/parameter", "index %d: parameter %s/%s is %r in atomica but the documented rules applied to atomica's own state give %r (first free-run divergence: %s atomica %r reference %r)" % (i, pop.name, par.name, a, e, k, x, y))
    return ["free:diverged-inconclusive"], {"free run diverges from atomica although every one-step rule agrees (amplified rounding)": 1}


def check(case):
    if case["kind"] == "grid":
        return check_grid(case)
    return check_model(case["spec"])
