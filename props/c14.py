"""C14 - constrained allocations meet the total and every bound, or are rejected.

Four sub-checks share one strategy (field "kind"):

csb     atomica.optimization.constrain_sum_bounded(x, s, lb, ub) on explicit vectors: whatever is returned
        must sum to s (1e-6 relative) and lie in [lb, ub] (1e-9*max(1,s)); a proposal that already satisfies
        the constraints comes back unchanged; an exception is the permitted signal; inputs are not mutated
        (TotalSpendConstraint reuses x for the penalty, SpendingPackageAdjustment passes its own min/max arrays).
tsc     Optimization + TotalSpendConstraint over plain / paired / package adjustments without any simulation:
        get_initialization -> get_hard_constraints -> update_instructions(x) -> constrain_instructions (optimize()'s own
        sequence), run 1..3 times on the SAME objects with scaled / different default spending: every use must follow
        the instructions and progset it was given (also after an earlier use failed or was unresolvable).
        The expected constrained years, totals (given or default budget, times budget factor), resolved bounds and
        the UnresolvableConstraint / InvalidInitialConditions verdicts are computed here from the case data alone.
pkg     SpendingPackageAdjustment.update_instructions for x inside the adjustables' own limits: member shares in
        [min_prop, max_prop], members sum to the package total, package total within its limits.
paired  PairedLinearSpendingAdjustment.update_instructions: the pair's sum is conserved, nobody goes negative,
        the first year and everything outside the ramp is untouched.
"""
import math
import numpy as np
from hypothesis import strategies as st
from vlib.runner import Violation

ID = "C14"
RULE = (
    "cases = kind csb (explicit proposal/total/bound vectors, n 1..10, scale 1e-2..1e7, bounds 0/finite/inf/equal, totals interior/at-min/at-max/"
    "infeasible by 0.5..1e-9 relative/zero, proposals random/all-zero/single/feasible/rescaled-feasible/feasible-plus-bump/at-bounds), kind tsc "
    "(Optimization with plain/paired/package adjustments on 10 programs, 1..3 years each, abs/rel bounds, default or explicit totals, scalar or "
    "per-year budget factor, 1..2 proposals inside the adjustables' limits: uniform/initial/at-lower/at-upper/water-filled to total*(1+eps)/single non-zero/package totals at their minimum; explicit constraint years in arbitrary order with per-year totals and factors; 0..2 further uses of the same Optimization objects with scaled or redrawn default spending), kind pkg "
    "(2..6 members, fixed or free proportions, fixed or adjustable total, 1..3 proposals), kind paired (two gradients per case); non-trivial = the problem is infeasible "
    "(exception or UnresolvableConstraint expected) or the proposal needed a projection (rescaled proposal breaks a bound / allocation changed by the "
    "constraint) / package fractions needed rescaling / non-zero paired transfer; distinct = distinct case hash"
)
ASSUMPTIONS = [
    "proposals are finite and non-negative and bounds satisfy 0 <= lb <= ub (spending); the total is >= 0; amounts are 0 or at least 1e-9 of the case scale (no denormal amounts)",
    "every program is reached by at most one adjustment (the code documents several adjustments on one program as unsupported)",
    "explicit constraint years are years in which some adjustment acts (anything else is rejected by a documented Exception)",
    "paired adjustments are used with instructions that already hold an allocation entry for both programs exactly at t[0] (as in the package's own test; anything else fails loudly with a TypeError) and t[1] > t[0]",
    "package constructor preconditions (initial proportions within min/max, totals within limits, sum(min_props)<=1<=sum(max_props)) hold; with fix_props the min/max proportions contain the initial proportions",
    "any exception counts as the permitted signal when the problem is infeasible, the total is 0 or a bound is NaN (0*inf relative bound); for a feasible problem only FailedConstraint/AssertionError do",
    "ProgramSet is built programmatically (ProgramSet.new on the tb_simple framework/data) with constant default spending; no simulation is run",
]
BUDGET = {"quick": 9000, "thorough": 72000}  # thorough = 8x quick: a depth that was run to completion, quiet, at seed 1 (deterministic given the seed)
TIME_CAP = {"quick": 75, "thorough": 1500}

INF = math.inf
NPROG = 10
NAMES = ["P%d" % i for i in range(NPROG)]
YEARS = [2020.0, 2021.0, 2023.0, 2025.5]
EPS = [0.5, 0.1, 1e-2, 1e-3, 1e-4, 3e-5, 1e-5, 5e-6, 2e-6, 1e-6, 1e-7, 1e-9]
E2E_NAMES = ["Testing - pharmacies", "Testing - clinics", "Testing - outreach", "Adherence"]  # programs of the library 'udt' model
LOOSE = "loose-total-tolerance"  # root cause: SLSQP acc=1e-5 and np.isclose default rtol=1e-5 instead of the documented 1e-6

_CACHE = {}


def _env():
    if "pg" not in _CACHE:
        import atomica as at

        at.logger.setLevel("CRITICAL")
        P = at.demo("tb_simple", do_run=False)
        pg = at.ProgramSet.new(tvec=np.array([2015.0]), progs={n: "Prog " + n for n in NAMES}, framework=P.framework, data=P.data)
        _CACHE["at"] = at
        _CACHE["pg"] = pg
    return _CACHE["at"], _CACHE["pg"]


def _f(v):
    if v is None:
        return None
    if isinstance(v, str):
        return {"inf": INF, "-inf": -INF}[v]
    return float(v)


def _enc(v):
    if v is None:
        return None
    if v == INF:
        return "inf"
    return float(v)


def _fill(lo, cap, s, w):
    """a point of the box [lo, cap] (cap finite) whose sum is s up to rounding: proportional water filling with weights w"""
    n = len(lo)
    y = list(lo)
    for _ in range(n + 2):
        r = s - math.fsum(y)
        if r <= 0:
            break
        act = [i for i in range(n) if cap[i] - y[i] > 0]
        if not act:
            break
        ws = [w[i] for i in act]
        tot = math.fsum(ws)
        if tot <= 0:
            ws = [1.0] * len(act)
            tot = float(len(act))
        for i, wi in zip(act, ws):
            y[i] = min(cap[i], y[i] + r * wi / tot)
    return y


# --------------------------------------------------------------------------- strategies


def _snap(v):
    """[0,1] stays; (1,1.5] is mapped onto the special values 0, 1, 0.5 (one draw per number: Hypothesis draws dominate the run time)"""
    if v <= 1.0:
        return v if v >= 1e-9 else 0.0  # nothing between 0 and 1e-9 of the scale: denormal amounts are outside the domain
    return (0.0, 1.0, 0.0, 1.0, 0.5)[min(4, int((v - 1.0) * 10.0))]


unit = st.floats(min_value=0.0, max_value=1.5, allow_nan=False).map(_snap)
eps_s = st.sampled_from(EPS)
scale_s = st.one_of(st.sampled_from([1e-2, 1.0, 100.0, 1e4, 1e7]), st.floats(min_value=-2.0, max_value=7.0, allow_nan=False).map(lambda e: 10.0**e))


def _draw_total(draw, slo, shi, scale):
    """(total, mode) relative to the sum of lower / upper bounds"""
    mode = draw(st.sampled_from(["interior"] * 6 + ["min", "max", "below", "above", "below", "above", "zero"]))
    cap = shi if math.isfinite(shi) else slo + scale * draw(st.sampled_from([0.5, 1.0, 3.0]))
    if mode == "min":
        return slo, mode
    if mode == "max":
        return cap, mode
    if mode == "below":
        return slo * (1.0 - draw(eps_s)), mode
    if mode == "above" and math.isfinite(shi):
        return shi * (1.0 + draw(eps_s)), mode
    if mode == "zero":
        return 0.0, mode
    return slo + draw(unit) * (cap - slo), "interior"


def _draw_proposal(draw, lb, ub, s, scale):
    n = len(lb)
    slo, shi = math.fsum(lb), math.fsum(ub)
    feasible = s > 0 and slo <= s <= shi
    mode = draw(st.sampled_from(["random", "random", "random", "zero", "single", "feasible", "scaled", "near", "near", "near", "atlower", "atupper"]))
    cap = [u if math.isfinite(u) else l + max(s, scale) for l, u in zip(lb, ub)]
    if mode in ("feasible", "scaled", "near") and not feasible:
        mode = draw(st.sampled_from(["random", "atupper", "atlower"]))
    if mode == "zero":
        return [0.0] * n
    if mode == "single":
        k = draw(st.integers(0, n - 1))
        return [scale * draw(unit) if i == k else 0.0 for i in range(n)]
    if mode == "atlower":
        return list(lb)
    if mode == "atupper":
        return list(cap)
    if mode == "random":
        return [2.0 * scale / n * draw(unit) for _ in range(n)]
    y = _fill(lb, cap, s, [draw(unit) for _ in range(n)])
    if mode == "feasible":
        return y
    if mode == "scaled":
        c = draw(st.one_of(st.sampled_from([0.5, 2.0, 1e-3, 1e3]), st.floats(min_value=0.01, max_value=100.0)))
        return [c * v for v in y]
    # near: a feasible point with one coordinate pushed by a small fraction of the total, optionally compensated elsewhere
    k = draw(st.integers(0, n - 1))
    delta = draw(eps_s) * s * draw(st.sampled_from([1.0, -1.0]))
    x = list(y)
    x[k] = max(0.0, x[k] + delta)
    if n > 1 and draw(st.booleans()):
        j = draw(st.integers(0, n - 2))
        j = j if j < k else j + 1
        x[j] = max(0.0, x[j] - delta)
    return x


class _Pool:
    """programs not used yet; pop() draws one of them"""

    def __init__(self, draw, nprog=NPROG):
        self.draw = draw
        self.left = list(range(nprog))

    def __len__(self):
        return len(self.left)

    def pop(self):
        p = self.draw(st.sampled_from(self.left))
        self.left.remove(p)
        return p


@st.composite
def csb_cases(draw):
    n = draw(st.sampled_from([1, 1, 2, 2, 2, 3, 3, 4, 5, 6, 7, 8, 9, 10]))
    scale = draw(scale_s)
    lb, ub = [], []
    for _ in range(n):
        lo = 0.0 if draw(st.sampled_from(["zero", "zero", "fin"])) == "zero" else scale / n * draw(unit)
        uk = draw(st.sampled_from(["inf", "eq", "fin", "fin"]))
        hi = INF if uk == "inf" else (lo if uk == "eq" else lo + 2.0 * scale / n * draw(unit))
        lb.append(lo)
        ub.append(hi)
    s, tmode = _draw_total(draw, math.fsum(lb), math.fsum(ub), scale)
    if s == 0 and tmode != "zero":
        s = scale * draw(unit)  # all lower bounds are 0: 'min'/'below' would only repeat the zero-total case
    x = _draw_proposal(draw, lb, ub, s, scale)
    return {"kind": "csb", "x": [float(v) for v in x], "s": float(s), "lb": lb, "ub": [_enc(u) for u in ub]}


@st.composite
def package_spec(draw, progs, scale, year, name):
    k = len(progs)
    if draw(st.integers(0, 3)) == 0:
        # tight flavour: unequal members, proportion limits hugging the initial proportions (so that an equal split is
        # not allowed), total adjustable from 0 - the constraint may have to hand money to a package whose proposal is 0
        initial = [scale * (0.05 + draw(unit)) * (i + 1) for i in range(k)]
        tot0 = float(np.array(initial).sum())
        props = [float(v) for v in np.array(initial) / tot0]
        a, b = draw(st.sampled_from([1.0, 0.9, 0.75])), draw(st.sampled_from([0.0, 0.1, 0.25]))
        max_total = draw(st.sampled_from([tot0 * 1.5, tot0 * 3.0 + scale, tot0]))
        return {"type": "package", "name": name, "year": year, "progs": progs, "initial": initial, "min_props": [p * a for p in props], "max_props": [min(1.0, p + (1.0 - p) * b) for p in props], "min_total": 0.0, "max_total": max_total, "fix_props": False}
    initial = [0.0] * k if draw(st.integers(0, 11)) == 0 else [scale * draw(unit) for _ in range(k)]
    tot0 = float(np.array(initial).sum())
    props = [1.0 / k] * k if tot0 == 0 else [float(v) for v in np.array(initial) / tot0]
    fix_props = draw(st.integers(0, 3)) == 0
    min_props = None if draw(st.integers(0, 3)) == 0 else [p * draw(st.one_of(st.sampled_from([0.0, 1.0]), unit)) for p in props]
    max_props = None if draw(st.integers(0, 3)) == 0 else [min(1.0, p + (1.0 - p) * draw(st.one_of(st.sampled_from([0.0, 1.0]), unit))) for p in props]
    tk = draw(st.sampled_from(["free", "free", "free", "none", "fixed", "up", "down"]))
    min_total = None if tk in ("none", "up") else (tot0 if tk == "fixed" else tot0 * draw(st.one_of(st.sampled_from([0.0, 0.5]), unit)))
    max_total = None if tk in ("none", "down") else (tot0 if tk == "fixed" else draw(st.sampled_from([tot0 * 1.5, tot0 * 3.0 + scale, tot0 + scale * 0.1, INF])))
    return {"type": "package", "name": name, "year": year, "progs": progs, "initial": initial, "min_props": min_props, "max_props": max_props, "min_total": min_total, "max_total": _enc(max_total), "fix_props": fix_props}


@st.composite
def plain_spec(draw, prog, spend, scale, bad, years=None):
    """bad=True also draws bounds that exclude the initial spend (InvalidInitialConditions expected)"""
    years = sorted(draw(st.lists(st.sampled_from(YEARS), min_size=1, max_size=3, unique=True))) if years is None else list(years)
    limit = draw(st.sampled_from(["abs", "abs", "rel"]))
    lower, upper, initial = [], [], []
    same = draw(st.booleans())
    for j in range(len(years)):
        if same and j > 0:
            lower.append(lower[0]), upper.append(upper[0]), initial.append(initial[0])
            continue
        init = None if draw(st.integers(0, 3)) > 0 else scale * draw(unit)
        v = spend if init is None else init
        if limit == "abs":
            lk = draw(st.sampled_from(["zero", "zero", "below", "below", "equal"] + (["above"] if bad else [])))
            lo = 0.0 if lk == "zero" else (v * draw(unit) if lk == "below" else (v if lk == "equal" else v * 1.5 + 0.01 * scale))
            uk = draw(st.sampled_from(["inf", "inf", "above", "above", "above", "equal", "atv"] + (["below"] if bad else [])))
            hi = INF if uk == "inf" else (max(lo, v) + scale * draw(unit) if uk == "above" else (max(lo, v) if uk in ("atv", "equal") else v * 0.5))
            if uk == "equal":
                lo = hi = v
            if hi < lo:
                hi = lo
        else:
            lo = draw(st.one_of(st.sampled_from([0.0, 0.0, 0.5, 1.0] + ([1.25] if bad else [])), unit))
            hi = draw(st.one_of(st.sampled_from([INF, INF, 1.0, 1.5, 3.0] + ([0.75] if bad else [])), unit.map(lambda u: 1.0 + 2.0 * u)))
            if hi < lo:
                hi = lo
        lower.append(lo), upper.append(_enc(hi)), initial.append(init)
    return {"type": "plain", "prog": prog, "years": years, "limit": limit, "lower": lower, "upper": upper, "initial": initial}


@st.composite
def tsc_cases(draw, kind="tsc", nprog=NPROG):
    """kind 'tsc': constraint machinery driven step by step; kind 'e2e': the same problem handed to at.optimize() on a small project"""
    e2e = kind == "e2e"
    scale = draw(scale_s)
    spend = [scale * (u if (u > 0 or not e2e) else 0.25) for u in draw(st.lists(unit, min_size=nprog, max_size=nprog))]  # e2e: zero totals only through the all-zero case
    if draw(st.integers(0, 15)) == 0:
        spend = [0.0] * nprog
    src = draw(st.sampled_from(["progset", "dict", "dict", "none"]))
    start = 2020.0 if e2e else draw(st.sampled_from([2018.0, 2020.0, 2020.0]))
    bad = draw(st.integers(0, 9)) == 0
    pool = _Pool(draw, nprog)
    nadj = draw(st.sampled_from([1, 2, 2, 3, 3, 4] if e2e else [1, 2, 2, 3, 3, 4, 5, 6, 8, 10]))
    adj = []
    npk = 0
    for _ in range(nadj):
        if not len(pool):
            break
        typ = draw(st.sampled_from(["plain"] * 6 + ["paired", "package", "package"]))
        if typ == "paired" and (src == "none" or start != YEARS[0] or len(pool) < 2):
            typ = "plain"  # the ramp needs an allocation entry exactly at its first year (TimeSeries.get)
        if typ == "package" and len(pool) < 2:
            typ = "plain"
        if typ == "plain":
            p = pool.pop()
            adj.append(draw(plain_spec(p, spend[p], scale, bad)))
        elif typ == "paired":
            a, b = pool.pop(), pool.pop()
            adj.append({"type": "paired", "progs": [a, b], "years": [YEARS[0], draw(st.sampled_from(YEARS[1:]))]})
        else:
            k = draw(st.integers(2, min(4, len(pool))))
            progs = [pool.pop() for _ in range(k)]
            adj.append(draw(package_spec(progs, scale, draw(st.sampled_from(YEARS)), "pkg%d" % npk)))
            npk += 1
    case = {"kind": kind, "scale": scale, "spend": spend, "src": src, "start": start, "adj": adj}
    m = _model(case, with_constraint=False)
    years = sorted(m["entries"])
    con = {"t": None, "total": None, "bf": 1.0}
    if years and draw(st.booleans()):
        # the user's order is arbitrary (also descending): totals / budget factors belong to the year at the same position
        con["t"] = draw(st.lists(st.sampled_from(years), min_size=1, max_size=len(years), unique=True))
        order = draw(st.sampled_from(["drawn", "drawn", "ascending", "descending"]))
        if order != "drawn":
            con["t"] = sorted(con["t"], reverse=(order == "descending"))
        bk = draw(st.sampled_from(["one", "scalar", "list", "list"]))
        if bk == "scalar":
            con["bf"] = draw(st.one_of(st.sampled_from([0.5, 2.0, 1.3, 0.0]), st.floats(min_value=0.1, max_value=3.0)))
        elif bk == "list":
            con["bf"] = [draw(st.one_of(st.sampled_from([1.0, 0.5, 2.0, 1.5, 3.0]), st.floats(min_value=0.1, max_value=3.0))) for _ in con["t"]]
        if draw(st.booleans()):
            tot = []
            for t in con["t"]:
                if draw(st.integers(0, 3)) == 0:
                    tot.append(None)
                    continue
                lo = math.fsum(e["lo"] for e in m["entries"][t] if not math.isnan(e["lo"]))
                hi = math.fsum(e["hi"] for e in m["entries"][t] if not math.isnan(e["hi"]))
                tot.append(float(_draw_total(draw, lo, hi, scale)[0]))
            con["total"] = tot
    else:
        con["bf"] = draw(st.one_of(st.sampled_from([1.0, 1.0, 1.0, 0.5, 2.0, 1.3]), st.floats(min_value=0.1, max_value=3.0)))
    case["con"] = con
    if e2e:
        # tiny optimizations: a flat objective (measured in the first adjusted year / before anything can react) or one that moves, 1..3 iterations
        case["meas"] = draw(st.sampled_from(["flat", "flat", "spend", "outcome"]))
        case["maxiters"] = draw(st.integers(1, 3))
        case["randseed"] = draw(st.integers(0, 3))
        return case
    nx = len(m["adjustables"])
    props = []
    for _ in range(draw(st.sampled_from([1, 1, 2]))):
        mode = draw(st.sampled_from(["u", "u", "u", "initial", "lower", "upper", "near", "near", "zero-single"] + (["pkg-low", "pkg-low", "pkg-low"] if npk else [])))
        u = draw(st.lists(unit, min_size=nx, max_size=nx)) if mode in ("u", "near", "zero-single", "pkg-low") else [0.5] * nx
        props.append({"mode": mode, "u": u, "eps": draw(eps_s) * draw(st.sampled_from([1.0, -1.0])) if mode == "near" else 0.0, "k": draw(st.integers(0, max(0, nx - 1))) if mode == "zero-single" else 0})
    case["props"] = props
    # later uses of the very same adjustment / constraint / Optimization objects with other spending (budget sweep, other scenario)
    reuse = []
    cur = list(adj)
    for _ in range(draw(st.sampled_from([0, 0, 1, 1, 2]))):
        if draw(st.integers(0, 2)) > 0:
            r = {"mode": "scale", "factor": draw(st.one_of(st.sampled_from([2.0, 0.5, 3.0, 1.0, 1.5, 0.0, 1.0]), st.floats(min_value=0.1, max_value=4.0)))}
            sp = [r["factor"] * v for v in spend]
        else:
            r = {"mode": "respend", "spend": [scale * u for u in draw(st.lists(unit, min_size=NPROG, max_size=NPROG))]}
            sp = r["spend"]
        # between two uses some adjustments are replaced in optimization.adjustments by NEW objects with the same name
        # (package: other members / initial spends / limits; plain: other bounds); years stay, so explicit constraint years remain valid
        repl = []
        for i, a in enumerate(cur):
            if a["type"] == "paired" or draw(st.integers(0, 2)) > 0:
                continue
            if a["type"] == "plain":
                new = draw(plain_spec(a["prog"], sp[a["prog"]], scale, bad, years=a["years"]))
            else:
                members = list(a["progs"])
                if len(pool) and draw(st.booleans()):
                    members[draw(st.integers(0, len(members) - 1))] = pool.pop()
                if len(members) > 2 and draw(st.integers(0, 2)) == 0:
                    members = members[:-1]
                new = draw(package_spec(members, scale, a["year"], a["name"]))
            repl.append([i, new])
            cur[i] = new
        r["replace"] = repl
        r["assign"] = draw(st.booleans())
        reuse.append(r)
    case["reuse"] = reuse
    return case


@st.composite
def pkg_cases(draw):
    scale = draw(scale_s)
    k = draw(st.integers(2, 6))
    progs = draw(st.lists(st.integers(0, NPROG - 1), min_size=k, max_size=k, unique=True))
    spec = draw(package_spec(progs, scale, draw(st.sampled_from(YEARS)), "pkg0"))
    nx = k + 1
    props = []
    for _ in range(draw(st.sampled_from([1, 2, 3]))):
        mode = draw(st.sampled_from(["u", "u", "u", "u", "initial", "lower", "upper"]))
        props.append({"mode": mode, "u": draw(st.lists(unit, min_size=nx, max_size=nx)) if mode == "u" else [0.5] * nx})
    return {"kind": "pkg", "scale": scale, "spend": [scale * draw(unit)] * NPROG, "src": draw(st.sampled_from(["dict", "none", "progset"])), "start": 2018.0, "adj": [spec], "props": props}


@st.composite
def paired_cases(draw):
    scale = draw(scale_s)
    a, b = draw(st.lists(st.integers(0, NPROG - 1), min_size=2, max_size=2, unique=True))
    ys = sorted(draw(st.lists(st.sampled_from(YEARS + [2022.0]), min_size=2, max_size=2, unique=True)))
    series = []
    for _ in range(2):
        ts = sorted(set(draw(st.lists(st.sampled_from([2018.0, 2020.0, 2022.0, 2024.0, 2030.0]), min_size=0, max_size=3, unique=True)) + [ys[0]]))
        series.append({"t": ts, "v": [0.0 if draw(st.integers(0, 5)) == 0 else scale * draw(unit) for _ in ts]})
    g = draw(st.one_of(st.sampled_from([0.0, 1.0, -1.0]), st.floats(min_value=-3.0, max_value=3.0, allow_nan=False)))
    return {"kind": "paired", "scale": scale, "progs": [a, b], "series": series, "years": ys, "g": [g * scale, draw(st.floats(min_value=-3.0, max_value=3.0, allow_nan=False)) * scale]}


def strategy(tier):
    return st.one_of(csb_cases(), csb_cases(), csb_cases(), csb_cases(), tsc_cases(), tsc_cases(), tsc_cases(), pkg_cases(), paired_cases(), tsc_cases(kind="e2e", nprog=len(E2E_NAMES)))


# --------------------------------------------------------------------------- reference model (own arithmetic)


def _pkg_model(a):
    init = [float(v) for v in a["initial"]]
    k = len(init)
    tot0 = float(np.array(init).sum())
    props = [1.0 / k] * k if tot0 == 0 else [v / tot0 for v in init]
    minp = [0.0] * k if a["min_props"] is None else [float(v) for v in a["min_props"]]
    maxp = [1.0] * k if a["max_props"] is None else [float(v) for v in a["max_props"]]
    mint = tot0 if a["min_total"] is None else _f(a["min_total"])
    maxt = tot0 if a["max_total"] is None else _f(a["max_total"])
    adjust_total = not (mint == tot0 and mint == maxt)
    return {"tot0": tot0, "props": props, "minp": minp, "maxp": maxp, "mint": mint, "maxt": maxt, "adjust_total": adjust_total, "fix": bool(a["fix_props"])}


def _model(case, with_constraint=True):
    """adjustables (in ASD order) and, per year in which spending is adjustable, the constrained entries with resolved bounds"""
    spend = case["spend"]
    adjustables = []  # dict(lo, hi, v0, kind)
    entries = {}  # year -> list of dict(key, progs, lo, hi, v0)
    nanbound = False
    for a in case["adj"]:
        if a["type"] == "plain":
            for j, t in enumerate(a["years"]):
                v0 = spend[a["prog"]] if a["initial"][j] is None else float(a["initial"][j])
                lo, hi = float(a["lower"][j]), _f(a["upper"][j])
                if a["limit"] == "rel":
                    with np.errstate(all="ignore"):
                        lo, hi = float(np.float64(v0) * lo), float(np.float64(v0) * hi)
                if math.isnan(lo) or math.isnan(hi):
                    nanbound = True
                adjustables.append({"lo": lo, "hi": hi, "v0": v0, "kind": "plain"})
                entries.setdefault(t, []).append({"key": NAMES[a["prog"]], "progs": [a["prog"]], "lo": lo, "hi": hi, "v0": v0, "kind": "plain"})
        elif a["type"] == "paired":
            adjustables.append({"lo": -INF, "hi": INF, "v0": 0.0, "kind": "ramp", "span": a["years"][1] - a["years"][0]})
            for t in a["years"]:
                for p in a["progs"]:
                    entries.setdefault(t, []).append({"key": NAMES[p], "progs": [p], "lo": 0.0, "hi": INF, "v0": spend[p], "kind": "paired"})
        else:
            pm = _pkg_model(a)
            if not pm["fix"]:
                for p, lo, hi in zip(pm["props"], pm["minp"], pm["maxp"]):
                    adjustables.append({"lo": lo, "hi": hi, "v0": p, "kind": "frac"})
            if pm["adjust_total"]:
                adjustables.append({"lo": pm["mint"], "hi": pm["maxt"], "v0": pm["tot0"], "kind": "pkgtotal"})
                entries.setdefault(a["year"], []).append({"key": a["name"], "progs": list(a["progs"]), "lo": pm["mint"], "hi": pm["maxt"], "v0": pm["tot0"], "kind": "package", "spec": a})
    out = {"adjustables": adjustables, "entries": entries, "nanbound": nanbound}
    if not with_constraint:
        return out
    con = case["con"]
    years = sorted(entries) if con["t"] is None else list(con["t"])
    out["missing_years"] = [t for t in years if t not in entries]
    totals = {}
    for t in years:
        if t not in entries:
            continue
        idx = None if con["t"] is None else con["t"].index(t)
        given = None if (con["total"] is None or idx is None) else con["total"][idx]
        base = math.fsum(e["v0"] for e in entries[t]) if given is None else float(given)
        bf = con["bf"][idx] if isinstance(con["bf"], list) else con["bf"]
        totals[t] = base * float(bf)
    out["totals"] = totals
    return out


# --------------------------------------------------------------------------- helpers for the checks


def _scale_label(v):
    if v <= 0:
        return "scale:0"
    return "scale:1e%d" % min(8, max(-3, int(math.floor(math.log10(v)))))


def _sum_bucket(err, total):
    """bucket for a total that is off by err (absolute): the documented-but-unused 1e-6 vs anything the closing assertion should have caught"""
    return LOOSE if err <= 1e-8 + 1.0001e-5 * abs(total) else "total-violated"


def _instructions(case, pg=None, names=NAMES):
    at, pg0 = _env()
    pg = pg0 if pg is None else pg
    spend = case["spend"]
    src = case["src"]
    for i, nm in enumerate(names):
        v = float(spend[i])
        pg.programs[nm].spend_data = at.TimeSeries(t=[2015.0], vals=[3.0 * v + 1.0 if src == "dict" else v])
    if src == "progset":
        return at.ProgramInstructions(start_year=case["start"], alloc=pg)
    if src == "dict":
        return at.ProgramInstructions(start_year=case["start"], alloc={nm: float(spend[i]) for i, nm in enumerate(names)})
    return at.ProgramInstructions(start_year=case["start"])


def _one(lst):
    return lst[0] if len(lst) == 1 else list(lst)


def _make_adjustment(at, a, names=NAMES):
    if a["type"] == "plain":
        init = None if all(v is None for v in a["initial"]) else _one(a["initial"])
        return at.SpendingAdjustment(names[a["prog"]], _one(a["years"]), a["limit"], _one([float(v) for v in a["lower"]]), _one([_f(v) for v in a["upper"]]), init)
    if a["type"] == "paired":
        return at.PairedLinearSpendingAdjustment([names[p] for p in a["progs"]], list(a["years"]))
    return at.SpendingPackageAdjustment(a["name"], a["year"], [names[p] for p in a["progs"]], initial_spends=[float(v) for v in a["initial"]], min_props=a["min_props"], max_props=a["max_props"], min_total_spend=a["min_total"], max_total_spend=_f(a["max_total"]), fix_props=a["fix_props"])


def _snapshot(inst):
    return {k: (list(ts.t), list(ts.vals)) for k, ts in inst.alloc.items()}


def _x_from(prop, m, scale, totals=None):
    """map a proposal (unit numbers) to adjustable values inside each adjustable's own limits"""
    adjs = m["adjustables"]
    span = max([scale] + [abs(v) for v in (totals or {}).values() if math.isfinite(v)]) * 2.0
    xs = []
    # after an adjustment was replaced the number of adjustables may differ from the number of drawn unit numbers: recycle them
    us = [prop["u"][i % len(prop["u"])] if prop["u"] else 0.5 for i in range(len(adjs))]
    prop = dict(prop, u=us)
    for a, u in zip(adjs, us):
        lo, hi, v0 = a["lo"], a["hi"], a["v0"]
        if a["kind"] == "ramp":
            base = {"initial": 0.0, "lower": -1.0, "upper": 1.0}.get(prop["mode"], 2.0 * u - 1.0)
            xs.append(base * scale / a["span"])
            continue
        if math.isnan(lo) or math.isnan(hi):
            lo, hi = (0.0 if math.isnan(lo) else lo), (INF if math.isnan(hi) else hi)
        top = hi if math.isfinite(hi) else max(lo, v0) + span
        if prop["mode"] == "initial":
            x = v0
        elif prop["mode"] == "lower":
            x = lo
        elif prop["mode"] == "upper":
            x = top
        elif prop["mode"] == "pkg-low" and a["kind"] == "pkgtotal":
            x = lo  # nothing (or the minimum) is proposed for every package; the constraint may still have to fund it
        else:
            x = lo + u * (top - lo)
        xs.append(min(max(x, lo), top))
    mode = prop["mode"]
    if mode == "zero-single":
        k = prop["k"] % max(1, len(xs))
        xs = [x if (i == k or adjs[i]["kind"] != "plain") else adjs[i]["lo"] for i, x in enumerate(xs)]
    if mode == "near" and totals:
        # plain adjustables of the first constrained year are water-filled to total*(1+eps) inside their limits
        t = sorted(totals)[0]
        idx, ptr = [], 0
        for a in m["_case_adj"]:
            if a["type"] == "plain":
                for yr in a["years"]:
                    if yr == t:
                        idx.append(ptr)
                    ptr += 1
            elif a["type"] == "paired":
                ptr += 1
            else:
                pm = _pkg_model(a)
                ptr += (0 if pm["fix"] else len(pm["props"])) + (1 if pm["adjust_total"] else 0)
        other = math.fsum(e["v0"] for e in m["entries"][t] if e["kind"] != "plain")
        target = (totals[t] - other) * (1.0 + prop["eps"])
        if idx and math.isfinite(target) and target > 0:
            lo = [adjs[i]["lo"] if not math.isnan(adjs[i]["lo"]) else 0.0 for i in idx]
            cap = [adjs[i]["hi"] if math.isfinite(adjs[i]["hi"]) else max(lo[j], adjs[i]["v0"]) + span for j, i in enumerate(idx)]
            y = _fill(lo, cap, target, [prop["u"][i] for i in idx])
            for i, v in zip(idx, y):
                xs[i] = v
    return xs


# --------------------------------------------------------------------------- kind csb


def _check_csb(case):
    at, _ = _env()
    from atomica.optimization import constrain_sum_bounded, FailedConstraint

    x = np.array([_f(v) for v in case["x"]], dtype=float)
    lb = np.array([_f(v) for v in case["lb"]], dtype=float)
    ub = np.array([_f(v) for v in case["ub"]], dtype=float)
    s = float(case["s"])
    n = len(x)
    slo, shi = math.fsum(lb), math.fsum(ub)
    feasible = slo <= s <= shi
    labels = ["kind:csb", "n:%d" % n, _scale_label(max(s, slo, float(x.max())))]
    labels += sorted(set(["lb:zero" if v == 0 else "lb:finite" for v in lb] + ["ub:inf" if v == INF else ("ub:equal-lb" if v == l else "ub:finite") for v, l in zip(ub, lb)]))
    if s == 0:
        labels.append("total:zero")
    nz = int(np.count_nonzero(x))
    if nz == 0:
        labels.append("proposal:all-zero")
    elif nz == 1 and n > 1:
        labels.append("proposal:single-nonzero")
    in_box = bool(np.all((x >= lb) & (x <= ub)))
    if s > 0:
        already = feasible and in_box and abs(math.fsum(x) - s) <= 1e-12 * s
        xs = x * (s / x.sum()) if x.sum() > 0 else x
        rescale_ok = feasible and x.sum() > 0 and bool(np.all((xs >= lb - 1e-12 * s) & (xs <= ub + 1e-12 * s)))
    else:
        already = feasible and in_box and nz == 0
        rescale_ok = already
    cls = "infeasible" if not feasible else ("already-feasible" if already else ("rescale-only" if rescale_ok else "projection-needed"))
    labels.append("class:" + cls)
    margin = min(s - slo, shi - s)
    if abs(margin) <= 1e-4 * max(s, 1e-300):
        labels.append("feasibility-margin<=1e-4")
    xin, lbin, ubin = x.copy(), lb.copy(), ub.copy()
    desc = "x=%r s=%r lb=%r ub=%r" % (x.tolist(), s, lb.tolist(), ub.tolist())
    try:
        y = constrain_sum_bounded(xin, s, lbin, ubin)
    except (FailedConstraint, AssertionError) as e:
        labels.append("signal:" + type(e).__name__)
        if feasible:
            labels.append("signalled-though-feasible" + ("(total=0)" if s == 0 else ""))
        return {"nontrivial": cls in ("infeasible", "projection-needed"), "labels": labels}
    except Exception as e:  # noqa
        if feasible and s > 0:
            raise Violation(ID, "csb/crash/" + type(e).__name__, "feasible problem ended in %r; %s" % (e, desc))
        labels.append("signal:other:" + type(e).__name__)
        return {"nontrivial": cls == "infeasible", "labels": labels}
    labels.append("returned")
    for nm, a, b in (("x", xin, x), ("lb", lbin, lb), ("ub", ubin, ub)):
        if not np.array_equal(a, b):
            raise Violation(ID, "csb/input-mutated/" + nm, "%s changed in place to %r; %s" % (nm, a.tolist(), desc))
    y = np.asarray(y, dtype=float)
    if y.shape != (n,) or not np.all(np.isfinite(y)):
        raise Violation(ID, "csb/garbage-returned", "returned %r; %s" % (y.tolist(), desc))
    err = abs(math.fsum(y) - s)
    if err > 1e-6 * s + (1e-9 if s == 0 else 0.0):
        raise Violation(ID, _sum_bucket(err, s), "constrain_sum_bounded silently returned %r with sum %r, required %r (relative error %.3g, class %s); %s" % (y.tolist(), math.fsum(y), s, err / s if s else INF, cls, desc))
    tolb = 1e-9 * max(1.0, s)
    worst = max(float(np.max(lb - y)), float(np.max(y - ub)))
    if worst > tolb:
        raise Violation(ID, "bound-violated", "constrain_sum_bounded silently returned %r outside the bounds by %.3g (class %s); %s" % (y.tolist(), worst, cls, desc))
    if already and float(np.max(np.abs(y - x))) > 1e-9 * max(s, float(np.max(np.abs(x))), 1e-300):
        raise Violation(ID, "feasible-proposal-changed", "proposal already satisfied the constraints but came back as %r; %s" % (y.tolist(), desc))
    if not feasible:
        labels.append("infeasible-within-tolerance-returned")
    return {"nontrivial": cls in ("infeasible", "projection-needed"), "labels": labels}


# --------------------------------------------------------------------------- kind tsc


def _use_spend(case, reuse):
    """default spending of a later use of the same objects"""
    if reuse["mode"] == "scale":
        return [float(reuse["factor"]) * v for v in case["spend"]]
    return [float(v) for v in reuse["spend"]]


def _check_tsc(case):
    at, pg = _env()

    labels = ["kind:tsc", "adjustments:%d" % len(case["adj"]), "alloc-from:" + case["src"]]
    types = sorted(set(a["type"] for a in case["adj"]))
    labels += ["has:" + t for t in types] + (["mix:" + "+".join(types)] if len(types) > 1 else [])
    if any(a["type"] == "plain" and a["limit"] == "rel" for a in case["adj"]):
        labels.append("bounds:relative")
    if any(a["type"] == "plain" and a["limit"] == "abs" for a in case["adj"]):
        labels.append("bounds:absolute")
    con = case["con"]
    bfs = con["bf"] if isinstance(con["bf"], list) else [con["bf"]]
    if any(b != 1.0 for b in bfs):
        labels.append("budget-factor!=1" + ("(per-year)" if isinstance(con["bf"], list) else ""))
    labels.append("total:explicit" if con["total"] is not None and any(v is not None for v in con["total"]) else "total:default-budget")
    labels.append("years:explicit" if con["t"] is not None else "years:all-adjusted")
    if con["t"] is not None and list(con["t"]) != sorted(con["t"]):
        labels.append("years:not-ascending" + ("+per-year-values" if isinstance(con["bf"], list) or con["total"] is not None else ""))

    # ---- construction: ONE set of adjustment / constraint / Optimization objects for every use below
    try:
        adjustments = [_make_adjustment(at, a) for a in case["adj"]]
    except AssertionError as e:
        if any(a["type"] == "package" for a in case["adj"]):
            return {"nontrivial": False, "labels": labels + ["package-constructor-rejected"]}
        raise Violation(ID, "tsc/constructor-rejected-valid-input", "%r; case %r" % (e, case))
    constraint = at.TotalSpendConstraint(total_spend=con["total"], t=con["t"], budget_factor=con["bf"])
    opt = at.Optimization("c14", adjustments=adjustments, measurables=[at.MinimizeMeasurable(NAMES[0], 2020)], constraints=constraint)

    # ---- uses: the first with the case's spending, later ones with scaled / different spending in the same objects,
    # each following optimize()'s own sequence get_initialization -> get_hard_constraints -> update -> constrain
    reuse = case.get("reuse", [])
    spends = [case["spend"]] + [_use_spend(case, r) for r in reuse]
    labels.append("uses:%d" % len(spends))
    nontrivial = False
    previous = None
    cur_adj = list(case["adj"])
    for ui, spend in enumerate(spends):
        if ui > 0 and reuse[ui - 1].get("replace"):
            # same-named NEW adjustment objects are put into optimization.adjustments (item assignment or a new list)
            new_objs = list(opt.adjustments)
            for i, spec in reuse[ui - 1]["replace"]:
                try:
                    new_objs[i] = _make_adjustment(at, spec)
                except AssertionError:
                    labels.append("replacement-constructor-rejected")
                    continue
                cur_adj[i] = spec
                labels.append("replaced:" + spec["type"])
                if not reuse[ui - 1].get("assign"):
                    opt.adjustments[i] = new_objs[i]
            if reuse[ui - 1].get("assign"):
                opt.adjustments = new_objs
        ucase = dict(case, spend=spend, adj=list(cur_adj))
        desc = "use %d of the same Optimization objects (default spending %r, earlier uses %r); case %r" % (ui + 1, spend, spends[:ui], case)
        nt, outcome = _tsc_use(ucase, opt, labels, desc)
        nontrivial = nontrivial or nt
        if ui > 0:
            labels.append("reuse-after:" + previous + "->" + outcome)
            if spend != spends[ui - 1] and any(a["type"] == "plain" and any(v is None for v in a["initial"]) for a in case["adj"]):
                nontrivial = nontrivial or outcome == "constrained"
        previous = outcome
    return {"nontrivial": nontrivial, "labels": labels}


def _tsc_use(case, opt, labels, desc):
    """one use of the (possibly already used) Optimization with the instructions / progset spending of `case`; returns (nontrivial, outcome)"""
    at, pg = _env()
    import sciris as sc
    from atomica.optimization import FailedConstraint, UnresolvableConstraint, InvalidInitialConditions

    m = _model(case)
    m["_case_adj"] = case["adj"]
    scale = case["scale"]
    labels.append("constrained-years:%d" % len(m["totals"]))
    if m["nanbound"]:
        labels.append("nan-bound(0*inf relative)")
    inst = _instructions(case)
    if m["missing_years"]:
        # an explicitly constrained year lost its last adjustment (replacement): documented to be rejected up-front
        try:
            x0 = opt.get_initialization(pg, inst)[0]
            opt.get_hard_constraints(x0, inst)
        except Exception:  # noqa
            labels.append("constraint-year-without-adjustment-rejected")
            return False, "rejected-year"
        raise Violation(ID, "tsc/constraint-year-without-adjustment-accepted", "years %r have no adjustment but no error was raised; %s" % (m["missing_years"], desc))

    # ---- initialisation: impossible from the outset -> InvalidInitialConditions
    exp_invalid = any((a["v0"] < a["lo"] or a["v0"] > a["hi"]) for a in m["adjustables"])
    try:
        x0, xmin, xmax = opt.get_initialization(pg, inst)
        got_invalid = False
    except InvalidInitialConditions:
        got_invalid = True
    if got_invalid != exp_invalid:
        raise Violation(ID, "tsc/invalid-initial-conditions-verdict", "InvalidInitialConditions raised=%s expected=%s adjustables=%r; %s" % (got_invalid, exp_invalid, m["adjustables"], desc))
    if got_invalid:
        labels.append("invalid-initial-conditions")
        return True, "invalid-initial"
    for i, a in enumerate(m["adjustables"]):
        for nm, got, exp in (("x0", x0[i], a["v0"]), ("xmin", xmin[i], a["lo"]), ("xmax", xmax[i], a["hi"])):
            if not (got == exp or (math.isnan(exp) and math.isnan(got)) or abs(got - exp) <= 1e-9 * max(1.0, abs(exp))):
                raise Violation(ID, "tsc/initialization-values", "adjustable %d %s=%r expected %r; %s" % (i, nm, got, exp, desc))

    # ---- hard constraints: UnresolvableConstraint exactly when some constrained year is infeasible
    exp_unres, borderline, anyzero = False, False, False
    for t, total in m["totals"].items():
        lo = math.fsum(e["lo"] for e in m["entries"][t])
        hi = math.fsum(e["hi"] for e in m["entries"][t])
        if total == 0:
            anyzero = True
        if lo > total or hi < total:
            exp_unres = True
        for edge in (lo, hi):
            if math.isfinite(edge) and max(abs(edge), abs(total)) > 0 and abs(edge - total) <= 1e-12 * max(abs(total), abs(edge)) and len(m["entries"][t]) > 1:
                borderline = True  # the sums are accumulated in another order by the code: equality can round either way
    try:
        hc = opt.get_hard_constraints(x0, inst)
        got_unres = False
    except UnresolvableConstraint:
        got_unres = True
    except (FailedConstraint, AssertionError) as e:
        # applying the initial values already failed (e.g. package proportions whose feasible set is a single point): reported before optimization starts
        labels.extend(["setup-signal:" + type(e).__name__, "signalled-though-feasible(setup)"])
        return exp_unres, "setup-signal"
    if borderline:
        labels.append("feasibility-borderline(rounding)")
    if got_unres != exp_unres and not borderline and not m["nanbound"]:
        raise Violation(ID, "tsc/unresolvable-verdict", "UnresolvableConstraint raised=%s expected=%s; totals=%r entries=%r; %s" % (got_unres, exp_unres, m["totals"], {t: [(e["key"], e["lo"], e["hi"]) for e in es] for t, es in m["entries"].items()}, desc))
    if got_unres:
        labels.append("unresolvable-reported")
        return True, "unresolvable"
    h = hc[0]
    got_years = sorted(float(t) for t in h["initial_total_spend"])
    if got_years != sorted(m["totals"]):
        raise Violation(ID, "tsc/constrained-years", "constrained years %r expected %r; %s" % (got_years, sorted(m["totals"]), desc))
    for t, total in m["totals"].items():
        got = float(np.ravel(h["initial_total_spend"][t])[0])
        if abs(got - total) > 1e-9 * max(1.0, abs(total)):
            raise Violation(ID, "tsc/required-total", "year %r: constraint total %r, expected %r (given/default budget times budget factor); %s" % (t, got, total, desc))
        keys = sorted(e["key"] for e in m["entries"][t])
        if sorted(h["programs"][t]) != keys:
            raise Violation(ID, "tsc/constrained-programs", "year %r: programs %r expected %r; %s" % (t, sorted(h["programs"][t]), keys, desc))
        for e in m["entries"][t]:
            glo, ghi = h["bounds"][t][e["key"]]
            for got, exp in ((glo, e["lo"]), (ghi, e["hi"])):
                if not (got == exp or (math.isnan(exp) and math.isnan(got)) or abs(got - exp) <= 1e-9 * max(1.0, abs(exp))):
                    raise Violation(ID, "tsc/resolved-bounds", "year %r %s: bounds %r expected %r; %s" % (t, e["key"], (glo, ghi), (e["lo"], e["hi"]), desc))
    if anyzero:
        labels.append("total:zero")

    # ---- proposals
    nontrivial = False
    nlab = len(labels)
    adjusted = set()
    for es in m["entries"].values():
        for e in es:
            adjusted.update(NAMES[p] for p in e["progs"])
    for prop in case["props"]:
        x = _x_from(prop, m, scale, m["totals"])
        i2 = sc.dcp(inst)
        try:
            opt.update_instructions(x, i2)
        except (FailedConstraint, AssertionError) as e:
            labels.append("update-signal:" + type(e).__name__)
            continue
        before = _snapshot(i2)
        # is the proposal already satisfying every constrained year?
        satisfied = True
        for t, total in m["totals"].items():
            tot_now = 0.0
            for e in m["entries"][t]:
                vals = [i2.alloc[NAMES[p]].get(t) for p in e["progs"]]
                if any(v is None for v in vals):
                    raise Violation(ID, "tsc/proposal-not-written", "year %r %s: no spending value after update_instructions(x=%r); %s" % (t, e["key"], x, desc))
                v = math.fsum(vals)
                tot_now += v
                if not (e["lo"] <= v <= e["hi"]):
                    satisfied = False
            if not abs(tot_now - total) <= 1e-12 * total:
                satisfied = False
        try:
            penalty = opt.constrain_instructions(i2, hc)
        except (FailedConstraint, AssertionError) as e:
            labels.append("signal:" + type(e).__name__ + ("(total=0)" if anyzero else "") + ("(nan-bound)" if m["nanbound"] else ""))
            if not anyzero and not m["nanbound"]:
                labels.append("signalled-though-feasible")
            continue
        except Exception as e:  # noqa
            if anyzero or m["nanbound"]:
                labels.append("signal:other:" + type(e).__name__)
                continue
            raise Violation(ID, "tsc/crash/" + type(e).__name__, "constrain_instructions ended in %r for x=%r; %s" % (e, x, desc))
        labels.append("constrained")
        try:
            pen = float(np.ravel(penalty)[0]) if np.size(penalty) == 1 else float("nan")
        except Exception:  # noqa
            pen = float("nan")
        if not (pen >= 0 and math.isfinite(pen)):
            raise Violation(ID, "tsc/penalty", "penalty %r is not a finite non-negative number for x=%r; %s" % (penalty, x, desc))
        after = _snapshot(i2)
        changed = False
        for t, total in m["totals"].items():
            tolb = 1e-9 * max(1.0, abs(total))
            tot_now = 0.0
            for e in m["entries"][t]:
                vals = [i2.alloc[NAMES[p]].get(t) for p in e["progs"]]
                if any(v is None or not math.isfinite(v) for v in vals):
                    raise Violation(ID, "tsc/garbage-allocation", "year %r %s: allocation %r after constraining x=%r; %s" % (t, e["key"], vals, x, desc))
                v = math.fsum(vals)
                tot_now += v
                lo = 0.0 if math.isnan(e["lo"]) else e["lo"]
                hi = INF if math.isnan(e["hi"]) else e["hi"]
                if v < lo - tolb or v > hi + tolb:
                    raise Violation(ID, "bound-violated", "year %r %s: constrained spend %r outside [%r,%r] for x=%r; %s" % (t, e["key"], v, lo, hi, x, desc))
                if e["kind"] == "package" and v > 0:
                    pm = _pkg_model(e["spec"])
                    if all(before[NAMES[p]][1][before[NAMES[p]][0].index(t)] == 0 for p in e["progs"]):
                        labels.append("package-funded-from-zero" + ("" if pm["fix"] else ("(limits-exclude-equal-split)" if any(mn > 1.0 / len(vals) + 1e-9 or mx < 1.0 / len(vals) - 1e-9 for mn, mx in zip(pm["minp"], pm["maxp"])) else "")))
                    for p, val, mn, mx in zip(e["progs"], vals, pm["minp"], pm["maxp"]):
                        if pm["fix"]:
                            continue
                        exc = max(mn - val / v, val / v - mx)
                        if exc > 1e-9:
                            raise Violation(ID, LOOSE if exc <= 1.2e-5 else "package-share-violated", "year %r package %s member %s share %r outside [%r,%r] after constraining x=%r; %s" % (t, e["key"], NAMES[p], val / v, mn, mx, x, desc))
            err = abs(tot_now - total)
            if err > 1e-6 * abs(total) + (1e-9 if total == 0 else 0.0):
                bucket = _sum_bucket(err, total)
                for e in m["entries"][t]:
                    if bucket != LOOSE and e["kind"] == "package" and all(before[NAMES[p]][1][before[NAMES[p]][0].index(t)] == 0 for p in e["progs"]):
                        bucket = "package-zero-spend-not-rescaled"  # set_total_spend cannot scale a package whose proposed spend is 0
                raise Violation(ID, bucket, "year %r: constrained allocation sums to %r, required total %r (relative error %.3g) for x=%r; %s" % (t, tot_now, total, err / total if total else INF, x, desc))
        # untouched: programs outside the constraint, and every year that is not constrained
        for nm in set(before) | set(after):
            bt, bv = before.get(nm, ([], []))
            at_, av = after.get(nm, ([], []))
            if bt != at_:
                raise Violation(ID, "tsc/untouched-spending-changed", "program %s time points %r -> %r; %s" % (nm, bt, at_, desc))
            for t, v0, v1 in zip(bt, bv, av):
                constrained_here = t in m["totals"] and nm in adjusted and any(nm in [NAMES[p] for p in e["progs"]] for e in m["entries"][t])
                if v0 != v1:
                    changed = True
                    if not constrained_here:
                        raise Violation(ID, "tsc/untouched-spending-changed", "program %s year %r is not part of the constraint but went %r -> %r for x=%r; %s" % (nm, t, v0, v1, x, desc))
                    if satisfied and abs(v1 - v0) > 1e-9 * max(abs(v0), abs(m["totals"][t])):
                        raise Violation(ID, "feasible-proposal-changed", "allocation already satisfied the constraint but program %s year %r went %r -> %r for x=%r; %s" % (nm, t, v0, v1, x, desc))
        labels.append("proposal:already-satisfied" if satisfied else ("proposal:projected" if changed else "proposal:unchanged"))
        if changed and not satisfied:
            nontrivial = True
    return nontrivial, ("constrained" if "constrained" in labels[nlab:] else "signalled")


# --------------------------------------------------------------------------- kind pkg


def _check_pkg(case):
    at, pg = _env()
    import sciris as sc
    from atomica.optimization import FailedConstraint

    a = case["adj"][0]
    pm = _pkg_model(a)
    k = len(a["progs"])
    labels = ["kind:pkg", "members:%d" % k, "alloc-from:" + case["src"], "pkg:fix-props" if pm["fix"] else "pkg:free-props", "pkg:adjust-total" if pm["adjust_total"] else "pkg:fixed-total"]
    if pm["tot0"] == 0:
        labels.append("pkg:zero-initial-spend")
    desc = "case %r" % (case,)
    try:
        adj = _make_adjustment(at, a)
    except AssertionError:
        return {"nontrivial": False, "labels": labels + ["package-constructor-rejected"]}
    m = _model(case, with_constraint=False)
    if len(adj.adjustables) != len(m["adjustables"]) or adj.adjust_total_spend != pm["adjust_total"]:
        raise Violation(ID, "pkg/adjustables", "adjustables %r expected %r; %s" % ([(q.name, q.lower_bound, q.upper_bound) for q in adj.adjustables], m["adjustables"], desc))
    inst = _instructions(case)
    nontrivial = False
    names = [NAMES[p] for p in a["progs"]]
    for prop in case["props"]:
        x = _x_from(prop, m, case["scale"])
        i2 = sc.dcp(inst)
        before = _snapshot(i2)
        try:
            adj.update_instructions(x, i2)
        except (FailedConstraint, AssertionError) as e:
            labels.append("signal:" + type(e).__name__)
            continue
        total = x[-1] if pm["adjust_total"] else pm["tot0"]
        vals = [i2.alloc[nm].get(a["year"]) for nm in names]
        if any(v is None or not math.isfinite(v) for v in vals):
            raise Violation(ID, "pkg/garbage-allocation", "member spends %r for x=%r; %s" % (vals, x, desc))
        if total < pm["mint"] - 1e-9 * max(1.0, total) or total > pm["maxt"] + 1e-9 * max(1.0, total):
            raise Violation(ID, "pkg/harness-total-outside-limits", "harness bug: x total %r outside [%r,%r]" % (total, pm["mint"], pm["maxt"]))
        got = math.fsum(vals)
        err = abs(got - total)
        if err > 1e-6 * abs(total):
            bucket = _sum_bucket(err, total)
            raise Violation(ID, bucket if bucket == LOOSE else "package-total-violated", "package members sum to %r but the package total is %r (relative error %.3g; limits [%r,%r]) for x=%r; %s" % (got, total, err / total if total else INF, pm["mint"], pm["maxt"], x, desc))
        if total > 0:
            for nm, v, mn, mx, p0 in zip(names, vals, pm["minp"], pm["maxp"], pm["props"]):
                share = v / total
                if share < mn - 1e-9 or share > mx + 1e-9:
                    raise Violation(ID, "package-share-violated", "member %s share %r outside [%r,%r] for x=%r; %s" % (nm, share, mn, mx, x, desc))
                if pm["fix"] and abs(share - p0) > 1e-6:
                    raise Violation(ID, "package-fixed-proportion-changed", "member %s share %r but the fixed initial proportion is %r for x=%r; %s" % (nm, share, p0, x, desc))
        after = _snapshot(i2)
        for nm in set(before) | set(after):
            if nm in names:
                continue
            if before.get(nm) != after.get(nm):
                raise Violation(ID, "pkg/other-program-changed", "program %s is not in the package but went %r -> %r; %s" % (nm, before.get(nm), after.get(nm), desc))
        if not pm["fix"]:
            fr = x[:k]
            if abs(math.fsum(fr) - 1.0) > 1e-9:
                nontrivial = True
                labels.append("fractions-rescaled")
        labels.append("updated")
    return {"nontrivial": nontrivial, "labels": labels}


# --------------------------------------------------------------------------- kind paired


def _check_paired(case):
    at, pg = _env()

    a, b = [NAMES[p] for p in case["progs"]]
    t0, t1 = case["years"]
    labels = ["kind:paired"]
    desc = "case %r" % (case,)
    nontrivial = False
    for g in case["g"]:
        inst = at.ProgramInstructions(start_year=2018.0)
        for nm, sr in zip((a, b), case["series"]):
            inst.alloc[nm] = at.TimeSeries(t=list(sr["t"]), vals=[float(v) for v in sr["v"]])
        other = [nm for nm in NAMES if nm not in (a, b)][0]
        inst.alloc[other] = at.TimeSeries(t=[2018.0], vals=[7.0])
        before = _snapshot(inst)
        start = {nm: float(inst.alloc[nm].interpolate(t0)[0]) for nm in (a, b)}
        adj = at.PairedLinearSpendingAdjustment([a, b], [t0, t1])
        adj.update_instructions([float(g)], inst)
        after = _snapshot(inst)
        s0 = start[a] + start[b]
        tol = 1e-9 * max(1.0, s0)
        va0, vb0, va1, vb1 = inst.alloc[a].get(t0), inst.alloc[b].get(t0), inst.alloc[a].get(t1), inst.alloc[b].get(t1)
        if any(v is None or not math.isfinite(v) for v in (va0, vb0, va1, vb1)):
            raise Violation(ID, "paired/garbage-allocation", "values %r for gradient %r; %s" % ((va0, vb0, va1, vb1), g, desc))
        if abs(va0 - start[a]) > tol or abs(vb0 - start[b]) > tol:
            raise Violation(ID, "paired/first-year-changed", "spending in the first year went %r -> %r for gradient %r; %s" % ((start[a], start[b]), (va0, vb0), g, desc))
        if abs((va1 + vb1) - s0) > tol:
            raise Violation(ID, "paired-sum-not-conserved", "pair sum %r at the start but %r at the end for gradient %r; %s" % (s0, va1 + vb1, g, desc))
        if va1 < -tol or vb1 < -tol:
            raise Violation(ID, "bound-violated", "paired transfer made spending negative: %r for gradient %r; %s" % ((va1, vb1), g, desc))
        exp_change = min(max(g * (t1 - t0), -start[b]), start[a])
        if abs((start[a] - va1) - exp_change) > tol:
            raise Violation(ID, "paired/transfer-amount", "transferred %r expected %r (gradient %r capped by available funds); %s" % (start[a] - va1, exp_change, g, desc))
        for nm in set(before) | set(after):
            bt, bv = before[nm]
            at_, av = after[nm]
            if nm not in (a, b):
                if (bt, bv) != (at_, av):
                    raise Violation(ID, "paired/other-program-changed", "program %s went %r -> %r; %s" % (nm, before[nm], after[nm], desc))
                continue
            for t, v in zip(bt, bv):
                if (t < t0 or t > t1) and (t not in at_ or av[at_.index(t)] != v):
                    raise Violation(ID, "paired/outside-ramp-changed", "program %s year %r outside the ramp changed; %r -> %r; %s" % (nm, t, before[nm], after[nm], desc))
            if any(t0 < t < t1 for t in at_):
                raise Violation(ID, "paired/points-left-inside-ramp", "program %s still has points inside the ramp: %r; %s" % (nm, after[nm], desc))
        if exp_change != 0:
            nontrivial = True
        labels.append("transfer:capped" if exp_change != g * (t1 - t0) else ("transfer:none" if exp_change == 0 else "transfer:free"))
    return {"nontrivial": nontrivial, "labels": labels}


def _env_e2e():
    if "e2e" not in _CACHE:
        at, _ = _env()
        P = at.Project(framework=at.LIBRARY_PATH / "udt_framework.xlsx", databook=at.LIBRARY_PATH / "udt_databook.xlsx", do_run=False)
        P.load_progbook(at.LIBRARY_PATH / "udt_progbook.xlsx")
        P.settings.update_time_vector(start=2018.0, end=2026.0, dt=0.25)
        assert list(P.progsets[0].programs.keys()) == E2E_NAMES
        _CACHE["e2e"] = P
    return _CACHE["e2e"]


def _check_e2e(case):
    """the allocation RETURNED by at.optimize() (tiny iteration budgets, often x_opt == x0) meets the constraint, or the call raises"""
    at, _ = _env()
    from atomica.optimization import FailedConstraint, UnresolvableConstraint, InvalidInitialConditions

    P = _env_e2e()
    names = E2E_NAMES
    pg = P.progsets[0]
    m = _model(case)
    con = case["con"]
    labels = ["kind:e2e", "adjustments:%d" % len(case["adj"]), "alloc-from:" + case["src"], "objective:" + case["meas"], "maxiters:%d" % case["maxiters"], "constrained-years:%d" % len(m["totals"])]
    types = sorted(set(a["type"] for a in case["adj"]))
    labels += ["has:" + t for t in types]
    bfs = con["bf"] if isinstance(con["bf"], list) else [con["bf"]]
    if any(b != 1.0 for b in bfs):
        labels.append("budget-factor!=1")
    if con["total"] is not None and any(v is not None for v in con["total"]):
        labels.append("total:explicit")
    if any(a["type"] == "plain" and any(v is not None for v in a["initial"]) for a in case["adj"]):
        labels.append("initial:explicit")
    desc = "case %r" % (case,)
    try:
        adjustments = [_make_adjustment(at, a, names) for a in case["adj"]]
    except AssertionError:
        return {"nontrivial": False, "labels": labels + ["package-constructor-rejected"]}
    first = min([min(a["years"]) if "years" in a else a["year"] for a in case["adj"]])
    firstprog = names[(case["adj"][0].get("progs") or [case["adj"][0].get("prog")])[0]]
    if case["meas"] == "flat":
        meas = at.MaximizeCascadeStage(None, first)  # measured in the year the spending first changes: nothing can react yet
    elif case["meas"] == "spend":
        meas = at.MinimizeMeasurable(firstprog, [2020.0, 2026.0])
    else:
        meas = at.MaximizeCascadeStage(None, [2020.0, 2026.0])
    constraint = at.TotalSpendConstraint(total_spend=con["total"], t=con["t"], budget_factor=con["bf"])
    opt = at.Optimization("c14", adjustments=adjustments, measurables=meas, constraints=constraint, maxiters=case["maxiters"])
    inst = _instructions(case, pg, names)
    given = _snapshot(inst)
    if not m["adjustables"]:
        return {"nontrivial": False, "labels": labels + ["nothing-adjustable"]}  # ASD refuses an empty vector: nothing to optimize

    exp_invalid = any((a["v0"] < a["lo"] or a["v0"] > a["hi"]) for a in m["adjustables"])
    exp_unres, borderline, anyzero = False, False, False
    for t, total in m["totals"].items():
        lo = math.fsum(e["lo"] for e in m["entries"][t])
        hi = math.fsum(e["hi"] for e in m["entries"][t])
        anyzero = anyzero or total == 0
        exp_unres = exp_unres or lo > total or hi < total
        for edge in (lo, hi):
            if math.isfinite(edge) and max(abs(edge), abs(total)) > 0 and abs(edge - total) <= 1e-12 * max(abs(total), abs(edge)) and len(m["entries"][t]) > 1:
                borderline = True
    try:
        out = at.optimize(P, opt, parset=P.parsets[0], progset=pg, instructions=inst, optim_args={"randseed": case["randseed"]})
    except (InvalidInitialConditions, UnresolvableConstraint, FailedConstraint, AssertionError) as e:
        labels.append("rejected:" + type(e).__name__ + ("(total=0)" if anyzero else "") + ("(nan-bound)" if m["nanbound"] else ""))
        if isinstance(e, (InvalidInitialConditions, UnresolvableConstraint)) and not (exp_invalid or exp_unres or borderline or m["nanbound"] or anyzero):
            labels.append("rejected-though-feasible")  # e.g. a non-finite objective at the initial point
        return {"nontrivial": exp_invalid or exp_unres, "labels": labels}
    except Exception as e:  # noqa
        if anyzero or m["nanbound"] or exp_invalid or exp_unres:
            return {"nontrivial": True, "labels": labels + ["rejected:other:" + type(e).__name__]}
        raise Violation(ID, "e2e/crash/" + type(e).__name__, "at.optimize ended in %r; %s" % (e, desc))
    if (exp_invalid or exp_unres) and not borderline and not m["nanbound"]:
        raise Violation(ID, "e2e/impossible-constraint-not-reported", "InvalidInitialConditions expected=%s UnresolvableConstraint expected=%s but at.optimize returned; totals %r; %s" % (exp_invalid, exp_unres, m["totals"], desc))
    labels.append("returned")
    changed = False
    adjusted = set(names[p] for a in case["adj"] for p in (a["progs"] if "progs" in a else [a["prog"]]))
    for t, total in m["totals"].items():
        tolb = 1e-9 * max(1.0, abs(total))
        tot_now = 0.0
        for e in m["entries"][t]:
            vals = [out.alloc[names[p]].get(t) if names[p] in out.alloc else None for p in e["progs"]]
            if any(v is None or not math.isfinite(v) for v in vals):
                raise Violation(ID, "e2e/garbage-allocation", "year %r %s: returned allocation %r; %s" % (t, e["key"], vals, desc))
            v = math.fsum(vals)
            tot_now += v
            lo = 0.0 if math.isnan(e["lo"]) else e["lo"]
            hi = INF if math.isnan(e["hi"]) else e["hi"]
            if v < lo - tolb or v > hi + tolb:
                raise Violation(ID, "bound-violated", "at.optimize returned, year %r %s: spend %r outside [%r,%r]; %s" % (t, e["key"], v, lo, hi, desc))
            if e["kind"] == "package" and v > 0:
                pm = _pkg_model(e["spec"])
                for p, val, mn, mx in zip(e["progs"], vals, pm["minp"], pm["maxp"]):
                    exc = max(mn - val / v, val / v - mx)
                    if not pm["fix"] and exc > 1e-9:
                        raise Violation(ID, LOOSE if exc <= 1.2e-5 else "package-share-violated", "at.optimize returned, year %r package %s member %s share %r outside [%r,%r]; %s" % (t, e["key"], names[p], val / v, mn, mx, desc))
        err = abs(tot_now - total)
        if err > 1e-6 * abs(total) + (1e-9 if total == 0 else 0.0):
            raise Violation(ID, _sum_bucket(err, total), "at.optimize returned an allocation that sums to %r in %r, required total %r (relative error %.3g); %s" % (tot_now, t, total, err / total if total else INF, desc))
        if abs(math.fsum(e["v0"] for e in m["entries"][t]) - total) > 1e-9 * max(1.0, abs(total)):
            changed = True  # the constraint has to move the initial allocation (budget factor, explicit total)
    for nm, (ts, vs) in given.items():
        if nm not in adjusted and nm in out.alloc and (list(out.alloc[nm].t), list(out.alloc[nm].vals)) != (ts, vs):
            raise Violation(ID, "e2e/untouched-spending-changed", "program %s is not adjusted but its allocation went %r -> %r; %s" % (nm, (ts, vs), (out.alloc[nm].t, out.alloc[nm].vals), desc))
    if _snapshot(inst) != given:
        raise Violation(ID, "e2e/input-instructions-mutated", "the caller's instructions were changed in place: %r -> %r; %s" % (given, _snapshot(inst), desc))
    if changed:
        labels.append("constraint-moves-initial-allocation")
    return {"nontrivial": changed, "labels": labels}


def check(case):
    kind = case["kind"]
    with np.errstate(all="ignore"):
        if kind == "csb":
            return _check_csb(case)
        if kind == "e2e":
            return _check_e2e(case)
        if kind == "tsc":
            return _check_tsc(case)
        if kind == "pkg":
            return _check_pkg(case)
        return _check_paired(case)
