"""C08 - simulation is deterministic, leaves its inputs untouched, and survives copying."""
import io
import os
import sys
import json
import pickle
import subprocess
import tempfile
import numpy as np
from hypothesis import strategies as st
from vlib import gen_model, simcase, build, canon
from vlib.runner import Violation, Discard, HarnessError, VERIF

ID = "C08"
RULE = (
    "cases = operation sequences (drawn as plain data, interpreted step by step) over a pool of 2-3 generated projects with and without programs, derivative parameters, parameter scenarios and explicit partial initializations: run(i), rerun(i), a REFUSED run of an impossible variant (module-level settings must be unchanged after every operation), run without "
    "programs, build-model + deepcopy + process both, build-model + pickle round trip + process, Result save/load, runs of other projects in between; a sample of cases also runs the "
    "spec in fresh processes with different PYTHONHASHSEED values; oracle: the digest of all output arrays of project i never changes (bitwise), the canonical structural form of parset, "
    "progset, instructions, framework, data and settings is identical before and after every call, copies give the original's digest; non-trivial = >= 2 distinct projects, a rerun "
    "after an intervening run of another project, and at least one copy operation; distinct = case hash"
)
ASSUMPTIONS = [
    "'any interleaving' and 'fresh process' are sampled, not enumerated; frameworks whose functions call rand/randn are not generated",
    "declared metadata (uid, created, modified, version, gitinfo) is excluded from the structural comparison",
]
BUDGET = {"quick": 400, "thorough": 1200}  # thorough = 3x quick: a depth that was run to completion, quiet, at seed 1 (deterministic given the seed)
TIME_CAP = {"quick": 75, "thorough": 1500}
PROFILE = {"p_deriv": 0.2, "p_agg_transition": 0.1, "p_programs": 0.6, "max_steps": 10, "min_steps": 3, "extreme": 0.05, "p_function": 0.4, "p_timed": 0.4, "p_junction": 0.4, "p_output_pars": 0.5, "max_pops": 2, "p_interaction": 0.4}
OPS = ["run", "run", "rerun", "run_noprog", "deepcopy", "pickle", "saveload", "saveload", "runsim_api", "report", "rejected_run", "scenario"]


@st.composite
def cases(draw, prof, p_fresh):
    from props import c06

    n = draw(st.integers(2, 3))
    fresh = draw(st.integers(1, 1000)) <= int(p_fresh * 1000)
    # the project that is re-run in fresh processes (other hash seeds) is drawn wide: several populations, transfers from several
    # sources into one destination, interactions - anything whose order could come from a set or dict keyed by strings
    wide = dict(prof, max_pops=4, p_transfer=0.9, p_interaction=0.7)
    projs = [draw(c06.cases(wide if (fresh and k == 0) else prof)) for k in range(n)]  # {"spec": ModelSpec, "scen": parameter scenario or None}
    specs = [pr["spec"] for pr in projs]
    scens = [pr["scen"] for pr in projs]
    # some projects carry an explicit, partial initialization (values for only some compartments; the rest start empty)
    partial = [draw(st.sampled_from([None, None, 0.3, 0.7])) for _ in range(n)]
    ops = draw(st.lists(st.tuples(st.sampled_from(OPS), st.integers(0, n - 1)), min_size=3, max_size=8))
    return {"specs": specs, "scens": scens, "partial_init": partial, "ops": [list(o) for o in ops], "fresh": fresh}


def strategy(tier):
    prof = dict(PROFILE)
    if tier == "thorough":
        prof.update(max_steps=30, max_pops=3)
    return cases(prof, 0.10 if tier == "quick" else 0.2)


def inputs_canon(b):
    return {
        "parset": canon.canon(b["ps"]),
        "progset": canon.canon(b["progset"]),
        "instructions": canon.canon(b["instructions"]),
        "framework": canon.canon(b["F"]),
        "data": canon.canon(b["D"]),
        "settings": canon.canon(b["P"].settings),
    }


def build_project(spec, scen=None, frac=None):
    """ModelSpec (+ optional parameter scenario, + optional partial explicit initialization) -> built inputs"""
    import atomica as at

    b = build.build_all(spec)
    if scen:
        sv = {}
        for name, bypop in scen["values"].items():
            sv[name] = {(tuple(key.split(">")) if ">" in key else key): {"t": list(ov["t"]), "y": list(ov["y"])} for key, ov in bypop.items()}
        b["ps"] = at.ParameterScenario(name="scen", scenario_values=sv, interpolation=scen["interp"]).get_parset(b["ps"], b["P"])
    if frac is not None:
        res0, _ = simcase.two_step(b["P"], b["ps"], None, None)
        init = at.parameters.Initialization.from_result(res0, parset=None, year=float(res0.t[0]))
        keys = sorted(init.values, key=repr)
        keep = keys[: max(1, int(len(keys) * frac))]
        b["ps"].initialization = at.parameters.Initialization(values={kk: init.values[kk] for kk in keep}, year=init.year, dt=init.dt)
    return b


def check(case):
    import atomica as at
    import sciris as sc

    simcase.quiet()
    pool = []
    for k, spec in enumerate(case["specs"]):
        scen = (case.get("scens") or [None] * len(case["specs"]))[k]
        frac = (case.get("partial_init") or [None] * len(case["specs"]))[k]
        try:
            b = build_project(spec, scen, frac)
        except HarnessError:
            raise
        except Exception as e:
            raise Discard("atomica raised %s at %s while building (decided by C18)" % (type(e).__name__, simcase.atomica_frame(e)))
        pool.append({"b": b, "ref": None, "ref_noprog": None, "before": inputs_canon(b)})
    labels = set()
    if any(case.get("scens") or []):
        labels.add("project-with-parameter-scenario")
    if any(x is not None for x in (case.get("partial_init") or [])):
        labels.add("project-with-partial-initialization")
    last_other = {}
    rerun_after_other = False
    copies = 0

    def verify_inputs(i, what):
        now = inputs_canon(pool[i]["b"])
        for k, v in now.items():
            if v != pool[i]["before"][k]:
                d = canon.diff(pool[i]["before"][k], v)
                raise Violation(ID, "input-modified/%s/%s" % (k, what), "%s of project %d changed during '%s': %r" % (k, i, what, d[:3]))
        # also: other projects' inputs untouched (no hidden global state)
        for j, pj in enumerate(pool):
            if j != i:
                nowj = inputs_canon(pj["b"])
                for k, v in nowj.items():
                    if v != pj["before"][k]:
                        raise Violation(ID, "other-project-modified/%s" % k, "%s of project %d changed while operating on project %d ('%s')" % (k, j, i, what))

    def globals_snapshot():
        import atomica.model as am
        import atomica.system as asys

        out = {"model_settings": repr(sorted(am.model_settings.items()))}
        for nm in ("default_interpolation_method", "tolerance"):
            if hasattr(asys, nm):
                out[nm] = repr(getattr(asys, nm))
        fs = asys.FrameworkSettings
        out["FS"] = repr(sorted((k, v) for k, v in vars(fs).items() if k.isupper() and isinstance(v, (str, int, float, list, tuple, set, frozenset))))
        return out

    globals0 = globals_snapshot()

    def expect(i, dig, what, noprog=False):
        key = "ref_noprog" if noprog else "ref"
        if pool[i][key] is None:
            pool[i][key] = dig
        elif pool[i][key] != dig:
            raise Violation(ID, "nondeterministic/%s" % what, "project %d: '%s' produced outputs that differ from the first run of the same inputs (ops so far %r)" % (i, what, done))

    done = []
    for op, i in case["ops"]:
        b = pool[i]["b"]
        P, ps, pg, ins = b["P"], b["ps"], b["progset"], b["instructions"]
        try:
            if op in ("run", "rerun"):
                res, _ = simcase.two_step(P, ps, pg, ins)
                expect(i, canon.result_digest(res), op)
            elif op == "runsim_api":
                res = P.run_sim(ps, pg, ins, result_name="api")
                expect(i, canon.result_digest(res), op)
            elif op == "run_noprog":
                res, _ = simcase.two_step(P, ps, None, None)
                expect(i, canon.result_digest(res), op, noprog=(pg is not None and ins is not None))
            elif op == "deepcopy":
                m = at.Model(P.settings, P.framework, ps, pg, ins)
                m2 = sc.dcp(m)
                m.process()
                m2.process()
                expect(i, canon.result_digest(at.Result(model=m, parset=ps, name="a")), "deepcopy/original")
                expect(i, canon.result_digest(at.Result(model=m2, parset=ps, name="b")), "deepcopy/copy")
                copies += 1
            elif op == "pickle":
                m = at.Model(P.settings, P.framework, ps, pg, ins)
                m2 = pickle.loads(pickle.dumps(m))
                m2.process()
                expect(i, canon.result_digest(at.Result(model=m2, parset=ps, name="p")), "pickle/copy")
                m.process()
                expect(i, canon.result_digest(at.Result(model=m, parset=ps, name="o")), "pickle/original")
                copies += 1
            elif op == "report":
                # reporting on a finished result (programs: spending / coverage quantities; always: raw export) must not change it
                res, _ = simcase.two_step(P, ps, pg, ins)
                before = canon.result_digest(res)
                if pg is not None and ins is not None:
                    for quantity in ("eligible", "fraction", "number", "capacity"):
                        res.get_coverage(quantity)
                    res.get_alloc()
                res.export_raw()
                after = canon.result_digest(res)
                if after != before:
                    raise Violation(ID, "result-modified-by-reporting", "project %d: get_coverage / get_alloc / export_raw changed the arrays stored in the result" % i)
                expect(i, after, "report")
            elif op == "rejected_run":
                # a run that atomica refuses (a copy of the parameter set with an impossible, large initial state): routine in calibration
                # and sampled runs.  It must leave no trace: the library's module-level settings are compared, and the operations that
                # follow re-check every project's outputs
                ps2 = sc.dcp(ps)
                dbc = [c["name"] for c in case["specs"][i]["comps"] if c.get("db") and c["kind"] == "ord" and c["name"] in ps2.pars]
                if dbc:
                    for k_, name in enumerate(dbc[:2]):
                        for ts in ps2.pars[name].ts.values():
                            v_ = -5.0 if k_ == 0 else 3e9
                            if ts.vals:
                                ts.vals = [v_ for _ in ts.vals]
                            else:
                                ts.assumption = v_
                    try:
                        simcase.two_step(P, ps2, pg, ins)
                        labels.add("rejected_run:accepted")
                    except at.BadInitialization:
                        labels.add("rejected_run:refused")
                    except Exception:
                        labels.add("rejected_run:other-error")
            elif op == "saveload":
                res, _ = simcase.two_step(P, ps, pg, ins)
                rep0 = canon.report_digest(res)  # what the result reports BEFORE any copy of it is made
                how = len(done) % 3
                res2 = [lambda: sc.loadstr(sc.dumpstr(res)), lambda: sc.dcp(res), lambda: pickle.loads(pickle.dumps(res))][how]()
                expect(i, canon.result_digest(res), "saveload/original")
                expect(i, canon.result_digest(res2), "saveload/loaded")
                for which, r_ in (("copy", res2), ("original-after-copy", res)):
                    if canon.report_digest(r_) != rep0:
                        raise Violation(ID, "copy-changes-reports/%s" % which, "project %d: after a %s of the finished result, the %s reports something else than the result did before (used_programs / raw export / spending and coverage / flows looked up by name)" % (i, ["save+load", "deep copy", "pickle round trip"][how], which))
                copies += 1
            elif op == "scenario":
                # a parameter scenario built FROM the project's parameter set (overwriting a parameter, a transfer or an interaction) and
                # run: the parameter set that was passed in must be left as it was (checked below) and later runs must not change
                spec_i = case["specs"][i]
                cands = [("par", p_["name"]) for p_ in spec_i["pars"] if p_.get("db") and not p_.get("timed")]
                cands += [("tr", tr["name"], k_) for tr in spec_i["data"]["tr"] for k_ in tr["e"]]
                cands += [("iw", w, k_) for w, e_ in (spec_i["data"].get("iw") or {}).items() for k_ in e_]
                if cands:
                    tgt = cands[(len(done) * 7 + i) % len(cands)]
                    y0 = spec_i["settings"]["start"] + spec_i["settings"]["dt"]
                    if tgt[0] == "par":
                        first_pop = spec_i["pops"][0] if isinstance(spec_i["pops"][0], str) else spec_i["pops"][0]["name"]
                        sv = {tgt[1]: {first_pop: {"t": [y0], "y": [0.5]}}}
                    else:
                        sv = {tgt[1]: {tuple(tgt[2].split(">")): {"t": [y0], "y": [0.5]}}}
                    try:
                        ps_s = at.ParameterScenario(name="s", scenario_values=sv).get_parset(ps, P)
                        simcase.two_step(P, ps_s, pg, ins)
                        labels.add("scenario-on:" + tgt[0])
                    except Violation:
                        raise
                    except Exception:
                        labels.add("scenario:not-applicable")
        except Violation:
            raise
        except Exception as e:
            if pool[i]["ref"] is None and pool[i]["ref_noprog"] is None:
                raise Discard("atomica raised %s at %s on the first operation on a project (decided by C18)" % (type(e).__name__, simcase.atomica_frame(e)))
            raise Violation(ID, "fails-on-repeat/%s/%s" % (op, type(e).__name__), "project %d: '%s' raised %s (%s) although an earlier run of the same inputs succeeded" % (i, op, type(e).__name__, str(e)[:200]))
        verify_inputs(i, op)
        if globals_snapshot() != globals0:
            raise Violation(ID, "global-state-modified/%s" % op, "module-level settings of the library changed during '%s' on project %d: %r -> %r" % (op, i, globals0, globals_snapshot()))
        done.append([op, i])
        labels.add("op:" + op)
        for j in last_other:
            pass
        if i in last_other and last_other[i]:
            rerun_after_other = True
        for j in range(len(pool)):
            if j != i and pool[j]["ref"] is not None:
                last_other[j] = True
        last_other[i] = False
    if case.get("fresh"):
        labels.add("fresh-process")
        spec = case["specs"][0]
        ref = pool[0]["ref"]
        if ref is None:
            # project 0 was not run (with its programs) by the drawn operations: run it now so that the fresh processes have a reference
            try:
                b0 = pool[0]["b"]
                res0, _ = simcase.two_step(b0["P"], b0["ps"], b0["progset"], b0["instructions"])
                ref = canon.result_digest(res0)
            except Exception:
                ref = None
        if ref is not None:
            scratch = os.environ.get("VERIF_SCRATCH") or tempfile.gettempdir()
            fn = os.path.join(scratch, "c08_%d.json" % os.getpid())
            with open(fn, "w") as f:
                json.dump({"spec": spec, "scen": (case.get("scens") or [None])[0], "partial": (case.get("partial_init") or [None])[0]}, f)
            try:
                for hs in ("1", "987"):
                    env = dict(os.environ, PYTHONHASHSEED=hs)
                    r = subprocess.run([sys.executable, "-m", "vlib.digest_cli", fn], cwd=VERIF, env=env, capture_output=True, text=True, timeout=600)
                    dig = [l.split()[1] for l in r.stdout.splitlines() if l.startswith("DIGEST ")]
                    if not dig:
                        raise HarnessError("digest subprocess failed: %s" % r.stderr[-500:])
                    if dig[0] != ref:
                        raise Violation(ID, "nondeterministic/fresh-process", "a fresh process with PYTHONHASHSEED=%s produced different outputs for the same inputs" % hs)
            finally:
                os.remove(fn)
    used = {i for _, i in case["ops"]}
    nontrivial = len(used) >= 2 and rerun_after_other and copies >= 1
    return {"nontrivial": nontrivial, "labels": sorted(labels)}
