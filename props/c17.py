"""C17 - sampled runs are independent draws, serial or parallel, and do not alter their sources.

Every case materialises one (project, parameter set [sometimes with a saved initialization], optional program set + instructions)
with drawn uncertainties and
  1a. samples the sources directly (ParameterSet.sample / ProgramSet.sample; twice in a row after one seeding and once after another):
      must not raise, must return new objects, must leave the sources canon-unchanged; PER QUANTITY the sampled value of every input
      with sigma > 0 (parameters, initial sizes, transfers, interactions, spend, unit cost, capacity, saturation, coverage, outcomes,
      interaction outcomes; best estimates incl. exactly 0 as constant / in a year column, exactly 1, sigma > |value|) differs from
      the entered value and between the samples, and every input with sigma 0/None keeps its value;
  1b. runs the model on directly sampled sets (with all sigmas 0/None: equal to the unsampled run);
  2.  calls every entry point twice in a row (first call after np.random.seed(drawn), second call not reseeded):
      Project.run_sampled_sims serial (always, + reproducibility from the seed), Ensemble.run_sims serial and CascadeEnsemble.run_sims
      serial (whenever PlotData / the cascade can be made from the unsampled run), and Project.run_sampled_sims parallel with a drawn
      number of workers or Ensemble.run_sims parallel; checks
       - the fingerprints of the samples of one call are pairwise distinct, none equals the unsampled run, and the second call shares
         no sample with the first, whenever a perturbed input is visible one-to-one in the fingerprint,
       - no uncertainty (all sigma 0/None): every sample equals the unsampled run bit for bit,
       - sources canon-unchanged by the call (incl. a saved initialization), right number/shape of results.

Fingerprint of a sample = digest of all result arrays (compartments, characteristics, parameters, links) + digest of the program
inputs kept by the run (Model.progset is a copy of the sampled program set).  A perturbed input is visible one-to-one if it is a
data parameter without function, limits, program overwrite or zero calibration factor (its own stored values are value+delta), an
initial stock, or any program-set input.  Otherwise two different draws may legitimately collapse onto one result (limits, inactive
programs) and distinctness of the RESULTS is not required (the per-quantity check 1a still applies).
"""
import os
import functools
import numpy as np
from hypothesis import strategies as st
from vlib import gen_model, simcase, canon, c17_helpers as H
from vlib.runner import Violation, Discard

ID = "C17"
RULE = (
    "cases = (source: generated ModelSpec [<=2 populations, optional programs incl. explicit interaction outcomes] / hand-written 2-population 2-program spec / library "
    "projects udt, tb_simple; uncertainty class none|zero|parset|progset|both with sigmas drawn as 0.1-5% of the value (program outcomes: 0.001-0.03 absolute), or class init = sigma on "
    "initial stocks (compartment / characteristic databook entries) sized so that 20-60% of the draws are rejected with BadInitialization and resampled (rejections measured by a serial "
    "replay and reported as labels rejected-draws / rejection-rate); in ~30% of the cases the source parameter set carries a saved initialization (set_initialization from an "
    "unsampled run at a later time point); class edge = 1-3 inputs of any kind (parameters, initial sizes, transfers, interactions, spend, capacity, outcomes) get a best "
    "estimate of exactly 0 (as constant / in a year column), exactly 1 or a sigma of twice the value, with sigma > 0, and the sampled value of EVERY input with sigma > 0 must "
    "differ from the entered value and between direct samples (labels uq:<kind of input>, uv:<value class>); every entry point is called twice in a row (second call not reseeded): "
    "run_sampled_sims serial and parallel, Ensemble.run_sims serial and parallel, CascadeEnsemble.run_sims serial, sample() directly; edge also covers bounded inputs with a sigma that is "
    "large relative to the distance to the bound (saturation 0.95+-0.1, 0.05+-0.1, 1.0+-0.2; parameters 5% inside a framework limit with sigma 10%); ~25% of the sources have a "
    "stochastic framework (one parameter function k*(1+0.1*randn())), for which the fingerprint is that of the sampled inputs retained by the Result (data parameters untouched by "
    "functions/programs + program inputs); 8 direct samples per case for the per-quantity oracle; samples 2..32; "
    "per case 3 direct sample() probes, 2 serial calls of Project.run_sampled_sims and 1 parallel call with 1,2,3,4,8,16 workers (or Ensemble.run_sims(parallel=True)); drawn "
    "seeds for the global numpy generator before every call); oracle = pairwise distinct fingerprints (result arrays + program inputs kept by the run) within one call when a "
    "perturbed input is visible one-to-one in the fingerprint, bitwise equality with the unsampled run when every sigma is 0/None, sources canon-unchanged, sample() never "
    "raises and returns a new object, serial reproducible from the seed; non-trivial = parallel call with workers >= 2 and samples > workers with distinctness required; "
    "distinct = distinct case hash"
)
ASSUMPTIONS = [
    "the harness does not own the OS schedule: it relies on the fault class (forked workers starting from one generator state) showing for (nearly) every schedule and varies worker and sample counts; a schedule in which a single worker happens to execute every task would hide it for that call",
    "distinctness is required only where a perturbed input reaches the fingerprint one-to-one (untargeted data parameter without function/limits/zero factor, or any program input, which Model.progset retains) and three harness-side perturbations confirm it; sigmas are at most 5% of the value; other cases (perturbation only on clipped, overwritten or function parameters, compartment sizes, transfers) are labelled no-one-to-one-path and still get every other oracle",
    "initial stocks count as one-to-one visible: the stored initial size of an ordinary compartment / initial value of a characteristic is value + delta for every accepted draw; the number of rejected draws is measured harness-side by replaying a serial sample-run-resample loop from the case's seed (the parallel workers' own rejections are not observable), at most 50 attempts per sample as in atomica",
    "a saved initialization is part of the source parameter set: the unsampled reference run uses it, a sample must keep it (zero uncertainty => identical run) and the canonical form compared for 'source unchanged' includes it; with a saved initialization, uncertainty on databook stocks cannot reach the run, which the probes notice (distinctness then rests on other inputs or is not required)",
    "edge class: runs on edge-valued perturbed inputs (negative rates etc.) that raise inside the model are discarded, not reported; zero/negative durations, unit costs and saturations are not generated; the per-quantity oracle does not depend on the model run",
    "stochastic frameworks: outputs differ from run to run, so every oracle (distinct samples, zero uncertainty => equal, reproducible from the seed) is applied to the input fingerprint; initial stocks are not part of it, so uncertainty that sits only on initial stocks is labelled no-one-to-one-path there",
    "process start method is fork (Linux default in Python 3.12; sciris/multiprocess likewise): workers inherit the check process's sys.path, so VERIF_ATOMICA_SRC applies to workers as well",
    "serial reproducibility from np.random.seed is taken as promised because docs/examples/Uncertainty.ipynb seeds the global generator to obtain specific samples; parallel reproducibility and serial==parallel are not required",
    "a call that exhausts its 50 resampling attempts because of bad initial conditions is outside the domain (discarded, counted); generated specs atomica cannot build/run unsampled are discarded (C18)",
    "Ensemble.run_sims(parallel=True) cannot be given a worker count (sc.parallelize default = all CPUs); it is exercised on library projects and the hand-written spec only; its fingerprint is computed on the worker inside the mapping function",
]
BUDGET = {"quick": 60, "thorough": 240}  # thorough = 4x quick: a depth that was run to completion, quiet, at seed 1 (deterministic given the seed)
TIME_CAP = {"quick": 80, "thorough": 1500}
MAX_SHARDS = 4
PROFILE = {"max_pops": 2, "p_timed": 0.0, "p_junction": 0.2, "max_steps": 6, "extreme": 0.0, "p_function": 0.1, "p_programs": 0.45, "max_ord": 3, "p_limits": 0.15}
WORKERS = [2, 4, 1, 3, 2, 8, 4, 16]
SEEDS = st.integers(0, 2**32 - 1)


@st.composite
def cases(draw, tier="quick"):
    unc = draw(st.sampled_from(H.UNC_CLASSES))
    kind = draw(st.sampled_from(["gen", "gen", "gen", "hand", "lib", "lib"]))
    if kind == "lib":
        src = H.lib_sources(draw, unc)
        if draw(st.integers(0, 3)) == 0:
            src["noise"] = True
    else:
        base = draw(gen_model.model_specs(PROFILE)) if kind == "gen" else H.HAND
        spec, unc = H.assign_sigmas(draw, base, unc)
        refs = [p["name"] for p in spec["pars"] if not p.get("timed") and not (p.get("fn") or "").startswith(("SRC_POP", "TGT_POP")) and ":" not in (p.get("fn") or "")]
        if refs and draw(st.integers(0, 3)) == 0:
            H.add_noise_parameter(spec, draw(st.sampled_from(refs)))  # stochastic framework: one multiplicative noise term
        if kind == "hand" and draw(st.booleans()) and unc in ("none", "zero", "par"):
            spec["progs"], spec["instr"] = None, None
            for p in spec["pars"]:
                p["tgt"] = False
        src = {"kind": "spec", "spec": spec}
    par = draw(st.sampled_from(["project", "project", "project", "project", "serial-only", "ensemble"]))
    if par == "ensemble" and kind == "gen":
        par = "project"
    if unc in ("none", "zero") and par == "project" and draw(st.booleans()):
        par = "serial-only"
    workers = draw(st.sampled_from(WORKERS)) if par == "project" else None
    if workers is not None and workers < 16 and draw(st.booleans()):
        n = draw(st.integers(workers + 1, 32))
    else:
        n = draw(st.integers(2, 32))
    case = {"src": src, "unc": unc, "n": n, "par": par, "workers": workers, "seed": draw(SEEDS), "par_seed": draw(SEEDS), "probe_seeds": draw(st.lists(SEEDS, min_size=8 if unc == "init" else 3, max_size=8 if unc == "init" else 3, unique=True))}
    # the source parameter set sometimes carries a saved initialization (ParameterSet.set_initialization): the compartment sizes of
    # an unsampled run at a later time point, so that it differs from the state the databook gives
    if unc != "init" and draw(st.integers(0, 9)) < 3:
        case["saved_init"] = {"index": draw(st.integers(1, 40))}
    return case


def strategy(tier):
    return cases(tier)


def _hand(unc_edit):
    import copy

    spec = copy.deepcopy(H.HAND)
    unc_edit(spec)
    return spec


def static_cases(tier):
    """a handful of fixed cases so that every oracle is exercised at every seed"""

    def par_sigma(spec):
        spec["data"]["q"]["k0"]["pa"]["s"] = 0.01
        spec["data"]["q"]["k3"]["pb"]["s"] = 0.005
        for c in spec["progs"]["covouts"]:
            c["sigma"] = None

    def prog_sigma(spec):
        spec["progs"]["covouts"][0]["sigma"] = 0.01
        spec["progs"]["covouts"][0]["imp"] = {"Ga+Gb": 0.05}
        spec["progs"]["covouts"][1]["sigma"] = None
        spec["progs"]["covouts"][2]["sigma"] = 0.0
        spec["progs"]["progs"][0]["spend"]["s"] = 30.0

    def zero_sigma(spec):
        spec["data"]["q"]["k0"]["pa"]["s"] = 0.0
        spec["data"]["q"]["k1"]["pb"]["s"] = 0.0
        spec["data"]["q"]["c0"]["pa"]["s"] = 0.0
        spec["progs"]["progs"][1]["cost"]["s"] = 0.0
        for c in spec["progs"]["covouts"]:
            c["sigma"] = 0.0

    def no_sigma(spec):
        for c in spec["progs"]["covouts"]:
            c["sigma"] = None
        spec["progs"]["covouts"][0]["imp"] = {"Ga+Gb": 0.05}

    def mk(src, unc, n, par, workers, k):
        return {"src": src, "unc": unc, "n": n, "par": par, "workers": workers, "seed": 1000 + k, "par_seed": 2000 + k, "probe_seeds": [3000 + k, 4000 + k, 5000 + k]}

    out = []
    for k, w in enumerate([2, 4, 8]):
        out.append(mk({"kind": "spec", "spec": _hand(par_sigma)}, "par", 8, "project", w, k))
    out.append(mk({"kind": "spec", "spec": _hand(prog_sigma)}, "prog", 6, "project", 3, 10))
    out.append(mk({"kind": "spec", "spec": _hand(zero_sigma)}, "zero", 5, "project", 2, 11))
    out.append(mk({"kind": "spec", "spec": _hand(no_sigma)}, "none", 4, "serial-only", None, 12))
    out.append(mk({"kind": "lib", "name": "udt", "progs": True, "start_off": 1, "par": [[0, {"rel": 0.01}]], "prog": [], "covout": [[0, 0.01, 0.4]]}, "both", 6, "ensemble", None, 13))
    out.append(mk({"kind": "lib", "name": "udt", "progs": False, "start_off": 1, "par": [[1, {"rel": 0.01}]], "prog": [], "covout": []}, "par", 20, "ensemble", None, 15))
    def edge_sigma(spec):
        spec["data"]["q"]["k3"]["pb"] = {"a": 0.0, "s": 0.1}  # a rate assumed to be 0 +- 0.1 (constant, no year values)
        spec["data"]["q"]["k2"]["pa"] = {"t": [2000.0], "v": [0.0], "s": 0.02}
        spec["data"]["q"]["k0"]["pb"]["s"] = 0.02
        spec["c17_edge"] = ["zero-const", "zero-year"]
        for c in spec["progs"]["covouts"]:
            c["sigma"] = None

    out.append(mk({"kind": "spec", "spec": _hand(edge_sigma)}, "edge", 4, "project", 2, 20))

    def noisy(spec):
        par_sigma(spec)
        H.add_noise_parameter(spec, "k1")

    out.append(mk({"kind": "spec", "spec": _hand(noisy)}, "par", 6, "project", 2, 21))

    def sat_near_bound(spec):
        spec["progs"]["progs"][1]["sat"] = {"t": [2000.0], "v": [0.95], "s": 0.1}
        spec["progs"]["progs"][0]["sat"] = {"t": [2000.0], "v": [0.05], "s": 0.1}
        spec["c17_edge"] = ["near-bound"]
        for c in spec["progs"]["covouts"]:
            c["sigma"] = None

    out.append(mk({"kind": "spec", "spec": _hand(sat_near_bound)}, "edge", 4, "serial-only", None, 22))

    def init_sigma(spec):
        spec["data"]["q"]["c1"]["pa"]["s"] = 50.0 / 0.5244  # 30% of the draws give a negative initial c1
        for c in spec["progs"]["covouts"]:
            c["sigma"] = None

    out.append(mk({"kind": "spec", "spec": _hand(init_sigma)}, "init", 12, "project", 3, 16))
    out.append(mk({"kind": "lib", "name": "tb_simple", "progs": False, "start_off": 1, "par": [], "prog": [], "covout": [], "init": [[1, 0.5244]]}, "init", 12, "project", 1, 17))
    out[-2]["probe_seeds"] += [6016, 7016, 8016, 9016, 10016]
    out[-1]["probe_seeds"] += [6017, 7017, 8017, 9017, 10017]
    out.append(mk({"kind": "spec", "spec": _hand(zero_sigma)}, "zero", 4, "project", 2, 18))
    out[-1]["saved_init"] = {"index": 6}
    out.append(mk({"kind": "lib", "name": "udt", "progs": True, "start_off": 1, "par": [], "prog": [], "covout": []}, "none", 3, "ensemble", None, 19))
    out[-1]["saved_init"] = {"index": 4}
    out.append(mk({"kind": "lib", "name": "tb_simple", "progs": True, "start_off": 1, "par": [[3, 0.0]], "prog": [[1, "unit_cost", 0.0]], "covout": [[0, 0.0, 0.95]]}, "zero", 4, "project", 2, 14))
    return out


# --------------------------------------------------------------------------- fingerprints


def fingerprint(res):
    """result arrays (compartments, characteristics, parameters, links) + the program inputs the run kept (Model.progset is the sampled set).
    For a stochastic framework (a parameter function calls rand()/randn()) the outputs differ from run to run anyway, so the
    fingerprint is that of the sampled INPUTS as far as the Result retains them: the stored values of every data parameter that no
    function and no program touches + the program inputs"""
    if H.is_stochastic(res.model.framework):
        return "inputs:" + H.data_parameter_digest(res) + "/" + H.progset_inputs_digest(res.model.progset)
    return canon.result_digest(res) + "/" + H.progset_inputs_digest(res.model.progset)


def _map_wrapped(result, inner=None, **kwargs):
    """a ready-made mapping function (CascadeEnsemble) wrapped so that the fingerprint of the Result travels with its output"""
    pd = inner(result, **kwargs)
    pd.c17_fingerprint = fingerprint(result[0] if isinstance(result, list) else result)
    return pd


def _map_plotdata(result, **kwargs):
    """mapping function of the Ensemble (module level so that it can be sent to workers); the fingerprint of the full Result
    travels on the PlotData because the Result itself is dropped on the worker"""
    import atomica as at

    pd = at.PlotData(result)
    pd.c17_fingerprint = fingerprint(result[0] if isinstance(result, list) else result)  # the Ensemble passes the list of Results of one sample
    return pd


def _reap():
    """no process may outlive a case.  Worker pools that a failed call left behind (sc.parallelize does not close its pool when a
    task raises) are finalised by the collector while their workers are alive - killing workers of a live pool from outside would
    leave the pool's queue lock held by a dead process and dead-lock the pool's own finaliser later."""
    import gc

    gc.collect()
    left = 0
    for modname in ("multiprocessing", "multiprocess"):
        try:
            mod = __import__(modname)
        except ImportError:
            continue
        for c in mod.active_children():
            c.join(10)
            if c.is_alive():
                left += 1
                c.terminate()
                c.join(5)
    return left


CALL_TIMEOUT = 300  # seconds; a sampled call normally takes 0.1-3 s


class _CallTimeout(Exception):
    pass


def _guarded(fn):
    """run fn() -> (value, None) or (None, (exception type name, repr, str)); no pool, worker or traceback frame survives.
    A call that does not return within CALL_TIMEOUT (dead-locked pool) is reported as an error of type 'Timeout'."""
    import signal
    import threading
    import traceback

    def on_alarm(signum, frame):
        raise _CallTimeout("no return after %d s" % CALL_TIMEOUT)

    val = err = None
    main = threading.current_thread() is threading.main_thread()
    if main:
        previous = signal.signal(signal.SIGALRM, on_alarm)
        signal.alarm(CALL_TIMEOUT)
    try:
        val = fn()
    except _CallTimeout as e:
        err = ("Timeout", repr(e), str(e))
        traceback.clear_frames(e.__traceback__)
    except Exception as e:
        err = (type(e).__name__, repr(e), str(e))
        traceback.clear_frames(e.__traceback__)
    finally:
        if main:
            signal.alarm(0)
            signal.signal(signal.SIGALRM, previous)
    _reap()
    return val, err


def _groups(fps):
    g = {}
    for i, f in enumerate(fps):
        g.setdefault(f, []).append(i)
    return sorted(g.values(), key=lambda x: x[0])


def check(case):
    import atomica as at

    simcase.quiet()
    src = case["src"]
    m = H.materialise(src)
    P, ps, pg, ins = m["P"], m["ps"], m["pg"], m["ins"]
    uncertain = m["ppos"] or m["gpos"]
    n, par, workers = case["n"], case["par"], case["workers"]
    ensemble = par == "ensemble"
    labels = ["src:" + (src["name"] if src["kind"] == "lib" else ("hand" if "hand-written" in src["spec"].get("labels", []) else "generated")), "progset" if pg is not None else "no-progset"]
    labels.append("unc:" + ("+".join(x for x, f in (("parset", m["ppos"]), ("progset", m["gpos"])) if f) or ("zero" if m["zero"] else "none")))
    if m["explicit"]:
        labels.append("explicit-interaction" + ("+sigma" if m["explicit_sigma"] else ""))
    if m["init"]:
        labels.append("init-uncertainty")
    stochastic = H.is_stochastic(P.framework)
    if stochastic:
        labels.append("stochastic-framework")
    what = "uncertainty=%s n=%d" % (labels[2], n)

    if case.get("saved_init"):
        try:
            first = P.run_sim(ps, pg, ins)
            t = np.asarray(first.t, dtype=float)
            ps.set_initialization(first, year=t[1 + (case["saved_init"]["index"] - 1) % (len(t) - 1)] if len(t) > 1 else None)
        except Exception as e:
            raise Discard("unsampled run / set_initialization raised %s at %s (not a sampling matter)" % (type(e).__name__, simcase.atomica_frame(e)))
        labels.append("saved-initialization")
        what += " parset with saved initialization (year %r)" % ps.initialization.year
    try:
        base = P.run_sim(ps, pg, ins)
        fp_base = fingerprint(base)
    except Exception as e:
        raise Discard("unsampled run raised %s at %s (decided by C18)" % (type(e).__name__, simcase.atomica_frame(e)))
    plot_ok = cascade_ok = False
    try:
        _map_plotdata([base])
        plot_ok = True
        at.CascadeEnsemble(P.framework, 0).mapping_function([base])
        cascade_ok = True
    except Exception:
        pass

    c_ps, c_pg = canon.canon(ps), canon.canon(pg)

    def sources_unchanged(where):
        a = canon.canon(ps)
        if a != c_ps:
            raise Violation(ID, "source-changed/parset/" + where, "parameter set differs after %s: %r (%s)" % (where, canon.diff(c_ps, a)[:4], what))
        b = canon.canon(pg)
        if b != c_pg:
            raise Violation(ID, "source-changed/progset/" + where, "program set differs after %s: %r (%s)" % (where, canon.diff(c_pg, b)[:4], what))

    # ---- 1. direct sampling ------------------------------------------------------------------------------------------------
    def direct():
        try:
            sps = ps.sample()
        except Exception as e:
            raise Violation(ID, "sample-raises/ParameterSet/%s" % type(e).__name__, "ParameterSet.sample() raised %r at %s (%s)" % (e, simcase.atomica_frame(e), what))
        spg = None
        if pg is not None:
            try:
                spg = pg.sample()
            except Exception as e:
                raise Violation(ID, "sample-raises/ProgramSet/%s" % type(e).__name__, "ProgramSet.sample() raised %r at %s (%s, explicit interaction outcomes: %s)" % (e, simcase.atomica_frame(e), what, m["explicit"]))
        if sps is ps or (pg is not None and spg is pg):
            raise Violation(ID, "sample-returns-source/" + ("parset" if sps is ps else "progset"), "sample() returned the source object itself (%s)" % what)
        sources_unchanged("sample()")
        return sps, spg

    # 1a. per quantity: the sampled VALUE of every input with sigma > 0 differs from the entered value and between samples (two
    #     x four consecutive samples, each four after one seeding); inputs with sigma 0/None keep their value
    src_q = H.quantity_values(ps, pg, set(P.framework.pars.index))
    np.random.seed(case["probe_seeds"][0])
    trio = [H.quantity_values(*direct()) for _ in range(4)]
    np.random.seed(case["probe_seeds"][1])
    trio += [H.quantity_values(*direct()) for _ in range(4)]
    for key in sorted(src_q, key=repr):
        kind, sigma, val, vclass = src_q[key]
        got = [q[key][2] if key in q else "<missing>" for q in trio]
        side = "progset" if key[0] in ("program", "outcome", "interaction-outcome") else "parset"
        if sigma is not None and sigma > 0:
            labels.append("uq:" + kind)
            labels.append("uv:" + vclass)
            if any(g == val for g in got):
                raise Violation(ID, "quantity-not-perturbed/" + side, "%s %r (%s, entered value %r, sigma %r): sample %d has the entered value unchanged (%s)" % (kind, key, vclass, val, sigma, [g == val for g in got].index(True), what))
            if len(set(got)) < len(got):
                raise Violation(ID, "quantity-shared-draw/" + side, "%s %r (sigma %r): consecutive/independently seeded samples have the same sampled value %r (%s)" % (kind, key, sigma, got, what))
        elif any(g != val for g in got):
            raise Violation(ID, "zero-uncertainty-perturbs/quantity", "%s %r has sigma %r but its sampled value is %r, entered %r (%s)" % (kind, key, sigma, got, val, what))
    labels[:] = sorted(set(labels), key=labels.index)

    # 1b. runs on directly sampled sets
    probes = []
    for s in case["probe_seeds"]:
        np.random.seed(s)
        sps, spg = direct()
        try:
            probes.append(fingerprint(P.run_sim(sps, spg, ins)))
        except at.BadInitialization:
            probes.append(None)
        except Exception as e:
            raise Discard("perturbed run raised %s at %s (not a sampling matter)" % (type(e).__name__, simcase.atomica_frame(e)))
    if not uncertain:
        for f in probes:
            if f is not None and f != fp_base:
                raise Violation(ID, "zero-uncertainty-perturbs/sample()", "all sigmas are 0/None but the run on the sampled sets differs from the unsampled run (%s)" % what)
        sensitive = False
    else:
        # distinctness is only required where a perturbed input is visible one-to-one in the fingerprint (so that two different
        # draws cannot collapse onto one result through limits, inactive programs, functions ...), confirmed by the three probes
        # (probes rejected for bad initial conditions do not count; at least two must have been accepted)
        got = [f for f in probes if f is not None]
        one_to_one = (m["eff_par_strict"] if stochastic else m["eff_par"]) or m["gpos"]  # (stochastic framework: initial stocks are not in the fingerprint)
        sensitive = one_to_one and len(got) >= 2 and len(set(got + [fp_base])) == len(got) + 1
        labels.append("distinctness-checked" if sensitive else ("no-one-to-one-path" if not one_to_one else "probes-not-distinct"))
    if m["init"]:
        # how often a draw is rejected: replay of a serial sampling loop (sample, run, resample on BadInitialization) from the case's seed
        np.random.seed(case["seed"])
        acc = rej = 0
        while acc < n and rej < 50 * n:
            try:
                P.run_sim(ps.sample(), pg.sample() if pg is not None else None, ins)
                acc += 1
            except at.BadInitialization:
                rej += 1
            except Exception as e:
                raise Discard("perturbed run raised %s at %s (not a sampling matter)" % (type(e).__name__, simcase.atomica_frame(e)))
        rate = rej / float(max(1, rej + acc))
        labels.append("rejected-draws:" + ("0" if rej == 0 else "1-2" if rej <= 2 else "3-9" if rej <= 9 else "10+"))
        labels.append("rejection-rate:" + ("0" if rej == 0 else "<20%" if rate < 0.2 else "20-60%" if rate <= 0.6 else ">60%"))
        what += " rejected %d of %d draws in a serial replay" % (rej, rej + acc)

    # ---- 2. the entry points: every one is called twice in a row (second call not reseeded) -------------------------------------------
    def judge(fps, where, bucket_where, detail):
        if uncertain and sensitive:
            if len(set(fps)) < len(fps):
                raise Violation(ID, "shared-draws/" + bucket_where, "%s: %d samples but only %d distinct results; identical groups %r (%s)" % (detail, len(fps), len(set(fps)), [g for g in _groups(fps) if len(g) > 1][:6], what))
            if fp_base in fps:
                raise Violation(ID, "sample-not-perturbed/" + bucket_where, "%s: sample %d equals the unsampled run although the uncertainty reaches the outputs (%s)" % (detail, fps.index(fp_base), what))
        if not uncertain:
            bad = [i for i, f in enumerate(fps) if f != fp_base]
            if bad:
                raise Violation(ID, "zero-uncertainty-differs/" + bucket_where, "%s: all sigmas are 0/None but samples %r differ from the unsampled run (%s)" % (detail, bad[:8], what))
        sources_unchanged(where)

    def failed(err, bucket_where, call):
        if "Failed simulation after" in err[2]:
            raise Discard("sampling exhausted its attempts on bad initial conditions")
        if m["edge"] and err[0] != "Timeout":
            raise Discard("a run on edge-valued perturbed inputs raised %s (not a sampling matter)" % err[0])
        raise Violation(ID, "call-raises/%s/%s" % (bucket_where, err[0]), "%s raised %s (%s)" % (call, err[1], what))

    def run_project(nn, seed, parallel, nw):
        if seed is not None:
            np.random.seed(seed)
        out, err = _guarded(lambda: P.run_sampled_sims(ps, pg, ins, n_samples=nn, parallel=parallel, num_workers=nw))
        if err:
            failed(err, "parallel" if parallel else "serial", "run_sampled_sims(n_samples=%d, parallel=%s, num_workers=%s)" % (nn, parallel, nw))
        if not isinstance(out, list) or len(out) != nn or any((not isinstance(x, list)) or len(x) != 1 or not isinstance(x[0], at.Result) for x in out):
            raise Violation(ID, "wrong-shape/" + ("parallel" if parallel else "serial"), "expected a list of %d one-element lists of Result, got %r" % (nn, [type(x).__name__ for x in out][:5] if isinstance(out, list) else type(out)))
        return [fingerprint(x[0]) for x in out]

    def run_ensemble(nn, seed, parallel, cascade=False):
        if cascade:
            ens = at.CascadeEnsemble(P.framework, 0)
            ens.mapping_function = functools.partial(_map_wrapped, inner=ens.mapping_function)
        else:
            ens = at.Ensemble(mapping_function=_map_plotdata)
        if seed is not None:
            np.random.seed(seed)
        name = ("Cascade" if cascade else "") + "Ensemble.run_sims(n_samples=%d, parallel=%s)" % (nn, parallel)
        _, err = _guarded(lambda: ens.run_sims(P, ps, pg, ins, n_samples=nn, parallel=parallel))
        if err:
            failed(err, ("cascade-" if cascade else "") + "ensemble-" + ("parallel" if parallel else "serial"), name)
        if len(ens.samples) != nn:
            raise Violation(ID, "wrong-shape/ensemble-" + ("parallel" if parallel else "serial"), "%s: expected %d samples, got %d" % (name, nn, len(ens.samples)))
        return [getattr(x, "c17_fingerprint", None) for x in ens.samples]

    def twice(run, nn, seed, where, bucket_where, detail):
        """call, judge, call again without reseeding, judge; the second call must not repeat draws of the first"""
        first = run(nn, seed)
        judge(first, where, bucket_where, detail)
        second = run(min(nn, 3), None)
        judge(second, where, bucket_where, detail + ", second call")
        if uncertain and sensitive and set(first) & set(second):
            raise Violation(ID, "repeated-draws/" + bucket_where, "%s: a second call without reseeding returned samples identical to samples of the first call: first-call indices %r (%s)" % (detail, [first.index(f) for f in second if f in first], what))
        return first

    ncpu = os.cpu_count() or 1
    # Project.run_sampled_sims, serial (+ reproducibility from the seed)
    fps = twice(lambda nn, seed: run_project(nn, seed, False, None), n, case["seed"], "run_sampled_sims(serial)", "serial", "serial call")
    again = run_project(min(n, 3), case["seed"], False, None)
    if again != fps[: len(again)]:
        raise Violation(ID, "serial-not-reproducible", "two serial calls after np.random.seed(%d) gave different samples (%s)" % (case["seed"], what))
    # Ensemble.run_sims / CascadeEnsemble.run_sims, serial (needs a model that PlotData / the cascade can digest)
    if plot_ok:
        twice(lambda nn, seed: run_ensemble(nn, seed, False), min(n, 4), case["par_seed"], "Ensemble.run_sims(serial)", "ensemble-serial", "Ensemble.run_sims(parallel=False)")
        labels.append("ensemble-serial")
    if cascade_ok:
        twice(lambda nn, seed: run_ensemble(nn, seed, False, True), min(n, 3), case["seed"], "CascadeEnsemble.run_sims(serial)", "cascade-ensemble-serial", "CascadeEnsemble.run_sims(parallel=False)")
        labels.append("cascade-ensemble-serial")
    nontrivial = False
    if par == "project":
        twice(lambda nn, seed: run_project(nn, seed, True, workers), n, case["par_seed"], "run_sampled_sims(parallel)", "project-parallel", "parallel call with %d workers" % workers)
        labels.append("workers:%d" % workers)
        labels.append("samples>workers" if n > workers else "samples<=workers")
        nontrivial = workers >= 2 and n > workers and sensitive
    elif ensemble:
        if not plot_ok:
            raise Discard("PlotData cannot be made from the unsampled run (Ensemble not applicable)")
        twice(lambda nn, seed: run_ensemble(nn, seed, True), n, case["par_seed"], "Ensemble.run_sims(parallel)", "ensemble-parallel", "Ensemble.run_sims(parallel=True) on %d CPUs" % ncpu)
        labels.append("api:ensemble")
        nontrivial = sensitive and ncpu >= 2 and n > ncpu
    else:
        labels.append("serial-only")
    labels.append("samples:%s" % ("2-4" if n <= 4 else "5-8" if n <= 8 else "9-16" if n <= 16 else "17-32"))
    return {"nontrivial": bool(nontrivial), "labels": labels}
