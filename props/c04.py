"""C04 - junctions are always empty and split their inflow by the stated proportions; initial flush."""
import re
import numpy as np
from vlib import gen_model, simcase, oracles, replay
from vlib.build import link_key
from vlib.runner import Violation, Discard

ID = "C04"
RULE = (
    "cases = junction-biased ModelSpecs (single junctions, chains, fans, with/without residual '>' link, inside and outside duration groups, proportions "
    "constant / time-varying data / functions of state, sums <1, =1, >1, some zero; junctions initialised non-empty); oracle = junction content 0 at every index; every "
    "junction outflow recomputed from the RECORDED inflow and the parameter arrays at the same index by the stated law (plain: inflow*p_i/sum p; residual: inflow*p_i "
    "with remainder to the residual link, p scaled to 1 and residual 0 when sum p >= 1), per bin inside duration groups; initial flush: post-flush index-0 sizes = "
    "pre-flush sizes + junction contents pushed down the junction DAG by the same law, junctions 0, total preserved; non-trivial = a junction with >= 2 outflows "
    "receives inflow > 0, or a junction starts > 0; distinct = spec hash"
)
ASSUMPTIONS = [
    "domain as C01 (a plain junction receiving people while sum p <= 0 is discarded)",
    "the exact flush split is checked only where the proportions of initialised junctions do not depend on model state (the pre-flush parameter values are not recorded); "
    "state-dependent cases still get 'junction emptied' and 'total preserved'",
    "the pre-flush state is read from Model(...) before Model.process() (documented two-step use of run_model)",
]
BUDGET = {"quick": 3000, "thorough": 12000}  # thorough = 4x quick: a depth that was run to completion, quiet, at seed 1 (deterministic given the seed)
TIME_CAP = {"quick": 75, "thorough": 1500}
PROFILE = {"p_programs": 0.3, "p_second_type": 0.15, "p_junction": 1.0, "p_indirect_junction": 0.25, "max_junction_motifs": 3, "p_timed": 0.45, "p_function": 0.35, "max_steps": 20, "extreme": 0.1}
STATE_NAME = re.compile(r"\b(c\d+|t\d+[abc]|x\d+|xf|j\d+|jg\d+)\b")


def strategy(tier):
    prof = dict(PROFILE)
    if tier == "thorough":
        prof.update(max_steps=60, max_ord=6, max_pops=4)
    return gen_model.model_specs(prof)


def state_dependent_pars(spec):
    """names of parameters whose value depends (transitively) on compartments/characteristics"""
    fn = {p["name"]: p.get("fn") for p in spec["pars"]}
    # a parameter overwritten by programs depends on the state through the coverage (number eligible)
    dep = {c["par"] for c in ((spec.get("progs") or {}).get("covouts") or [])}
    changed = True
    while changed:
        changed = False
        for n, f in fn.items():
            if n in dep or not f:
                continue
            if STATE_NAME.search(f) or any(re.search(r"\b%s\b" % re.escape(d), f) for d in dep) or f.startswith(("SRC_", "TGT_")):
                dep.add(n)
                changed = True
    return dep


def check(spec):
    b, res = simcase.run_spec(spec)
    oracles.check_structure(spec, res, ID, ("links", "residual"))
    rp = replay.Replay(res)
    pre = b["preflush"]
    T = len(res.t)
    feats = set()
    # (1) empty at every index, (2) split law from recorded inflow
    for j in rp.junction_order:
        v = rp.cv[j]
        if np.any(v != 0):
            i = int(np.nonzero(v)[0][0])
            raise Violation(ID, "junction-not-empty", "junction %s/%s holds %r at index %d" % (j.pop.name, j.name, v[i], i))
        grouped = bool(j.duration_group)
        residual = isinstance(j, rp.ResJ)
        for ti in range(T):
            if grouped:
                inflow = 0
                for l in j.inlinks:
                    inflow = inflow + np.asarray(l._vals[:, ti], dtype=float)
                inflow = np.asarray(inflow, dtype=float)
            else:
                inflow = float(sum(rp.lv[l][ti] for l in j.inlinks))
            tot_in = float(np.sum(inflow))
            ps = [max(float(rp.pv[l.parameter][ti]), 0.0) if l.parameter is not None else None for l in j.outlinks]
            s = sum(p for p in ps if p is not None)
            if tot_in > 0 and len(j.outlinks) >= 2:
                feats.add("split")
                feats.add("sum<1" if s < 1 else ("sum=1" if s == 1 else "sum>1"))
                if grouped:
                    feats.add("split-in-duration-group")
                if residual:
                    feats.add("split-residual")
            for l, p in zip(j.outlinks, ps):
                if residual:
                    if p is None:
                        exp = inflow * (1 - s) if s < 1 else inflow * 0.0
                    else:
                        exp = inflow * p / (s if s > 1 else 1.0)
                else:
                    if not (s > 0):
                        if tot_in == 0:
                            exp = inflow * 0.0
                        else:
                            raise Discard("plain junction receives people while its proportions sum to <= 0")
                    else:
                        exp = inflow * (p / s)  # normalise first: a denormal proportion times the inflow would underflow
                got = np.asarray(l._vals[:, ti], dtype=float) if grouped else float(rp.lv[l][ti])
                tol = 1e-9 * max(1.0, tot_in)
                if np.shape(got) != np.shape(exp) or np.any(np.abs(got - exp) > tol) or not np.all(np.isfinite(got)):
                    kind = "residual" if residual else "plain"
                    raise Violation(ID, "split-law/%s%s" % (kind, "/grouped" if grouped else ""), "junction %s/%s index %d inflow %r proportions %r: link %s carries %r, law gives %r" % (j.pop.name, j.name, ti, np.asarray(inflow).tolist(), ps, link_key(l), np.asarray(got).tolist(), np.asarray(exp).tolist()))
    # (3) initial flush
    init = {j: pre[(j.pop.name, j.name)] for j in rp.junction_order}
    if any(x > 0 for x in init.values()):
        feats.add("initial-flush")
        total_pre = sum(x for (p, c), x in pre.items())
        post = {}
        for pop in res.model.pops:
            for c in pop.comps:
                post[(pop.name, c.name)] = float(rp.cv[c][0])
        total_post = sum(post.values())
        if abs(total_pre - total_post) > 1e-9 * max(1.0, total_pre):
            raise Violation(ID, "flush/total-not-preserved", "total before flush %r after %r" % (total_pre, total_post))
        sdep = state_dependent_pars(spec)
        involved = set()
        exact = True
        content = dict(init)
        expected = dict(pre)
        for j in rp.junction_order:
            x = content[j]
            expected[(j.pop.name, j.name)] = 0.0
            if not (x > 0):
                continue
            ps = [max(float(rp.pv[l.parameter][0]), 0.0) if l.parameter is not None else None for l in j.outlinks]
            if any(l.parameter is not None and l.parameter.name in sdep for l in j.outlinks):
                exact = False
            s = sum(p for p in ps if p is not None)
            if isinstance(j, rp.ResJ):
                shares = [((1 - s) if s < 1 else 0.0) if p is None else p / (s if s > 1 else 1.0) for p in ps]
            else:
                if not (s > 0):
                    raise Discard("plain junction initialised with people while its proportions sum to <= 0")
                shares = [p / s for p in ps]
            if len(j.outlinks) >= 2:
                feats.add("flush-split")
            for l, sh in zip(j.outlinks, shares):
                if isinstance(l.dest, rp.Junc):
                    content[l.dest] += x * sh
                    feats.add("flush-chain")
                else:
                    expected[(l.dest.pop.name, l.dest.name)] += x * sh
        if exact:
            feats.add("flush-exact")
            for k, e in expected.items():
                if abs(post[k] - e) > 1e-9 * max(1.0, total_pre):
                    raise Violation(ID, "flush/split", "after the initial flush %s/%s = %r, pushing the junction contents %r down by the stated law gives %r (pre-flush %r)" % (k[0], k[1], post[k], {"%s/%s" % (j.pop.name, j.name): x for j, x in init.items() if x > 0}, e, pre[k]))
        else:
            feats.add("flush-state-dependent-unchecked-split")
    # (4) the other entry point for initial conditions: the same pre-flush numbers given as an explicit Initialization of the parameter
    # set (people placed in junctions included) must be pushed down by the same rule, i.e. give exactly the databook-initialised run
    import json, zlib

    if any(x > 0 for x in init.values()) and zlib.crc32(json.dumps(spec, sort_keys=True).encode()) % 3 == 0:
        import atomica as at
        import sciris as sc
        from vlib import canon

        try:
            m0 = at.Model(b["P"].settings, b["P"].framework, b["ps"], b.get("progset"), b.get("instructions"))
            values = {}
            for pop in m0.pops:
                for c in pop.comps:
                    values[(c.name, pop.name)] = np.array(c._vals[:, 0], dtype=float) if isinstance(c, rp.Timed) else float(np.asarray(c.vals)[0])
            ps2 = sc.dcp(b["ps"])
            ps2.initialization = at.parameters.Initialization(values=values, year=float(res.t[0]), dt=float(res.model.dt))
            res2, _ = simcase.two_step(b["P"], ps2, b.get("progset"), b.get("instructions"))
        except Violation:
            raise
        except Exception as e:
            raise Violation(ID, "explicit-initialization/raises/%s" % type(e).__name__, "giving the pre-flush state of the databook run as an explicit Initialization made atomica raise %s: %s" % (type(e).__name__, str(e)[:200]))
        d = canon.compare_results(canon.result_arrays(res), canon.result_arrays(res2), rtol=1e-12)
        if d is not None:
            k, i, x, y = d
            raise Violation(ID, "explicit-initialization/differs", "%s at index %r: %r when initialised from the databook, %r when the same pre-flush numbers (junction contents %r) are given as an explicit Initialization" % (k, i, x, y, {"%s/%s" % (j.pop.name, j.name): x_ for j, x_ in init.items() if x_ > 0}))
        feats.add("explicit-initialization-with-junction-people")
    nontrivial = "split" in feats or "initial-flush" in feats
    return {"nontrivial": nontrivial, "labels": simcase.labels_of(spec) + ["j:" + f for f in sorted(feats)]}
