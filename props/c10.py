"""C10 - restarting from a saved state continues the original trajectory exactly."""
import copy
import numpy as np
from hypothesis import strategies as st
from vlib import oracles, gen_model, simcase, build, canon
from vlib.runner import Violation, Discard, HarnessError

ID = "C10"
RULE = (
    "cases = ModelSpecs without derivative parameters (junctions, duration groups with per-bin state, transfers, functions of state and time, programs active before/after Y) x interior "
    "grid year Y x chain of 1-3 restarts x {in-memory, calibration-spreadsheet round trip of the saved state}; oracle: the run restarted at Y from ParameterSet.set_initialization(result, Y) "
    "equals the tail of the original run for all compartments (per elapsed-time bin), flows, characteristics and parameters at every index >= Y: bitwise over the whole tail when the two time grids are "
    "bit-equal (dyadic dt); on other grids the restart step itself (offsets 0 and 1) to 1e-9 and later differences counted as inconclusive; spreadsheet form: the loaded state equals the saved state to 1e-14, the first step matches to 1e-9 and later differences are counted as inconclusive (amplified storage rounding); non-trivial = the state at Y has non-empty timed bins or active programs and Y strictly inside; "
    "distinct = case hash"
)
ASSUMPTIONS = [
    "for non-dyadic dt the restarted grid Y + k*dt differs from start + (i+k)*dt in the last bits; events dated exactly on a grid point (program start/stop, stepped spending changes) are "
    "therefore moved off the grid by the generator, and step functions of time (floor) are not generated",
    "models with derivative parameters are excluded by the statement",
]
BUDGET = {"quick": 1500, "thorough": 6000}  # thorough = 4x quick: a depth that was run to completion, quiet, at seed 1 (deterministic given the seed)
TIME_CAP = {"quick": 75, "thorough": 1500}
PROFILE = {"p_programs": 0.5, "max_steps": 16, "min_steps": 4, "extreme": 0.05, "p_function": 0.4, "p_timed": 0.6, "p_junction": 0.4, "smooth_functions": True, "p_output_pars": 0.5, "allow_junction_init": True}
DYADIC = [1.0, 0.5, 0.25, 0.125]


def _shift_times(d, start, end, delta):
    if d and d.get("t"):
        d["t"] = [t + delta if start < t <= end else t for t in d["t"]]


@st.composite
def cases(draw, prof):
    p = dict(prof)
    if draw(st.booleans()):
        p["dts"] = DYADIC
    spec = draw(gen_model.model_specs(p))
    s0, dt, end = spec["settings"]["start"], spec["settings"]["dt"], spec["settings"]["end"]
    nsteps = max(2, int(round((end - s0) / dt)))
    if spec.get("progs") and dt not in DYADIC:
        delta = 0.37 * dt
        ins = spec["instr"]
        k = round((ins["start"] - s0) / dt)
        if abs(ins["start"] - (s0 + k * dt)) < 1e-6 and ins["start"] > s0:
            ins["start"] += delta
        if ins.get("stop") is not None:
            k = round((ins["stop"] - s0) / dt)
            if abs(ins["stop"] - (s0 + k * dt)) < 1e-6:
                ins["stop"] += delta
        for key in ("alloc", "capacity", "coverage"):
            for e in ins[key].values():
                e["t"] = [ins["start"] - 1.0]
        for q in spec["progs"]["progs"]:
            _shift_times(q["spend"], s0, end + 10, delta)
    n_restarts = min(draw(st.sampled_from([1, 1, 2, 3])), max(1, nsteps - 1))
    idx = sorted(draw(st.lists(st.integers(1, max(1, nsteps - 1)), min_size=n_restarts, max_size=n_restarts, unique=True)))
    return {"spec": spec, "restart_at": idx, "via_spreadsheet": draw(st.sampled_from([False, False, True]))}


def strategy(tier):
    prof = dict(PROFILE)
    if tier == "thorough":
        prof.update(max_steps=50, max_ord=6, max_pops=4)
    return cases(prof)


def check(case):
    import atomica as at

    spec = case["spec"]
    simcase.quiet()
    b, res = simcase.run_spec(spec)
    t = np.asarray(res.t, dtype=float)
    T = len(t)
    orig = canon.result_arrays(res)
    P, ps = b["P"], b["ps"]
    cur_res, cur_ps, cur_offset = res, ps, 0
    labels = ["restarts:%d" % len(case["restart_at"]), "spreadsheet" if case["via_spreadsheet"] else "in-memory"]
    nontrivial = False
    if not all(np.all(np.isfinite(np.asarray(c.vals, dtype=float))) for pop in cur_res.model.pops for c in pop.comps):
        raise Discard("non-finite stocks in the run to be restarted (decided by C02)")
    chain_exact = True
    inconclusive = {}
    from atomica.model import TimedCompartment

    for iY in case["restart_at"]:
        if iY >= T - 1 or iY - cur_offset < 1:
            continue
        local = iY - cur_offset
        Y = float(np.asarray(cur_res.t)[local])
        ps2 = cur_ps.copy()
        ps2.set_initialization(cur_res, Y)
        if case["via_spreadsheet"]:
            ss = ps2.calibration_spreadsheet()
            ps3 = cur_ps.copy()
            ps3.initialization = None
            ps3.load_calibration(ss)
            # content: the loaded state equals the saved one to the 16 significant digits a spreadsheet stores
            a, b_ = ps2.initialization.values, (ps3.initialization.values if ps3.initialization is not None else {})
            if set(a) != set(b_):
                raise Violation(ID, "spreadsheet/state-keys", "saved state has entries %r, the state loaded back from the calibration spreadsheet has %r" % (sorted(a, key=repr)[:6], sorted(b_, key=repr)[:6]))
            for k in a:
                x, y = np.atleast_1d(np.asarray(a[k], dtype=float)), np.atleast_1d(np.asarray(b_[k], dtype=float))
                if x.shape != y.shape or np.any(np.abs(x - y) > 1e-14 * np.maximum(1e-300, np.abs(x))):
                    raise Violation(ID, "spreadsheet/state-values", "state of %r saved as %r but loaded back as %r" % (k, x.tolist(), y.tolist()))
            ps2 = ps3
        P2 = copy.deepcopy(P)
        P2.settings.update_time_vector(start=Y, end=spec["settings"]["end"], dt=spec["settings"]["dt"])
        try:
            res2, _ = simcase.two_step(P2, ps2, b["progset"], b["instructions"], name="restart")
        except Exception as e:
            raise Violation(ID, "restart-failed/%s" % type(e).__name__, "restart at %r failed: %s at %s" % (Y, str(e)[:300], simcase.atomica_frame(e)))
        try:
            # the restarted run may itself be ill-posed where its parent is not (a plain junction with zero proportions receives 1e-77
            # people in the restart and exactly 0 in the parent, because a stock that is exactly 0 in one run is 1e-70 in the other)
            oracles.check_finite_inputs(res2)
        except Discard as d_:
            inconclusive["restarted run is outside the domain although its parent is not (%s): rounding of the state decides" % d_.reason] = 1
            break
        t2 = np.asarray(res2.t, dtype=float)
        # each restart is compared with the tail of the run it was restarted from (the original for the first, the previous
        # restart for a restart of a restart), so rounding differences admitted at one stage do not accumulate along the chain
        parent = canon.result_arrays(cur_res)
        tpar = np.asarray(cur_res.t, dtype=float)
        if len(t2) != T - iY:
            raise Violation(ID, "restart-grid-length", "restart at index %d (Y=%r): %d points, the original tail has %d" % (iY, Y, len(t2), T - iY))
        bit_equal = np.array_equal(t2, tpar[local:])
        if not bit_equal and np.max(np.abs(t2 - tpar[local:])) > 1e-9:
            raise Violation(ID, "restart-grid", "restart grid %r differs from the tail of its parent run %r" % (t2[:4].tolist(), tpar[local : local + 4].tolist()))
        new = canon.result_arrays(res2)
        exact = bit_equal and not case["via_spreadsheet"]
        tail = {k: v[..., local:] for k, v in parent.items()}
        if set(tail) != set(new):
            raise Violation(ID, "tail-mismatch/keys", "restart has different variables: %r" % sorted(set(tail) ^ set(new), key=repr)[:4])
        timed = {(k[1], k[2]) for k in tail if k[0] == "bins"}
        control = None
        popmax = {}
        for k, v in tail.items():
            if k[0] == "comp" and v.size:
                popmax[k[1]] = max(popmax.get(k[1], 0.0), float(np.nanmax(np.abs(v))))
        for k in sorted(tail, key=repr):
            x, y = tail[k], new[k]
            if x.shape != y.shape:
                raise Violation(ID, "tail-mismatch/shape", "%s: original tail %r restarted %r" % (k, x.shape, y.shape))
            primary = k[0] == "bins" or (k[0] == "comp" and (k[1], k[2]) not in timed) or (k[0] == "link" and (k[1], k[2]) not in timed and "jg" not in k[2])
            nx, ny = np.isnan(x), np.isnan(y)
            if exact and primary:
                bad = ~((x == y) | (nx & ny))
                mode = "bitwise"
            else:
                # scale: size of the stock the quantity is derived from (differences of nearly equal numbers and re-ordered sums are exact only relative to that)
                # (parameters that are functions of the state inherit its absolute error, so they get the same scale; the strict
                # comparison of everything is the bitwise one on dyadic grids)
                S = max(popmax.get(k[1], 0.0), 1.0) if not exact else (1.0 if k[0] == "par" else max(popmax.get(k[1], 0.0), 1.0))
                rt = 1e-12 if exact else 1e-9
                with np.errstate(invalid="ignore"):
                    bad = (np.abs(x - y) > rt * np.maximum(S, np.maximum(np.abs(x), np.abs(y)))) & ~(nx & ny)
                    bad |= nx != ny
                    bad &= ~((x == y))
                mode = "%g" % rt
            if bad.any() and case["via_spreadsheet"] and not bad[..., :2].any():
                inconclusive["spreadsheet tail beyond one step differs by more than 1e-9 (amplified 1e-16 storage rounding)"] = 1
                continue
            if bad.any() and not exact and not bad[..., :2].any():
                # On a non-dyadic grid the restarted times differ from the parent's in the last bits, and a model may amplify that without
                # bound (weighted averages with vanishing weights, x**0.25 of a cancellation residue, branches).  The restart step itself
                # (offsets 0 and 1) is compared strictly; the full tail is decided bitwise on the dyadic grids (half of the cases).
                inconclusive["non-dyadic grid: tail beyond the restart step differs by more than 1e-9 (restart step itself agrees)"] = 1
                continue
            if bad.any() and not exact:
                # control experiment: restart from the same saved state perturbed in the last bits.  If that run differs from the parent
                # just as much, the model amplifies rounding (stiff feedback, x**0.25 of a cancellation residue...) and the mismatch is inconclusive
                if control is None:
                    # four deterministic perturbation patterns of the saved state in the last bits (-,0,+ in turn with three phases, and
                    # every entry up): a discontinuity that one pattern happens not to cross is crossed by another
                    control = []
                    for phase in (0, 1, 2, None):
                        ps_c = ps2.copy()
                        newvals = {}
                        for n_, (kk, vv) in enumerate(sorted(ps_c.initialization.values.items(), key=lambda kv: repr(kv[0]))):
                            arr = np.atleast_1d(np.asarray(vv, dtype=float))
                            eps = 4.4e-16 if phase is None else (((np.arange(arr.size) + n_ + phase) % 3) - 1) * 4.4e-16
                            arr = arr * (1.0 + eps)
                            newvals[kk] = float(arr[0]) if np.isscalar(vv) or np.ndim(vv) == 0 else arr
                        ps_c.initialization.values = newvals
                        try:
                            res_c, _ = simcase.two_step(P2, ps_c, b["progset"], b["instructions"], name="control")
                            control.append(canon.result_arrays(res_c))
                        except Exception:
                            pass
                hit = False
                for ctl in control:
                    yc = ctl.get(k)
                    if yc is not None and yc.shape == x.shape:
                        with np.errstate(invalid="ignore"):
                            # the 4e-16 perturbation is amplified by more than 2500x in this very quantity => ill-conditioned
                            badc = (np.abs(x - yc) > 1e-12 * np.maximum(np.abs(x), np.abs(yc))) & ~(np.isnan(x) & np.isnan(yc)) & bad
                        if badc.any():
                            hit = True
                            break
                if hit:
                    inconclusive["restart differs beyond tolerance where a control restart from the same state perturbed by 4e-16 deviates by more than 1e-12 (model amplifies rounding)"] = 1
                    continue
            if bad.any():
                i = int(np.argwhere(bad)[0][-1])
                raise Violation(ID, "tail-mismatch/%s%s" % (k[0], "/spreadsheet" if case["via_spreadsheet"] else ""), "restart at index %d (Y=%r, %s comparison): %s at offset %r: original %r, restarted %r" % (iY, Y, mode, k, i, x[..., i].tolist(), y[..., i].tolist()))
        rtol = 0.0 if exact else 1e-9
        labels.append("bitwise" if rtol == 0 else "tolerance")
        for pop in cur_res.model.pops:
            for c in pop.comps:
                if isinstance(c, TimedCompartment) and c._vals.shape[0] > 1 and np.count_nonzero(c._vals[:, local]) > 1:
                    nontrivial = True
                    labels.append("timed-bins-at-Y")
        if b["instructions"] is not None and b["instructions"].start_year <= Y <= b["instructions"].stop_year:
            nontrivial = True
            labels.append("programs-active-at-Y")
        cur_res, cur_ps, cur_offset = res2, ps2, iY
    return {"nontrivial": nontrivial, "labels": sorted(set(labels)), "inconclusive": inconclusive}
