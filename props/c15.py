"""C15 - optimisation and calibration never make things worse and leak nothing into the caller's objects.

One strategy, seven kinds of case (field "kind"), all on deep copies of the library projects tb_simple / udt / hypertension:

optimize                at.optimize (ASD) on a small budget problem.  The tap around Model.process hands every integrated model to
                        the harness' own objective arithmetic (vlib/c15_helpers.py), so the objective of the starting point, of every
                        evaluated point and of the returned instructions (re-simulated through Project.run_sim) is known independently.
                        returned <= start, returned <= every evaluated point, Measurable.get_objective_val / eval /
                        Optimization.compute_objective == own values, adjusted spending within the bounds, total spend kept, hard targets
                        met at the start are met at the end, nothing outside the adjusted (program, year) entries changed, the expected
                        InvalidInitialConditions / UnresolvableConstraint verdicts, caller's parset/progset/instructions/settings/data
                        canonically unchanged.
optimize-fault          the same problem with an iteration budget; after the reference run an InjectedFault is raised instead of the
                        k-th simulation for every k = 1..N; after every fault the caller's objects are canonically unchanged; a final
                        normal run reproduces the reference result.
calibrate               Project.calibrate on 1-3 adjustables with data targets: objective (own metric formulas) returned <= start and
                        <= every evaluated point, _calculate_objective == own value at the start, calibrated factors within their bounds,
                        the returned parset differs from the caller's only in the adjusted factors, caller state incl. settings.sim_end unchanged.
calibrate-fault         fault enumeration over the evaluations of a calibration.
unresolvable            an impossible total-spend constraint: UnresolvableConstraint before any simulation.
reconcile               at.reconcile: caller's progset/parset/settings unchanged after normal completion and after a fault in its only simulation.
objective-differential  Measurable classes (plain/Minimize/Maximize/AtMost/AtLeast/IncreaseBy/DecreaseBy) against own values on one run.
"""
import math
import numpy as np
from hypothesis import strategies as st
from vlib.runner import Violation, HarnessError, Discard
from vlib import c15_helpers as H

ID = "C15"
LEVEL = "fault_enumeration"
RULE = (
    "cases = kind optimize / optimize-fault (library models tb_simple, udt, hypertension; dt 1..0.1 incl. non-dyadic 0.3/0.2/0.1; 1-3 spending adjustments at 1-2 years, "
    "abs/rel bounds, explicit or inherited initial spend; allocation from progset / none / dict / two-point series; 1-2 Minimize/Maximize terms and 0-1 AtMost/AtLeast target over "
    "stocks, characteristics, parameters, 'par:flow' and 'src:dst' link flows and program spending, single simulation time or [low,high) period incl. inf and off-grid ends, "
    "with and without population selection; no / default / budget-factor / explicit total-spend constraint; maxiters 1..25 or maxtime; ASD randseed drawn), calibrate / calibrate-fault "
    "(1-3 y-factor adjustables per pop / all pops / meta factor, tuple and string forms, 1-3 data targets with metrics fractional/wape/meansquare, 0-3 extra data points, "
    "start year optionally moved off the dt grid; transfer y-factors in a two-population model; targets on 'Total' databook rows of number and rate quantities), optimize-sequence (2-3 at.optimize() calls "
    "on the SAME Optimization objects with scaled / other allocations, each judged against its own start and against a newly built Optimization), allocations that leave programs unfunded with hard targets "
    "relative to a zero baseline, unresolvable (total above/below the bounds), reconcile, objective-differential; fault kinds inject an exception at the k-th simulation "
    "for every k = 1..evaluations of the reference run; non-trivial = at least 2 accepted optimiser steps in the reference run, or at least one injected fault reached with "
    "1 <= k <= evaluations, or (optimize-sequence) a later call whose starting spend differs from the previous call's, or (objective-differential) a non-zero finite quantity over at least 2 time points or a proper population subset; distinct = distinct case hash"
)
ASSUMPTIONS = [
    "only the default ASD method is exercised (pso/hyperopt need packages that are not installed); generated ModelSpecs are not used: the problems live on deep copies of the library projects tb_simple, udt and hypertension",
    "'no worse' is judged on the objective the optimiser minimises: sum of weight*quantity terms plus inf/0 hard-target terms for at.optimize, sum of weight*metric terms for calibration; tolerance 1e-9 relative",
    "the starting point of at.optimize is the caller's instructions with the initial values of the adjustables applied and the constraints resolved (what optimize() evaluates first); its objective is computed by the harness from that model",
    "single measurable years are simulation time points (the docstring requires it); adjustables start inside their bounds unless the case is labelled invalid-initial (then InvalidInitialConditions is the expected answer)",
    "calibration: wape is taken as sum|fit-obs|/(mean(obs)+1e-6) as implemented (the docstring only names it); measurable pop 'Total' (needs an extra databook row) is not generated; data points lie inside the simulated period",
    "exceptions raised by the fault injection may propagate or be swallowed; in both cases the caller's objects must be unchanged. Objects other than parset/progset/instructions/project.settings/project.data (e.g. the caller's adjustables list, the Optimization object) are outside the statement",
    "canonical form skips only the declared metadata of vlib.canon.SKIP",
    "Project.run_optimization is dead code (optim_ins.make no longer exists) and is out of scope",
]
BUDGET = {"quick": 400, "thorough": 1600}  # thorough = 4x quick: a depth that was run to completion, quiet, at seed 1 (deterministic given the seed)
TIME_CAP = {"quick": 65, "thorough": 1500}
TOL = 1e-9
INF = math.inf

POPSEL = "measurable/population-selection-rejected"


# --------------------------------------------------------------------------- strategies


def _one_in(draw, n):
    """True with probability 1/n (st.integers over-samples its end points; sampled_from does not)"""
    return draw(st.sampled_from([False] * (n - 1) + [True]))


def _settings(draw, c, allow_shift):
    s = {"start": c["start"], "end": draw(st.sampled_from([2020.0, 2021.0, 2022.0, 2023.0])), "dt": draw(st.sampled_from([1.0, 0.5, 0.25, 0.25, 0.2, 0.3, 0.1]))}
    if allow_shift and _one_in(draw, 4):
        s["shift"] = draw(st.sampled_from([0.5, 0.3, 0.25, 0.1]))
    return s


def _pops(draw, c, p_sel=4):
    """None (all populations) most of the time, else a non-empty list of population names"""
    if not _one_in(draw, p_sel):
        return None
    pops = c["pops"]
    k = draw(st.integers(1, len(pops)))
    return sorted(draw(st.lists(st.sampled_from(pops), min_size=k, max_size=k, unique=True)), key=pops.index)


def _tspec(draw, s, from_year):
    n = H.grid_size(s["start"], s["end"], s["dt"])
    if draw(st.booleans()):
        k0 = min(n - 1, max(0, int(math.ceil((from_year - s["start"]) / s["dt"] - 1e-9))))
        return {"idx": draw(st.one_of(st.integers(k0, n - 1), st.integers(min(n - 1, k0 + int(round(1.0 / s["dt"]))), n - 1)))}
    lo = from_year + draw(st.sampled_from([0.0, 0.0, 1.0, 0.5, 0.13, -1.0]))
    hi = draw(st.sampled_from(["inf", "inf", lo + 1.0, lo + 2.0, lo + 0.5, lo + 2.37, s["end"]]))
    if hi != "inf" and hi <= lo:
        hi = "inf"
    return {"range": [lo, hi]}


def _quantity(draw, c, spend=True):
    kind = draw(st.sampled_from(["charac", "charac", "comp", "par", "flow", "flow", "link"] + (["spend"] if spend else [])))
    if kind == "spend":
        return draw(st.sampled_from([p for p, _ in c["progs"]]))
    return draw(st.sampled_from(c[{"charac": "characs", "comp": "comps", "par": "pars", "flow": "flows", "link": "links"}[kind]]))


def _hard_target(draw, c, s, from_year, zero_progs=()):
    zero_case = bool(zero_progs) and not _one_in(draw, 4)
    cls = draw(st.sampled_from(["decby", "decby", "decby", "incby"] if zero_case else ["atmost", "atleast", "incby", "decby", "decby"]))
    m = {"cls": cls}
    if cls in ("atmost", "atleast"):
        m["name"] = _quantity(draw, c, spend=False)
        m["thr"] = draw(st.sampled_from([1.0, 1.001, 1.05, 2.0, 0.9] if cls == "atmost" else [1.0, 0.999, 0.95, 0.5, 1.1]))
    else:
        # relative to the value under the caller's instructions; with unfunded programs that value is exactly 0 for their spending and for the flows only they drive
        m["name"] = draw(st.sampled_from(list(zero_progs) * 3 + c["flows"])) if zero_case else _quantity(draw, c)
        m["target_type"] = draw(st.sampled_from(["frac", "frac", "frac", "abs"]))
        m["amount"] = draw(st.sampled_from([0.0, 0.0, 0.0, 0.001, 0.05, 0.5]))
    spend = m["name"] in [p for p, _ in c["progs"]]
    m["t"] = _tspec(draw, s, from_year)
    m["pops"] = None if spend else _pops(draw, c)
    return m


def _measurables(draw, c, s, from_year, zero_progs=()):
    out = []
    for _ in range(draw(st.sampled_from([1, 1, 2]))):
        name = _quantity(draw, c)
        spend = name in [p for p, _ in c["progs"]]
        out.append({"cls": "min" if spend else draw(st.sampled_from(["min", "max"])), "name": name, "t": _tspec(draw, s, from_year), "pops": None if spend else _pops(draw, c)})
    if _one_in(draw, 3) or (zero_progs and not _one_in(draw, 3)):
        out.append(_hard_target(draw, c, s, from_year, zero_progs))
    return out


def _alloc(draw, c, start_year):
    """allocation of the caller's instructions: copied from the progset / absent / one value per program / time series whose values
    differ between the years (mode 'series': in the instructions, mode 'book': in the program book's spending data, no overwrite)"""
    mode = draw(st.sampled_from(["progset", "progset", "none", "dict", "unfunded", "unfunded", "unfunded", "series", "series", "series", "book"]))
    vals = {}
    if mode == "dict":
        for p, v in c["progs"]:
            if not _one_in(draw, 4):
                vals[p] = [[start_year], [v * draw(st.sampled_from([0.5, 1.0, 1.0, 2.0]))]]
    elif mode == "unfunded":
        # a non-empty proper subset of the programs gets nothing at the start: their spending, and every flow only they drive, is exactly 0 under the caller's instructions
        names = [p for p, _ in c["progs"]]
        zeros = draw(st.lists(st.sampled_from(names), min_size=1, max_size=len(names) - 1, unique=True))
        for p, v in c["progs"]:
            vals[p] = [[start_year], [0.0 if p in zeros else v * draw(st.sampled_from([1.0, 1.0, 2.0]))]]
    elif mode in ("series", "book"):
        k = draw(st.sampled_from([1, 2, 2, 3]))
        for p, v in draw(st.lists(st.sampled_from(c["progs"]), min_size=k, max_size=k, unique=True)):
            ts = sorted(draw(st.lists(st.sampled_from([start_year, start_year + 1.0, start_year + 2.0]), min_size=2, max_size=3, unique=True)))
            fs = draw(st.permutations([0.5, 1.0, 2.0, 1.5]))[: len(ts)]  # pairwise different values
            vals[p] = [ts, [v * f for f in fs]]
    return {"mode": mode, "vals": vals}


def _current(c, alloc, start_year, prog, t):
    """spending on prog at t under the drawn allocation (same rule as helpers.own_spend)"""
    spend0 = dict(c["progs"])[prog]
    if alloc["mode"] == "progset":
        return spend0  # ProgramInstructions(alloc=progset) copies the program book value at the start year
    if prog in alloc["vals"]:
        tp, vp = alloc["vals"][prog]
        return H.step_value(tp, vp, t)
    return spend0


def _adjustments(draw, c, alloc, start_year, finite=False):
    progs = [p for p, _ in c["progs"]]
    k = draw(st.sampled_from([1, 2, 2, 2, 3]))
    chosen = draw(st.lists(st.sampled_from(progs), min_size=k, max_size=k, unique=True))
    varying = [p for p in progs if alloc["mode"] in ("series", "book") and p in alloc["vals"]]
    if varying and not _one_in(draw, 5):
        chosen = (varying + [p for p in chosen if p not in varying])[:k]  # programs whose starting spend changes over time come first
    unfunded = [p for p in progs if alloc["mode"] in ("dict", "unfunded") and p in alloc["vals"] and alloc["vals"][p][1][0] == 0.0]
    if unfunded:
        k = max(k, 2)
        funded = [p for p in chosen if p not in unfunded] or [p for p in progs if p not in unfunded][:1]
        chosen = (unfunded[:1] + funded + unfunded[1:])[:k]  # an unfunded program that can be funded, next to a funded one
    all_years = [start_year, start_year + 1.0, start_year + 2.0]
    shared = sorted(draw(st.lists(st.sampled_from(all_years), min_size=1, max_size=3, unique=True)))
    adj = []
    for p in chosen:
        if p in varying and not _one_in(draw, 4):
            years = [float(t) for t in alloc["vals"][p][0]]  # one adjustment over the years in which the starting spend differs
        elif not _one_in(draw, 4):
            years = shared
        else:
            years = sorted(draw(st.lists(st.sampled_from(all_years), min_size=1, max_size=3, unique=True)))
        limit = "abs" if p in unfunded else draw(st.sampled_from(["abs", "rel"] if p in varying else ["abs", "abs", "rel"]))
        lower, upper, initial = [], [], []
        for t in years:
            cur = _current(c, alloc, start_year, p, t)
            fl = draw(st.sampled_from([0.0, 0.0, 0.5, 0.9, 1.0]))
            fu = draw(st.sampled_from(([] if finite else ["inf", "inf"]) + [1.0, 1.1, 1.5, 3.0]))
            g = draw(st.sampled_from([None, None, None, None, "lo", "one", "hi"]))
            if cur == 0:
                lower.append(0.0)
                upper.append("inf" if fu == "inf" else dict(c["progs"])[p] * fu)  # nothing is spent: bounds on the scale of the program book spend
                initial.append(None)
                continue
            if _one_in(draw, 40):
                fl = 1.25  # deliberately outside: InvalidInitialConditions expected
            init = None
            if g is not None:
                init = cur * {"lo": max(fl, 0.8), "one": 1.0, "hi": 1.2 if fu == "inf" else min(fu, 1.2)}[g]
            if limit == "abs":
                lower.append(cur * fl)
                upper.append("inf" if fu == "inf" else cur * fu)
            else:
                lower.append(fl)
                upper.append(fu)
            initial.append(init)
        adj.append({"prog": p, "t": years, "limit": limit, "lower": lower, "upper": upper, "initial": initial})
    return adj


def _budget(draw, small):
    if small:
        return {"maxiters": draw(st.integers(1, small)), "via": draw(st.sampled_from(["opt", "args"]))}
    if _one_in(draw, 6):
        return {"maxtime": draw(st.sampled_from([0.0, 0.01, 0.05]))}
    return {"maxiters": draw(st.sampled_from([1, 2, 3, 5, 8, 12, 12, 18, 18, 25, 25, 25])), "via": draw(st.sampled_from(["opt", "args"]))}


@st.composite
def optimize_cases(draw, kind, fault_iters=6):
    cat = H.catalogue()
    model = draw(st.sampled_from(H.MODELS))
    c = cat[model]
    s = _settings(draw, c, False)
    start_year = draw(st.sampled_from([2017.0, 2018.0, 2018.0, 2019.0]))
    alloc = _alloc(draw, c, start_year)
    adj = _adjustments(draw, c, alloc, start_year, finite=(kind == "unresolvable"))
    case = {"kind": kind, "model": model, "settings": s, "start_year": start_year, "alloc": alloc, "adj": adj}
    years = sorted(set(t for a in adj for t in a["t"]))
    if kind == "unresolvable":
        t = draw(st.sampled_from(years))
        rows = [r for r in _rows_pure(c, case) if r["t"] == t]
        slo, shi = math.fsum(r["lo"] for r in rows), math.fsum(r["hi"] for r in rows)
        eps = draw(st.sampled_from([0.5, 0.1, 1e-3, 1e-6]))
        side = draw(st.sampled_from(["above", "below"])) if slo > 0 else "above"
        how = draw(st.sampled_from(["total", "factor"]))
        target = shi * (1 + eps) if side == "above" else slo * (1 - eps)
        cur = math.fsum(r["x0"] for r in rows)
        if how == "total" or cur == 0:
            case["con"] = {"t": [t], "total": [target], "bf": 1.0}
        else:
            case["con"] = {"t": [t], "total": None, "bf": target / cur}
        case["meas"] = [{"cls": "max", "name": c["characs"][-1], "t": {"range": [start_year, "inf"]}, "pops": None}]
        case["budget"] = {"maxiters": 2, "via": "opt"}
        case["randseed"] = draw(st.integers(0, 1000))
        return case
    ck = draw(st.sampled_from(["none", "none", "default", "default", "default", "bf", "explicit"]))
    if ck == "none":
        case["con"] = None
    elif ck == "default":
        case["con"] = {"t": None, "total": None, "bf": 1.0}
    elif ck == "bf":
        case["con"] = {"t": None, "total": None, "bf": draw(st.sampled_from([0.8, 0.95, 1.05, 1.2]))}
    else:
        ty = sorted(draw(st.lists(st.sampled_from(years), min_size=1, max_size=len(years), unique=True)))
        rows = _rows_pure(c, case)
        tot = [None if draw(st.booleans()) else math.fsum(r["x0"] for r in rows if r["t"] == t) * draw(st.sampled_from([0.9, 1.0, 1.1])) for t in ty]
        case["con"] = {"t": ty, "total": tot, "bf": 1.0}
    rows = _rows_pure(c, case)
    if case["con"] is not None and any(math.fsum(r["x0"] for r in rows if r["t"] == t) == 0 for t in set(r["t"] for r in rows)):
        case["con"] = None  # a total of zero cannot be redistributed (division by the total): outside the domain
    zero_progs = sorted(set(r["prog"] for r in rows if r["cur"] == 0))
    case["meas"] = _measurables(draw, c, s, min(years), zero_progs)  # mostly after the first adjusted year, so that the objective can respond
    case["budget"] = _budget(draw, small=(fault_iters if kind == "optimize-fault" else (8 if kind == "optimize-sequence" else 0)))
    if kind == "optimize-sequence":
        # the same Optimization is used again with other instructions: scaled allocation (budget scenarios) or another allocation altogether;
        # limits that make sense for every starting point: relative ones, or [0, inf)
        for a in adj:
            if a["limit"] == "abs":
                a["lower"], a["upper"] = [0.0] * len(a["t"]), ["inf"] * len(a["t"])
        steps = []
        for _ in range(draw(st.sampled_from([1, 1, 2]))):
            steps.append({"scale": draw(st.sampled_from([3.0, 2.0, 0.5, 1.5, 1.0]))} if not _one_in(draw, 4) else {"alloc": _alloc(draw, c, start_year)})
        case["steps"] = steps
    case["randseed"] = draw(st.integers(0, 2**31 - 1))
    if _one_in(draw, 4):
        case["stepsize"] = draw(st.sampled_from([0.3, 0.5, 0.05]))
    return case


@st.composite
def calibrate_cases(draw, kind, fault_iters=6):
    cat = H.catalogue()
    model = draw(st.sampled_from(H.CAL_MODELS + (H.TRANSFER_MODEL,)))
    c = cat[model]
    s = _settings(draw, c, min(d[2] for d in c["data"]) >= c["start"] + 0.5)  # the moved start year must stay before the first data point
    dvars = c["data"]
    k = draw(st.sampled_from([1, 1, 2, 3]))
    chosen = draw(st.lists(st.sampled_from(dvars), min_size=k, max_size=k, unique_by=lambda d: d[0]))
    transfer = draw(st.sampled_from(c["transfers"])) if (c["transfers"] and not _one_in(draw, 4)) else None
    if transfer is not None and not _one_in(draw, 3):
        # the size of the receiving population is what a transfer rate moves
        chosen = [d for d in dvars if d[0] == "all_people" and d[1] == transfer[1]][:1] + [d for d in chosen if d[0] != "all_people"][: k - 1]
    string_meas = _one_in(draw, 10)
    meas = []
    for q, pn, _, _ in chosen:
        if string_meas:
            meas.append(q)
            continue
        pop = pn if not _one_in(draw, 3) else None
        metric = draw(st.sampled_from(["fractional"] * 4 + ["wape"] * 3 + ["meansquare"] * 2))
        meas.append([q, pop, draw(st.sampled_from([1.0, 1.0, 0.5, 2.0])), metric])
    # adjustables: mostly the factor of a measured quantity itself (its data can then be approached), plus unrelated ones
    coupled = not _one_in(draw, 4)
    n = draw(st.sampled_from([1, 2, 2, 3]))
    others = draw(st.lists(st.sampled_from(c["ypars"]), min_size=n, max_size=n, unique=True))
    pars = ([chosen[0][0]] + [p for p in others if p != chosen[0][0]])[:n] if coupled else others
    string_adj = _one_in(draw, 10)
    adj, y0 = [], []
    if transfer is not None:
        # a transfer is adjusted as ('<code>_from_<source pop>', '<destination pop>', low, high)
        adj.append([transfer[0], transfer[1], draw(st.sampled_from([0.1, 0.5])), draw(st.sampled_from([2.0, 5.0]))])
        if _one_in(draw, 4):
            y0.append([transfer[0], transfer[1], draw(st.sampled_from([0.8, 1.3]))])
        if coupled and _one_in(draw, 2):
            pars = []
    for i, p in enumerate(pars):
        if string_adj:
            adj.append(p)
            continue
        pk = draw(st.sampled_from(["pop", "pop", "pop", "none", "all"]))
        pop = (chosen[0][1] if (coupled and i == 0) else draw(st.sampled_from(c["pops"]))) if pk == "pop" else (None if pk == "none" else "all")
        lo = draw(st.sampled_from([0.1, 0.5] if (coupled and i == 0) else [0.1, 0.5, 0.9, 1.0]))
        hi = draw(st.sampled_from([2.0, 5.0] if (coupled and i == 0) else [1.0, 1.1, 2.0, 5.0]))
        adj.append([p, pop, lo, hi])
        if _one_in(draw, 4) and pop is not None and not (coupled and i == 0):
            y0.append([p, pop, draw(st.sampled_from([max(lo, 0.8), min(hi, 1.3), lo, hi]))])
    targets = []
    for i in range(draw(st.sampled_from([1, 1, 2, 3] if coupled else [0, 1, 2, 3]))):
        q, pn, t0, _ = chosen[0] if i == 0 else draw(st.sampled_from(chosen))
        t = draw(st.sampled_from([x for x in (2016.5, 2017.0, 2018.0) if x != t0]))
        targets.append([q, pn, t, draw(st.sampled_from([0.7, 0.9, 1.1, 1.5]))])
    case = {"kind": kind, "model": model, "settings": s, "adj": adj, "y0": y0, "meas": meas, "targets": targets, "randseed": draw(st.integers(0, 2**31 - 1))}
    if c["total_vars"] and not string_meas and not _one_in(draw, 3):
        # aggregate data: an extra 'Total' row in the quantity's databook table, compared with the model output aggregated over all populations
        # (sum for numbers, population average for rates / probabilities / fractions / proportions)
        rows = {}
        averaged = [v for v in c["total_vars"] if v[1] == "average"]
        for _ in range(draw(st.sampled_from([1, 1, 2]))):
            q, _k = draw(st.sampled_from(averaged)) if (averaged and not _one_in(draw, 3)) else draw(st.sampled_from(c["total_vars"]))
            if q in rows:
                continue
            ts = sorted(draw(st.lists(st.sampled_from([2016.0, 2016.5, 2017.0, 2018.0]), min_size=1, max_size=3, unique=True)))
            rows[q] = [[t, draw(st.sampled_from([0.7, 0.9, 1.0, 1.1, 1.5]))] for t in ts if t >= s["start"] + (s.get("shift") or 0.0)] or [[2018.0, 1.1]]
            meas.append([q, "Total", draw(st.sampled_from([1.0, 0.5, 2.0])), draw(st.sampled_from(["fractional", "fractional", "wape", "meansquare"]))])
            if _one_in(draw, 2) and not string_adj and q in c["ypars"] and all(a[0] != q for a in adj):
                adj.append([q, draw(st.sampled_from(c["pops"] + [None])), 0.1, 5.0])  # a factor that moves the aggregate
        case["total_rows"] = rows
    if kind == "calibrate-fault":
        case["budget"] = {"maxiters": draw(st.integers(1, fault_iters))}
    elif _one_in(draw, 5):
        case["budget"] = {"max_time": draw(st.sampled_from([0.0, 0.01, 0.05]))}
    else:
        case["budget"] = {"maxiters": draw(st.sampled_from([1, 2, 3, 5, 8, 12, 12, 18, 18, 25, 25, 25]))}
    return case


@st.composite
def reconcile_cases(draw):
    cat = H.catalogue()
    model = draw(st.sampled_from(H.MODELS))
    c = cat[model]
    s = _settings(draw, c, True)
    b = {k: draw(st.sampled_from([0.0, 0.0, 0.1, 0.3])) for k in ("unit_cost_bounds", "baseline_bounds", "capacity_bounds", "outcome_bounds")}
    if not any(b.values()):
        b["unit_cost_bounds"] = 0.2
    year = draw(st.sampled_from([2017.0, 2018.0, 2019.0]))
    er = None if draw(st.booleans()) else [year, year + draw(st.sampled_from([1.0, 2.0]))]
    return {"kind": "reconcile", "model": model, "settings": s, "year": year, "bounds": b, "eval_range": er, "max_time": draw(st.sampled_from([0.02, 0.1]))}


@st.composite
def differential_cases(draw):
    cat = H.catalogue()
    model = draw(st.sampled_from(H.MODELS))
    c = cat[model]
    s = _settings(draw, c, False)
    start_year = draw(st.sampled_from([2017.0, 2018.0, 2019.0]))
    alloc = _alloc(draw, c, start_year)
    base_alloc = _alloc(draw, c, start_year)  # the 'original instructions' that relative targets refer to (may leave programs unfunded)
    zero_progs = [p for p, tv in base_alloc["vals"].items() if base_alloc["mode"] in ("dict", "unfunded") and tv[1][0] == 0.0]
    meas = []
    for _ in range(draw(st.integers(1, 4))):
        if zero_progs and _one_in(draw, 2):
            meas.append(_hard_target(draw, c, s, start_year, zero_progs))
            continue
        cls = draw(st.sampled_from(["plain", "min", "max", "atmost", "atleast", "incby", "decby"]))
        name = _quantity(draw, c, spend=cls in ("plain", "min", "max", "incby", "decby"))
        spend = name in [p for p, _ in c["progs"]]
        m = {"cls": cls, "name": name, "t": _tspec(draw, s, start_year), "pops": None if spend else _pops(draw, c, 2)}
        if cls == "plain":
            m["weight"] = draw(st.sampled_from([1.0, -1.0, 0.5, 3.0]))
        elif cls in ("atmost", "atleast"):
            m["thr"] = draw(st.sampled_from([0.5, 0.99, 1.0, 1.01, 2.0]))
        elif cls in ("incby", "decby"):
            m["target_type"] = draw(st.sampled_from(["frac", "frac", "abs"]))
            m["amount"] = draw(st.sampled_from([0.0, 0.001, 0.01, 0.05, 0.5]))
        meas.append(m)
    return {"kind": "objective-differential", "model": model, "settings": s, "start_year": start_year, "alloc": alloc, "base_alloc": base_alloc, "meas": meas}


def strategy(tier):
    k = 6 if tier == "quick" else 12  # largest iteration budget of the fault-enumeration problems (the cost is quadratic in it)
    return st.one_of(
        optimize_cases("optimize"),
        optimize_cases("optimize"),
        optimize_cases("optimize"),
        optimize_cases("optimize-fault", k),
        optimize_cases("optimize-fault", k),
        optimize_cases("optimize-sequence"),
        optimize_cases("optimize-sequence"),
        calibrate_cases("calibrate"),
        calibrate_cases("calibrate"),
        calibrate_cases("calibrate-fault", k),
        calibrate_cases("calibrate-fault", k),
        optimize_cases("unresolvable"),
        reconcile_cases(),
        differential_cases(),
    )


# --------------------------------------------------------------------------- shared pieces of the checks


def _dec(v):
    return INF if v == "inf" else float(v)


def _rows_pure(c, case):
    """one row per adjustable (adjustment order, then year): prog, t, x0, lo, hi - from the case data alone"""
    rows = []
    for a in case["adj"]:
        for j, t in enumerate(a["t"]):
            cur = _current(c, case["alloc"], case["start_year"], a["prog"], t)
            x0 = cur if a["initial"][j] is None else float(a["initial"][j])
            lo, hi = float(a["lower"][j]), _dec(a["upper"][j])
            if a["limit"] == "rel":
                lo, hi = x0 * lo, x0 * hi
            rows.append({"prog": a["prog"], "t": float(t), "x0": x0, "lo": lo, "hi": hi, "cur": cur})
    return rows


def _instructions(at, case, pg):
    a = case["alloc"]
    if a["mode"] == "progset":
        return at.ProgramInstructions(start_year=case["start_year"], alloc=pg)
    if a["mode"] == "book":
        for p, tv in a["vals"].items():  # time-varying spending data in the (copied) program book, no overwrite in the instructions
            pg.programs[p].spend_data = at.TimeSeries(t=list(tv[0]), vals=[float(x) for x in tv[1]], units=pg.programs[p].spend_data.units)
        return at.ProgramInstructions(start_year=case["start_year"])
    alloc = {p: at.TimeSeries(t=list(tv[0]), vals=[float(x) for x in tv[1]]) for p, tv in a["vals"].items()}
    return at.ProgramInstructions(start_year=case["start_year"], alloc=alloc or None)


def _constraint_model(case, rows):
    """({year: required total}, infeasible, borderline) from the case data alone; borderline = a sum of bounds equals the total
    up to rounding (the code accumulates the sums in another order, so equality can round either way)"""
    con = case["con"]
    if con is None:
        return {}, False, False
    years = sorted(set(r["t"] for r in rows))
    use = years if con["t"] is None else [float(t) for t in con["t"]]
    totals, infeasible, borderline = {}, False, False
    for t in use:
        rs = [r for r in rows if r["t"] == t]
        idx = None if con["t"] is None else [float(x) for x in con["t"]].index(t)
        given = None if (con["total"] is None or idx is None) else con["total"][idx]
        base = math.fsum(r["x0"] for r in rs) if given is None else float(given)
        bf = con["bf"][idx] if isinstance(con["bf"], list) else con["bf"]
        totals[t] = base * float(bf)
        slo, shi = math.fsum(r["lo"] for r in rs), math.fsum(r["hi"] for r in rs)
        if slo > totals[t] or shi < totals[t]:
            infeasible = True
        for edge in (slo, shi):
            if math.isfinite(edge) and abs(edge - totals[t]) <= 1e-12 * max(abs(edge), abs(totals[t])):
                borderline = True
    return totals, infeasible, borderline


def _build_optimization(at, case, meas, tvec):
    adjustments = []
    one = lambda l: l[0] if len(l) == 1 else list(l)  # noqa: E731
    for a in case["adj"]:
        init = None if all(v is None for v in a["initial"]) else one([None if v is None else float(v) for v in a["initial"]])
        adjustments.append(at.SpendingAdjustment(a["prog"], one([float(t) for t in a["t"]]), a["limit"], one([float(v) for v in a["lower"]]), one([_dec(v) for v in a["upper"]]), init))
    measurables = [H.make_measurable(at, m, tvec) for m in meas]
    con = case["con"]
    constraints = None if con is None else at.TotalSpendConstraint(total_spend=con["total"], t=con["t"], budget_factor=con["bf"])
    b = case["budget"]
    kw, optim_args = {}, {"randseed": int(case["randseed"])}
    if "maxtime" in b:
        kw["maxtime"] = b["maxtime"]
    elif b.get("via") == "opt":
        kw["maxiters"] = b["maxiters"]
    else:
        optim_args["maxiters"] = b["maxiters"]
    if "stepsize" in case:
        optim_args["stepsize"] = case["stepsize"]
    return at.Optimization("c15", adjustments=adjustments, measurables=measurables, constraints=constraints, **kw), optim_args


def _state_check(snap0, P, objs, phase, desc):
    d = H.snapshot_diff(snap0, H.snapshot(P, **objs))
    if d is not None:
        what, detail = d
        bucket = "settings/sim_end-not-restored" if what == "settings" else "caller-state/%s" % what
        raise Violation(ID, bucket, "%s changed (%s): %s; %s" % (what, phase, detail, desc))


def _pop_selection_defect(e, meas, c):
    """the documented population filter (list of names) rejected although every name is a population in which the quantity exists"""
    if type(e) is Exception and "not found in any populations" in str(e):
        return any(m.get("pops") and all(p in c["pops"] for p in m["pops"]) for m in meas)
    return False


def _accepted(values):
    """number of accepted (strictly improving) steps in a sequence of objective values starting with the start point"""
    best, n = values[0], 0
    for v in values[1:]:
        if v < best:
            best, n = v, n + 1
    return n


def _le(a, b):
    """a <= b up to 1e-9 relative (inf == inf)"""
    if a == b:
        return True
    if math.isnan(a) or math.isnan(b):
        return False
    return a <= b + TOL * max(1.0, abs(a), abs(b))


def _close(a, b):
    if a == b or (math.isnan(a) and math.isnan(b)):
        return True
    return abs(a - b) <= TOL * max(1.0, abs(a), abs(b))


# --------------------------------------------------------------------------- optimize / optimize-fault / unresolvable


def _run_optimize(at, case, P, ps, pg, inst, meas, fail_at=None, record=True, reuse=None):
    opt, optim_args = reuse if reuse is not None else _build_optimization(at, case, meas, P.settings.tvec)
    flags = []

    def rec(model):
        flags.append(H.any_borderline(model, meas))
        return H.own_objective(model, meas)

    res = {"opt": opt, "flags": flags}
    with H.Tap(fail_at=fail_at, record=rec if record else None) as tap:
        try:
            res["out"] = at.optimize(P, opt, ps, pg, inst, optim_args=optim_args)
            res["outcome"] = "ok"
        except H.InjectedFault as e:
            res.update(outcome="fault", exc=e)
        except at.InvalidInitialConditions as e:
            res.update(outcome="invalid", exc=e)
        except at.UnresolvableConstraint as e:
            res.update(outcome="unresolvable", exc=e)
        except Exception as e:  # noqa
            res.update(outcome="error", exc=e)
    res.update(n=tap.n, values=tap.values, fired=tap.fired)
    return res


def _alloc_table(inst):
    return {k: dict(zip([float(t) for t in ts.t], [float(v) for v in ts.vals])) for k, ts in inst.alloc.items()}


def _check_optimize(case, shared=None):
    """shared (optimize-sequence): {'step': i, 'opt': (Optimization, optim_args) built at step 0 and used again by every later call, 'meas': specs with the thresholds baked into those objects}"""
    at = H.at_mod()
    kind = case["kind"]
    c = H.catalogue()[case["model"]]
    P, ps, pg = H.fresh(case["model"], case["settings"])
    inst = _instructions(at, case, pg)
    tvec = np.array(P.settings.tvec)
    rows = _rows_pure(c, case)
    desc = "case %r" % (case,)
    labels = ["kind:" + kind, "model:" + case["model"], "dt:%g" % case["settings"]["dt"], "alloc:" + case["alloc"]["mode"], "adjustables:%d" % len(rows)]
    labels.append("constraint:" + ("none" if case["con"] is None else ("explicit" if case["con"]["t"] is not None else ("budget-factor" if case["con"]["bf"] != 1.0 else "default"))))
    for r in rows:  # harness self-check: the generator's idea of the current spending is what the objects say
        cur = H.own_spend(pg, inst, r["prog"], r["t"])
        if not _close(cur, r["cur"]):
            raise HarnessError("current spend of %s at %r: generator %r objects %r" % (r["prog"], r["t"], r["cur"], cur))
    invalid_bounds = any(r["x0"] < r["lo"] or r["x0"] > r["hi"] for r in rows)
    totals, infeasible, borderline = _constraint_model(case, rows)

    # thresholds of hard targets are given relative to the value at the caller's point
    base = P.run_sim(ps, pg, inst, store_results=False)
    meas = []
    for j, m in enumerate(case["meas"]):
        m = dict(m)
        labels.append("measurable:%s/%s/%s%s" % (m["cls"], _qkind(c, m["name"]), "year" if "idx" in m["t"] else "period", "/pops" if m.get("pops") else ""))
        if m["cls"] in ("atmost", "atleast"):
            if shared is not None and shared.get("meas"):
                m["threshold"] = shared["meas"][j]["threshold"]  # absolute thresholds live in the measurable objects that are used again
            else:
                m["threshold"] = float(m["thr"]) * H.own_quantity(base.model, m["name"], m["t"], m.get("pops"))
        elif m["cls"] in ("incby", "decby"):
            m["base"] = H.own_quantity(base.model, m["name"], m["t"], m.get("pops"))  # the value under the caller's original instructions
            if m["base"] == 0:
                labels.append("relative-target-on-zero-baseline")
        meas.append(m)
    f_caller = H.own_objective(base.model, meas)

    objs = {"parset": ps, "progset": pg, "instructions": inst}
    snap0 = H.snapshot(P, **objs)

    # ---- the initial values and bounds the optimiser starts from: per (program, year) the spend of the caller's instructions in THAT year
    if len(set(r["cur"] for r in rows)) > 1 and any(sum(1 for r in rows if r["prog"] == q["prog"]) > 1 and any(r["cur"] != q["cur"] for r in rows if r["prog"] == q["prog"]) for q in rows):
        labels.append("start-spend-differs-between-adjusted-years")
    reuse = None
    if shared is not None:
        if shared.get("opt") is None:
            shared["opt"] = _build_optimization(at, case, meas, tvec)
            shared["meas"] = meas
        reuse = shared["opt"]  # the very same Optimization / Adjustment / Measurable objects in every call of the sequence
    try:
        x0, xmin, xmax = (reuse or _build_optimization(at, case, meas, tvec))[0].get_initialization(pg, inst)
        got_invalid = False
    except at.InvalidInitialConditions:
        got_invalid = True
    if got_invalid != invalid_bounds:
        raise Violation(ID, "initialization/values-differ-from-instructions", "get_initialization raised InvalidInitialConditions=%s but per (program, year) the instructions' spend and bounds are %r; %s" % (got_invalid, [(r["prog"], r["t"], r["x0"], r["lo"], r["hi"]) for r in rows], desc))
    if not got_invalid:
        for i, r in enumerate(rows):
            for nm, got, exp in (("initial value", x0[i], r["x0"]), ("lower bound", xmin[i], r["lo"]), ("upper bound", xmax[i], r["hi"])):
                if not _close(float(got), exp):
                    raise Violation(ID, "initialization/values-differ-from-instructions", "%s of %s in %r is %r, the caller's instructions give %r (spend in that year %r); %s" % (nm, r["prog"], r["t"], float(got), exp, r["cur"], desc))
    _state_check(snap0, P, objs, "after get_initialization", desc)
    ref = _run_optimize(at, case, P, ps, pg, inst, meas, reuse=reuse)
    n_ref = ref["n"]
    phase = "after %s" % ref["outcome"]
    _state_check(snap0, P, objs, phase, desc)
    labels.append("outcome:" + ref["outcome"])

    if ref["outcome"] == "error":
        e = ref["exc"]
        if _pop_selection_defect(e, meas, c):
            raise Violation(ID, POPSEL, "at.optimize with a measurable restricted to populations %r ended in %r although these are population names of the model; %s" % ([m.get("pops") for m in meas if m.get("pops")], e, desc))
        if isinstance(e, AssertionError) and "has a total of nan" in str(e):
            # a total-spend constraint whose required total is 0 (every adjusted program unfunded: the rescaling divides by the total), or a
            # relative bound [0, inf) on an unfunded program (0 x inf): the request is degenerate and the failure is signalled by an
            # assertion (C14 decides constraint handling), so it is outside C15's domain
            raise Discard("total-spend constraint on a degenerate request (required total 0, or 0 x inf relative bound): refused by an assertion")
        raise Violation(ID, "optimize/crash/" + type(e).__name__, "at.optimize ended in %r; %s" % (e, desc))

    if kind == "unresolvable" or ref["outcome"] == "unresolvable" or (infeasible and not invalid_bounds):
        if invalid_bounds:
            return {"nontrivial": False, "labels": labels + ["invalid-initial"]}
        if borderline:
            return {"nontrivial": False, "labels": labels + ["feasibility-borderline(rounding)"]}
        if (ref["outcome"] == "unresolvable") != infeasible:
            raise Violation(ID, "unresolvable-verdict", "UnresolvableConstraint raised=%s but required totals %r with bounds %r are %s; %s" % (ref["outcome"] == "unresolvable", totals, [(r["prog"], r["t"], r["lo"], r["hi"]) for r in rows], "infeasible" if infeasible else "feasible", desc))
        if n_ref != 0:
            raise Violation(ID, "unresolvable/simulated-before-rejecting", "%d simulations were run before UnresolvableConstraint was raised; %s" % (n_ref, desc))
        return {"nontrivial": True, "labels": labels + ["unresolvable-before-any-simulation"]}

    if any(ref["flags"]):
        # a hard target was within rounding of its threshold at some evaluated point: the optimiser's accept/reject decisions cannot be predicted
        return {"nontrivial": False, "labels": labels + ["inconclusive:hard-target-within-rounding-of-threshold"], "inconclusive": {"hard-target-borderline": 1}}

    # ---- InvalidInitialConditions verdict
    f_start = ref["values"][1] if len(ref["values"]) > 1 else None
    if ref["outcome"] == "invalid":
        ok = (invalid_bounds and n_ref == 0) or (not invalid_bounds and n_ref == 2 and f_start is not None and not math.isfinite(f_start))
        if not ok:
            raise Violation(ID, "invalid-initial-verdict", "InvalidInitialConditions (%s) after %d simulations, but the adjustables start inside their bounds=%s and the start objective is %r; %s" % (ref["exc"], n_ref, not invalid_bounds, f_start, desc))
        return {"nontrivial": False, "labels": labels + ["invalid-initial:" + ("bounds" if invalid_bounds else "hard-target-unmet-at-start")]}
    if invalid_bounds or f_start is None or not math.isfinite(f_start):
        raise Violation(ID, "invalid-initial-verdict", "at.optimize returned although %s; %s" % ("an adjustable starts outside its bounds" if invalid_bounds else "the start objective is %r" % f_start, desc))

    # ---- the starting point is the caller's point when no initial value is overridden and no total is imposed
    same_start = all(r["x0"] == r["cur"] for r in rows) and all(_close(v, math.fsum(r["x0"] for r in rows if r["t"] == t)) for t, v in totals.items())
    if same_start:
        # writing the initial values into the allocation must not alter the spending at any simulation time (it does when a program
        # without an allocation entry has time-varying program book spending before its first adjusted year: the new entry is extrapolated backwards)
        for p in set(r["prog"] for r in rows):
            pts = dict(zip([float(t) for t in inst.alloc[p].t], [float(v) for v in inst.alloc[p].vals])) if p in inst.alloc else {}
            pts.update({r["t"]: r["x0"] for r in rows if r["prog"] == p})
            tp = sorted(pts)
            if any(H.step_value(tp, [pts[t] for t in tp], float(t)) != H.own_spend(pg, inst, p, float(t)) for t in tvec):
                same_start = False
                labels.append("start-differs:new-allocation-entry-extrapolated-backwards")
    if same_start:
        labels.append("start==caller")
        if not _close(f_start, f_caller):
            raise Violation(ID, "start-objective-differs-from-caller-point", "objective at the start point %r, at the caller's instructions %r; %s" % (f_start, f_caller, desc))

    out = ref["out"]
    if out is inst:
        raise Violation(ID, "caller-state/returned-callers-instructions", "at.optimize returned the caller's instructions object; %s" % desc)
    res = P.run_sim(ps, pg, out, store_results=False)
    model = res.model
    f_ret = H.own_objective(model, meas)

    # ---- (2) every hard target the starting point met (all of them: the start objective is finite) is met by the returned instructions
    for m in meas:
        if m["cls"] in H.HARD:
            v = H.own_quantity(model, m["name"], m["t"], m.get("pops"))
            violated, near = H.target_state(m, v)
            if near:
                labels.append("hard-target:borderline")
            elif violated:
                raise Violation(ID, "hard-target-lost", "%s target on %r (pops %r, t %r) met at the start but the returned instructions give %r (threshold %r, value under the original instructions %r, amount %r %s); %s" % (m["cls"], m["name"], m.get("pops"), m["t"], v, m.get("threshold"), m.get("base"), m.get("amount"), m.get("target_type"), desc))
            else:
                labels.append("hard-target:kept")

    # ---- (1) differential: Measurable values == own values
    tot_impl = 0.0
    baselines = []
    for m, mobj in zip(meas, ref["opt"].measurables):
        own_q = H.own_quantity(model, m["name"], m["t"], m.get("pops"))
        own_t = H.own_term(model, m, own_q)
        got_q = float(at.Measurable.get_objective_val(mobj, model, None))
        bl = mobj.get_baseline(base.model)
        baselines.append(bl)
        if m["cls"] in ("incby", "decby") and (bl is None or not _close(float(bl), m["base"])):
            raise Violation(ID, "objective/baseline-differs", "%s baseline %r, documented sum under the original instructions %r; %s" % (m["cls"], bl, m["base"], desc))
        got_t = float(mobj.eval(model, bl))
        tot_impl += got_t
        if not _close(got_q, own_q):
            raise Violation(ID, _diff_bucket(c, m, model), "Measurable(%r, t=%r, pops=%r) value %r, documented sum %r; %s" % (m["name"], m["t"], m.get("pops"), got_q, own_q, desc))
        borderline = m["cls"] in H.HARD and H.target_state(m, own_q)[1]
        if not _close(got_t, own_t) and not borderline:
            raise Violation(ID, "objective/term-differs", "%s term %r, own %r (quantity %r, threshold %r, value under the original instructions %r); %s" % (m["cls"], got_t, own_t, own_q, m.get("threshold"), m.get("base"), desc))
    got_total = float(ref["opt"].compute_objective(model, baselines))
    if not _close(got_total, tot_impl):
        raise Violation(ID, "objective/total-not-sum-of-terms", "compute_objective %r, sum of the terms %r; %s" % (got_total, tot_impl, desc))

    # ---- (1) no worse than the start, and the best evaluated point
    evals = ref["values"][1:]
    if not _le(f_ret, f_start):
        raise Violation(ID, "worse-than-start", "objective of the returned instructions %r > objective of the starting point %r (evaluated: %r); %s" % (f_ret, f_start, evals, desc))
    best = min(evals)
    if not _le(f_ret, best):
        raise Violation(ID, "not-best-evaluated", "objective of the returned instructions %r > best evaluated objective %r (evaluated: %r); %s" % (f_ret, best, evals, desc))

    # ---- (2) bounds, totals, hard targets, untouched entries
    before, after = _alloc_table(inst), _alloc_table(out)
    adjusted = set()
    moved = False
    for r in rows:
        v = after.get(r["prog"], {}).get(r["t"])
        adjusted.add((r["prog"], r["t"]))
        if v is None or not math.isfinite(v):
            raise Violation(ID, "adjusted-value-missing", "no spending value for %s in %r in the returned instructions; %s" % (r["prog"], r["t"], desc))
        tolb = TOL * max(1.0, abs(r["lo"]), abs(v))
        if v < r["lo"] - tolb or v > r["hi"] + tolb:
            raise Violation(ID, "bound-violated", "returned spending on %s in %r is %r, outside [%r, %r] (start %r); %s" % (r["prog"], r["t"], v, r["lo"], r["hi"], r["x0"], desc))
        if not _close(v, r["x0"]):
            moved = True
    for t, total in totals.items():
        got = math.fsum(after[r["prog"]][r["t"]] for r in rows if r["t"] == t)
        if abs(got - total) > 1e-6 * abs(total):
            raise Violation(ID, "total-spend-violated", "returned spending in %r sums to %r, required %r; %s" % (t, got, total, desc))
    for p in set(before) | set(after):
        for t in set(before.get(p, {})) | set(after.get(p, {})):
            if (p, t) in adjusted:
                continue
            if before.get(p, {}).get(t) != after.get(p, {}).get(t):
                raise Violation(ID, "unadjusted-spending-changed", "%s in %r is not adjustable but went %r -> %r; %s" % (p, t, before.get(p, {}).get(t), after.get(p, {}).get(t), desc))

    acc = _accepted(ref["values"][2:]) if len(ref["values"]) > 2 else 0
    labels.append("accepted-steps:%s" % (acc if acc < 2 else ("2-4" if acc < 5 else "5+")))
    labels.append("allocation:" + ("moved" if moved else "unchanged"))
    b = case["budget"]
    if "maxiters" in b:
        labels.append("end:budget-exhausted" if n_ref - 3 >= b["maxiters"] else "end:converged")
    else:
        labels.append("end:maxtime")
    nontrivial = acc >= 2

    # ---- an Optimization that has been used before behaves like a newly built identical one (same seed, same inputs)
    if shared is not None and shared["step"] >= 1:
        again = _run_optimize(at, case, P, ps, pg, inst, meas, record=False)
        if again["outcome"] != "ok" or _alloc_table(again["out"]) != after:
            raise Violation(ID, "reused-optimization-differs-from-fresh", "call %d on the same Optimization object returned %r, a newly built identical Optimization returns %r; %s" % (shared["step"] + 1, after, again.get("exc") or _alloc_table(again["out"]), desc))
        labels.append("reused==fresh")

    # ---- (3) fault enumeration
    if kind == "optimize-fault":
        reached = 0
        for k in range(1, n_ref + 1):
            r = _run_optimize(at, case, P, ps, pg, inst, meas, fail_at=k, record=False)
            if not r["fired"]:
                raise HarnessError("fault %d of %d was not reached (run not deterministic?); %s" % (k, n_ref, desc))
            reached += 1
            _state_check(snap0, P, objs, "after an exception in simulation %d of %d" % (k, n_ref), desc)
            if r["outcome"] == "fault":
                labels.append("fault:propagated")
            elif r["outcome"] == "ok":
                labels.append("fault:swallowed")
            else:
                labels.append("fault:masked" if H.in_chain(r["exc"], H.InjectedFault) else "fault:other-exception:" + type(r["exc"]).__name__)
        again = _run_optimize(at, case, P, ps, pg, inst, meas, record=False)
        if again["outcome"] != "ok" or _alloc_table(again["out"]) != after:
            raise Violation(ID, "fault/later-run-differs", "after the fault sequence the same optimisation gives %r instead of %r; %s" % (again.get("exc") or _alloc_table(again["out"]), after, desc))
        _state_check(snap0, P, objs, "after the run following the fault sequence", desc)
        labels.append("fault-points:%d" % reached)
        return {"nontrivial": nontrivial or reached >= 1, "labels": labels, "inconclusive": {}, "fault_points": reached}
    return {"nontrivial": nontrivial, "labels": labels}


def _scaled_alloc(c, alloc, start_year, f):
    """the allocation spec with every spending value multiplied by f (ProgramInstructions.scale_alloc); implicit program book spending becomes an explicit allocation"""
    if alloc["mode"] in ("progset", "none"):
        return {"mode": "dict", "vals": {p: [[start_year], [v * f]] for p, v in c["progs"]}}
    return {"mode": alloc["mode"], "vals": {p: [list(tv[0]), [v * f for v in tv[1]]] for p, tv in alloc["vals"].items()}}


def _check_sequence(case):
    c = H.catalogue()[case["model"]]
    shared = {"step": 0, "opt": None, "meas": None}
    labels, nontrivial, prev = ["kind:optimize-sequence", "calls:%d" % (1 + len(case["steps"]))], False, None
    for i, step in enumerate([None] + list(case["steps"])):
        sub = dict(case, kind="optimize")
        if step is not None:
            sub["alloc"] = _scaled_alloc(c, case["alloc"], case["start_year"], float(step["scale"])) if "scale" in step else step["alloc"]
        shared["step"] = i
        start = [r["cur"] for r in _rows_pure(c, sub)]
        r = _check_optimize(sub, shared)
        labels += [l for l in r["labels"] if not l.startswith("kind:")]
        if prev is not None and start != prev and "outcome:ok" in r["labels"]:
            labels.append("later-call-with-other-start-spend")
            nontrivial = True
        nontrivial = nontrivial or r["nontrivial"]
        prev = start
    return {"nontrivial": nontrivial, "labels": labels}


def _qkind(c, name):
    if name in [p for p, _ in c["progs"]]:
        return "spend"
    for k in ("comps", "characs", "pars", "flows"):
        if name in c[k]:
            return k[:-1]
    return "link"


def _diff_bucket(c, m, model):
    """root-cause key for a quantity mismatch: which part of the documented definition is off"""
    k = _qkind(c, m["name"])
    return "objective/quantity-differs/%s/%s" % ("flow" if k in ("flow", "link") else ("spend" if k == "spend" else "stock"), "year" if "idx" in m["t"] else "period")


# --------------------------------------------------------------------------- calibrate / calibrate-fault


def _expand(case, P, ps):
    """expanded adjustables [(par, pop, lo, hi)] and outputs [(var, pop, w, metric)] as documented for Project.calibrate / calibrate"""
    adj = []
    for a in case["adj"]:
        if isinstance(a, str):
            a = [a, None, 0.0, 2.0]
        p, pop, lo, hi = a
        if pop is None:
            adj += [(p, pn, float(lo), float(hi)) for pn in ps.pars[p].pops]
        else:
            adj.append((p, pop, float(lo), float(hi)))
    outs = []
    for m in case["meas"]:
        if isinstance(m, str):
            m = [m, None, 1.0, "fractional"]
        q, pop, w, metric = m
        if pop is None:
            outs += [(q, pn, float(w), metric) for pn in P.data.pops.keys()]
        else:
            outs.append((q, pop, float(w), metric))
    return adj, outs


def _prepare_calibration(case):
    at = H.at_mod()
    P, ps, pg = H.fresh(case["model"], case["settings"])
    for q, pn, t, f in case["targets"]:
        ts = P.data.tdve[q].ts[pn]
        ts.insert(float(t), float(f) * float(ts.vals[0]))
    if case.get("total_rows"):
        model = P.run_sim(parset=ps.copy(), store_results=False).model  # the library parset, before any starting factor is changed
        for q, pts in case["total_rows"].items():
            agg = H.own_total_series(model, q)
            first = P.data.tdve[q].ts[list(P.data.pops.keys())[0]]
            tt = [float(t) for t, _ in pts]
            vv = [float(f) * float(np.interp(t, model.t, agg)) for t, f in pts]
            P.data.tdve[q].ts["Total"] = at.TimeSeries(t=tt, vals=vv, units=first.units)
    for p, pop, y in case["y0"]:
        _set_factor(ps, p, pop, float(y))
    return at, P, ps


def _cal_args(case):
    adjustables = [a if isinstance(a, str) else tuple(a) for a in case["adj"]]
    measurables = [m if isinstance(m, str) else tuple(m) for m in case["meas"]]
    kw = {"randseed": int(case["randseed"])}
    b = case["budget"]
    if "maxiters" in b:
        kw["maxiters"] = b["maxiters"]
        max_time = 60
    else:
        max_time = b["max_time"]
    return adjustables, measurables, max_time, kw


def _run_calibrate(case, P, ps, rec, fail_at=None):
    adjustables, measurables, max_time, kw = _cal_args(case)
    res = {}
    with H.Tap(fail_at=fail_at, record=rec) as tap:
        try:
            res["out"] = P.calibrate(parset=ps, adjustables=adjustables, measurables=measurables, max_time=max_time, **kw)
            res["outcome"] = "ok"
        except H.InjectedFault as e:
            res.update(outcome="fault", exc=e)
        except Exception as e:  # noqa
            res.update(outcome="error", exc=e)
    res.update(n=tap.n, values=tap.values, fired=tap.fired)
    return res


def _factor_holder(ps, p):
    """the Parameter object behind an adjustable name: ordinary parameter, or '<transfer code>_from_<source pop>'"""
    if p in ps.pars:
        return ps.pars[p]
    code, src = p.split("_from_")
    return ps.transfers[code][src]


def _get_factor(ps, p, pop):
    par = _factor_holder(ps, p)
    return float(par.meta_y_factor) if pop == "all" else float(par.y_factor[pop])


def _set_factor(ps, p, pop, y):
    par = _factor_holder(ps, p)
    if pop == "all":
        par.meta_y_factor = y
    else:
        par.y_factor[pop] = y


def _check_calibrate(case):
    kind = case["kind"]
    at, P, ps = _prepare_calibration(case)
    desc = "case %r" % (case,)
    adj, outs = _expand(case, P, ps)
    labels = ["kind:" + kind, "model:" + case["model"], "dt:%g" % case["settings"]["dt"], "adjustables:%d" % len(adj), "targets:%d" % len(outs)]
    labels += sorted(set("metric:" + o[3] for o in outs))
    if case["settings"].get("shift"):
        labels.append("start-year-moved-off-grid")
    if any(isinstance(a, str) for a in case["adj"]):
        labels.append("adjustables:string-form")
    if any(not isinstance(a, str) and a[1] == "all" for a in case["adj"]):
        labels.append("adjustables:meta-factor")
    if any(not isinstance(a, str) and a[0] not in ps.pars for a in case["adj"]):
        labels.append("adjustables:transfer")
    for q in case.get("total_rows") or {}:
        labels.append("total-row:" + dict(H.catalogue()[case["model"]]["total_vars"])[q])
    if len(set((a[0], a[1]) for a in adj)) != len(adj):
        raise HarnessError("duplicate adjustable")
    for p, pop, lo, hi in adj:
        y = _get_factor(ps, p, pop)
        if not (lo <= y <= hi):
            labels.append("start-outside-bounds")

    objs = {"parset": ps}
    snap0 = H.snapshot(P, **objs)
    data = P.data
    rec = lambda model: H.own_cal_objective(model, data, outs)  # noqa: E731
    ref = _run_calibrate(case, P, ps, rec)
    n_ref = ref["n"]
    _state_check(snap0, P, objs, "after %s" % ref["outcome"], desc)
    labels.append("outcome:" + ref["outcome"])
    if ref["outcome"] == "error":
        e = ref["exc"]
        if isinstance(e, TypeError) and any(o[3] == "meansquare" for o in outs):
            raise Violation(ID, "calibrate/meansquare-metric-crash", "calibration with the documented metric 'meansquare' ended in %r; %s" % (e, desc))
        raise Violation(ID, "calibrate/crash/" + type(e).__name__, "Project.calibrate ended in %r; %s" % (e, desc))
    if "start-outside-bounds" in labels:
        return {"nontrivial": False, "labels": labels}
    new = ref["out"]
    if new is ps:
        raise Violation(ID, "caller-state/returned-callers-parset", "calibrate returned the caller's parset object; %s" % desc)
    values = ref["values"]  # own objective of every evaluated point that could be simulated (proposals with invalid initial compartment sizes are rejected before the simulation)

    import atomica.calibration as cal
    import sciris as sc
    from atomica.model import BadInitialization

    # calibration evaluates on the period that ends with the data: a copy of the project with that end year is the harness' evaluator
    P_eval = sc.dcp(P)
    P_eval.settings.sim_end = min(float(P.data.tvec[-1]), float(P.settings.sim_end))
    try:
        f_start = H.own_cal_objective(P_eval.run_sim(parset=ps.copy(), store_results=False).model, data, outs)
    except BadInitialization:
        f_start = INF
        labels.append("start:bad-initialization")
    if values and math.isfinite(f_start) and not _close(values[0], f_start):
        raise Violation(ID, "calibrate/first-evaluation-is-not-the-start", "first evaluated objective %r, objective of the caller's parset %r; %s" % (values[0], f_start, desc))
    # differential at the start point (the function ASD minimises)
    got = float(cal._calculate_objective([_get_factor(ps, p, pop) for p, pop, _, _ in adj], [(p, pop) for p, pop, _, _ in adj], outs, ps.copy(), P_eval))
    if not _close(got, f_start):
        raise Violation(ID, "calibrate/objective-differs", "calibration objective at the start %r, documented metrics give %r; %s" % (got, f_start, desc))

    try:
        f_ret = H.own_cal_objective(P_eval.run_sim(parset=new, store_results=False).model, data, outs)
    except BadInitialization:
        f_ret = INF
    if not _le(f_ret, f_start):
        raise Violation(ID, "worse-than-start", "calibration objective of the returned parset %r > start %r (evaluated %r); %s" % (f_ret, f_start, values, desc))
    if values and not _le(f_ret, min(values)):
        raise Violation(ID, "not-best-evaluated", "calibration objective of the returned parset %r > best evaluated %r (evaluated %r); %s" % (f_ret, min(values), values, desc))
    expect = ps.copy()
    moved = False
    for p, pop, lo, hi in adj:
        y = _get_factor(new, p, pop)
        if not (lo - TOL <= y <= hi + TOL) or not math.isfinite(y):
            raise Violation(ID, "bound-violated", "calibrated factor of %s/%s is %r, outside [%r, %r]; %s" % (p, pop, y, lo, hi, desc))
        if y != _get_factor(ps, p, pop):
            moved = True
        _set_factor(expect, p, pop, (_factor_holder(new, p).meta_y_factor if pop == "all" else _factor_holder(new, p).y_factor[pop]))
    from vlib.canon import canon, diff, SKIP

    skip = SKIP | {"name"}
    ce, cn = canon(expect, skip), canon(new, skip)
    if ce != cn:
        raise Violation(ID, "calibrate/unrelated-values-changed", "returned parset differs from the caller's beyond the adjusted factors: %r; %s" % (diff(ce, cn)[:4], desc))
    acc = _accepted([f_start] + values[(1 if math.isfinite(f_start) else 0):])
    labels.append("accepted-steps:%s" % (acc if acc < 2 else ("2-4" if acc < 5 else "5+")))
    labels.append("factors:" + ("moved" if moved else "unchanged"))
    b = case["budget"]
    labels.append(("end:budget-exhausted" if n_ref - 1 >= b["maxiters"] else "end:converged") if "maxiters" in b else "end:maxtime")
    nontrivial = acc >= 2
    if kind == "calibrate-fault":
        reached = 0
        for k in range(1, n_ref + 1):
            r = _run_calibrate(case, P, ps, None, fail_at=k)
            if not r["fired"]:
                raise HarnessError("fault %d of %d was not reached; %s" % (k, n_ref, desc))
            reached += 1
            _state_check(snap0, P, objs, "after an exception in simulation %d of %d" % (k, n_ref), desc)
            labels.append("fault:propagated" if r["outcome"] == "fault" else ("fault:swallowed" if r["outcome"] == "ok" else "fault:masked"))
        again = _run_calibrate(case, P, ps, None)
        if again["outcome"] != "ok" or canon(again["out"], skip) != cn:
            raise Violation(ID, "fault/later-run-differs", "after the fault sequence the same calibration gives a different result (%r); %s" % (again.get("exc"), desc))
        _state_check(snap0, P, objs, "after the run following the fault sequence", desc)
        labels.append("fault-points:%d" % reached)
        return {"nontrivial": nontrivial or reached >= 1, "labels": labels, "fault_points": reached}
    return {"nontrivial": nontrivial, "labels": labels}


# --------------------------------------------------------------------------- reconcile


def _check_reconcile(case):
    at = H.at_mod()
    P, ps, pg = H.fresh(case["model"], case["settings"])
    desc = "case %r" % (case,)
    labels = ["kind:reconcile", "model:" + case["model"], "dt:%g" % case["settings"]["dt"]] + sorted("reconcile:" + k for k, v in case["bounds"].items() if v)
    if case["settings"].get("shift"):
        labels.append("start-year-moved-off-grid")
    objs = {"parset": ps, "progset": pg}
    snap0 = H.snapshot(P, **objs)
    kw = dict(case["bounds"])
    if case["eval_range"] is not None:
        kw["eval_range"] = list(case["eval_range"])
    with H.Tap() as tap:
        try:
            new = at.reconcile(P, ps, pg, case["year"], max_time=case["max_time"], **kw)[0]
        except Exception as e:  # noqa
            _state_check(snap0, P, objs, "after %r" % e, desc)
            return {"nontrivial": False, "labels": labels + ["reconcile-raised:" + type(e).__name__]}
    _state_check(snap0, P, objs, "after normal completion", desc)
    if new is pg:
        raise Violation(ID, "caller-state/returned-callers-progset", "reconcile returned the caller's program set; %s" % desc)
    reached = 0
    for k in range(1, tap.n + 1):
        with H.Tap(fail_at=k) as t2:
            try:
                at.reconcile(P, ps, pg, case["year"], max_time=case["max_time"], **kw)
                labels.append("fault:swallowed")
            except H.InjectedFault:
                labels.append("fault:propagated")
            except Exception:  # noqa
                labels.append("fault:masked")
        if t2.fired:
            reached += 1
        _state_check(snap0, P, objs, "after an exception in simulation %d of %d" % (k, tap.n), desc)
    labels.append("fault-points:%d" % reached)
    return {"nontrivial": reached >= 1, "labels": labels, "fault_points": reached}


# --------------------------------------------------------------------------- objective differential


def _check_differential(case):
    at = H.at_mod()
    c = H.catalogue()[case["model"]]
    P, ps, pg = H.fresh(case["model"], case["settings"])
    desc = "case %r" % (case,)
    inst = _instructions(at, case, pg)
    tvec = np.array(P.settings.tvec)
    model = P.run_sim(ps, pg, inst, store_results=False).model
    if case.get("base_alloc") is not None:
        _, _, pg0 = H.fresh(case["model"], case["settings"])
        base = P.run_sim(ps, pg0, _instructions(at, dict(case, alloc=case["base_alloc"]), pg0), store_results=False).model
    else:
        base = P.run_sim(ps, pg, at.ProgramInstructions(start_year=case["start_year"], alloc=pg), store_results=False).model
    labels = ["kind:objective-differential", "model:" + case["model"], "dt:%g" % case["settings"]["dt"]]
    nontrivial = False
    total_own, total_impl, baselines, mobjs = 0.0, 0.0, [], []
    for m in case["meas"]:
        m = dict(m)
        labels.append("measurable:%s/%s/%s%s" % (m["cls"], _qkind(c, m["name"]), "year" if "idx" in m["t"] else "period", "/pops" if m.get("pops") else ""))
        q = H.own_quantity(model, m["name"], m["t"], m.get("pops"))
        q0 = H.own_quantity(base, m["name"], m["t"], m.get("pops"))
        if m["cls"] in ("atmost", "atleast"):
            m["threshold"] = float(m["thr"]) * q0
        mobj = H.make_measurable(at, m, tvec)
        try:
            got_q = float(at.Measurable.get_objective_val(mobj, model, None))
            bl = mobj.get_baseline(base)
            got_t = float(mobj.eval(model, bl))
        except Exception as e:  # noqa
            if _pop_selection_defect(e, [m], c):
                raise Violation(ID, POPSEL, "Measurable(%r, pop_names=%r).get_objective_val ended in %r although these are population names of the model; %s" % (m["name"], m["pops"], e, desc))
            raise Violation(ID, "objective/crash/" + type(e).__name__, "measurable %r ended in %r; %s" % (m, e, desc))
        if not _close(got_q, q):
            raise Violation(ID, _diff_bucket(c, m, model), "Measurable(%r, t=%r, pops=%r) value %r, documented sum %r; %s" % (m["name"], m["t"], m.get("pops"), got_q, q, desc))
        border = False
        if m["cls"] in ("min", "max", "atmost", "atleast"):
            own_t = H.own_term(model, m, q)
            border = m["cls"] in ("atmost", "atleast") and H.target_state(m, q)[1]
        elif m["cls"] == "plain":
            own_t = m["weight"] * q
        else:
            if bl is None or not _close(float(bl), q0):
                raise Violation(ID, "objective/baseline-differs", "%s baseline %r, documented sum on the baseline run %r; %s" % (m["cls"], bl, q0, desc))
            m["base"] = q0
            if q0 == 0:
                labels.append("relative-target-on-zero-baseline")
            violated, border = H.target_state(m, q)
            own_t = INF if violated else 0.0
        if not border and not _close(got_t, own_t):
            raise Violation(ID, "objective/term-differs", "%s term %r, own %r (quantity %r, baseline quantity %r, spec %r); %s" % (m["cls"], got_t, own_t, q, q0, m, desc))
        if border:
            labels.append("threshold-borderline")
        total_impl += got_t
        baselines.append(bl)
        mobjs.append(mobj)
        npts = int(np.count_nonzero(H.time_mask(model.t, m["t"])))
        if q != 0 and math.isfinite(q) and (npts >= 2 or (m.get("pops") and len(m["pops"]) < len(c["pops"]))):
            nontrivial = True
    if mobjs:
        opt = at.Optimization("c15", adjustments=[at.SpendingAdjustment(c["progs"][0][0], case["start_year"])], measurables=mobjs)
        got = float(opt.compute_objective(model, baselines))
        if not _close(got, total_impl):
            raise Violation(ID, "objective/total-not-sum-of-terms", "compute_objective %r, sum of the terms %r; %s" % (got, total_impl, desc))
    return {"nontrivial": nontrivial, "labels": labels}


# --------------------------------------------------------------------------- entry


def check(case):
    kind = case["kind"]
    with np.errstate(all="ignore"):
        if kind in ("optimize", "optimize-fault", "unresolvable"):
            return _check_optimize(case)
        if kind == "optimize-sequence":
            return _check_sequence(case)
        if kind in ("calibrate", "calibrate-fault"):
            return _check_calibrate(case)
        if kind == "reconcile":
            return _check_reconcile(case)
        if kind == "objective-differential":
            return _check_differential(case)
    raise HarnessError("unknown kind %r" % kind)
