"""C01 - people are conserved: stocks change only by recorded flows."""
from hypothesis import strategies as st
from vlib import gen_model, simcase, oracles, libcase
from vlib.runner import Violation, Discard

ID = "C01"
RULE = (
    "cases = perturbed library projects (12 library models, drawn y-factors, dt, start, horizon, programs on/off) and generated ModelSpecs (ordinary/source/sink/junction/residual-junction/timed compartments, cycles, duration groups, 1-3 populations, "
    "transfers, functions, all dt classes) run through Project.run_sim; oracle = per-compartment balance, junction pass-through (per bin in duration groups), "
    "global head count, tolerance 1e-9*max(1,stock); non-trivial = positive flow through at least two of {junction, timed flush, time-preserving link, "
    "transfer, source}; distinct = distinct spec hash"
)
ASSUMPTIONS = [
    "plain junctions with inflow > 0 and proportions summing to <= 0 are outside the statement's domain (discarded, counted)",
    "runs whose values exceed 1e100 (float overflow through explosive feedback functions) are discarded and counted",
    "framework built through the validated-DataFrame fast path (ProjectFramework._validate), databook through ProjectData.new",
]
BUDGET = {"quick": 4000, "thorough": 32000}  # thorough = 8x quick: a depth that was run to completion, quiet, at seed 1 (deterministic given the seed)
TIME_CAP = {"quick": 75, "thorough": 1500}
PROFILE = {"p_deriv": 0.1, "p_agg_transition": 0.1, "p_programs": 0.3, "p_second_type": 0.15, "p_indirect_junction": 0.35}


def strategy(tier):
    prof = dict(PROFILE)
    if tier == "thorough":
        prof.update(max_steps=120, max_ord=6, max_pops=4)
    m = gen_model.model_specs(prof)
    return st.one_of(m, m, m, m, m, libcase.lib_cases(20 if tier == "quick" else 80, quick=(tier == "quick")))


def check(spec):
    b, res = simcase.run_any(spec)
    oracles.check_structure(spec, res, ID, ("links",))
    feats = oracles.conservation(res, ID)
    return {"nontrivial": len(feats) >= 2, "labels": simcase.labels_of(spec) + ["flow:" + f for f in sorted(feats)]}
