"""C12 - program outcomes are a coverage-weighted average of baseline and combinations.

Oracle: (probe) the weight of every program combination is read off the implementation through its
linearity in the combination outcomes, then checked to be a probability distribution with the
right marginals and compared with a documentation-derived reference distribution;
(laws) bounds / zero coverage / single program / monotonicity / combination outcome rule on arbitrary
inputs including ties and partial explicit interactions.
"""
import itertools
import math
import numpy as np
from hypothesis import strategies as st
from vlib.runner import Violation

ID = "C12"
RULE = (
    "cases = (n programs 1..5, coverage interaction, coverage vector with components from {0,1,tiny,near-1,uniform}, baseline, outcomes, explicit "
    "interaction outcomes); mode 'probe' reads every combination weight through linearity, mode 'laws' checks bounds/zero/single/monotone/best-rule; "
    "non-trivial = at least 2 programs with at least 2 non-zero coverages; distinct = distinct case hash"
)
ASSUMPTIONS = [
    "Covout is called the way ProgramSet.get_outcomes calls it: coverage dict of length-1 float arrays with values in [0,1]",
    "probe mode uses outcomes with pairwise distinct |outcome-baseline| (rank-preserving perturbations); ties are covered by the laws mode only",
]
BUDGET = {"quick": 40000, "thorough": 320000}  # thorough = 8x quick: a depth that was run to completion, quiet, at seed 1 (deterministic given the seed)
TIME_CAP = {"quick": 60, "thorough": 1500}
TOL = 1e-9

INTERS = ["additive", "random", "nested"]

cov_component = st.one_of(
    st.sampled_from([0.0, 1.0, 0.5, 1e-9, 1e-3, 1 - 1e-9, 0.999, 0.25, 0.75]),
    st.floats(min_value=0.0, max_value=1.0, allow_nan=False),
    st.floats(min_value=0.0, max_value=0.2, allow_nan=False),
)
value = st.one_of(st.sampled_from([0.0, 1.0, -1.0, 0.5, 100.0, 1e-3]), st.floats(min_value=-1e3, max_value=1e3, allow_nan=False, allow_infinity=False))


@st.composite
def cases(draw):
    mode = draw(st.sampled_from(["probe", "probe", "laws", "laws", "mono"]))
    n = draw(st.sampled_from([1, 2, 2, 3, 3, 4, 5]))
    inter = draw(st.sampled_from(INTERS))
    cov = [draw(cov_component) for _ in range(n)]
    baseline = draw(value)
    case = {"mode": mode, "n": n, "inter": inter, "cov": cov, "baseline": baseline}
    if mode == "probe":
        g = draw(st.sampled_from([0.1, 1.0, 7.0]))
        ranks = draw(st.permutations(list(range(n))))
        signs = [draw(st.sampled_from([1, -1])) for _ in range(n)]
        case["deltas"] = [signs[i] * (ranks[i] + 1) * g for i in range(n)]
        case["gap"] = g
    elif mode == "laws":
        ties = draw(st.booleans())
        if ties:
            pool = [draw(value) for _ in range(2)]
            case["outcomes"] = [draw(st.sampled_from(pool + [baseline])) for _ in range(n)]
        else:
            case["outcomes"] = [draw(value) for _ in range(n)]
        subsets = [s for r in range(2, n + 1) for s in itertools.combinations(range(n), r)]
        expl = {}
        if subsets and draw(st.booleans()):
            chosen = draw(st.lists(st.sampled_from(subsets), unique=True, max_size=len(subsets)))
            for s in chosen:
                expl["+".join(map(str, s))] = draw(value)
        case["explicit"] = expl
        case["zero_all"] = draw(st.sampled_from([False, False, False, True]))
        case["single"] = draw(st.sampled_from([None, None] + list(range(n))))
    else:  # mono: all outcomes on one side of baseline, best interaction, raise one coverage
        sign = draw(st.sampled_from([1, -1]))
        case["outcomes"] = [baseline + sign * abs(draw(value)) for _ in range(n)]
        case["which"] = draw(st.integers(0, n - 1))
        case["raise_to"] = draw(cov_component)
        case["sign"] = sign
    return case


def strategy(tier):
    return cases()


def _names(n):
    return ["P%d" % i for i in range(n)]


def _mk(at, n, inter, baseline, outcomes, explicit):
    names = _names(n)
    imp = None
    if explicit:
        imp = ",".join("%s=%r" % ("+".join(names[int(i)] for i in k.split("+")), float(v)) for k, v in explicit.items())
    return at.Covout(par="par", pop="pop", progs={names[i]: outcomes[i] for i in range(n)}, cov_interaction=inter, imp_interaction=imp, baseline=baseline)


def _eval(cv, cov):
    names = _names(len(cov))
    return float(cv.get_outcome({names[i]: np.array([cov[i]], dtype=float) for i in range(len(cov))}))


def ref_weights(inter, cov, order):
    """documentation-derived distribution over non-empty subsets (frozenset of indices). order = programs by |delta| descending."""
    n = len(cov)
    w = {}
    subsets = [frozenset(s) for r in range(1, n + 1) for s in itertools.combinations(range(n), r)]
    if inter == "random":
        for s in subsets:
            w[s] = math.prod(cov[i] if i in s else 1 - cov[i] for i in range(n))
    elif inter == "nested":
        idx = sorted(range(n), key=lambda i: cov[i])
        prev = 0.0
        active = set(range(n))
        for i in idx:
            s = frozenset(active)
            w[s] = w.get(s, 0.0) + (cov[i] - prev)
            prev = cov[i]
            active.discard(i)
    else:
        if sum(cov) <= 1:
            for i in range(n):
                w[frozenset([i])] = cov[i]
        else:
            # fill to 100% in order of decreasing |delta|; what does not fit is spread independently over the other slices
            add = [0.0] * n
            used = 0.0
            for i in order:
                add[i] = max(0.0, min(cov[i], 1 - used))
                used += cov[i]
            rp = [((cov[i] - add[i]) / (1 - add[i])) if (1 - add[i]) != 0 else 0.0 for i in range(n)]
            for s in subsets:
                tot = 0.0
                for i in s:
                    tot += add[i] * math.prod((rp[j] if j in s else 1 - rp[j]) for j in range(n) if j != i)
                w[s] = tot
    return w


def check(case):
    """every generated case is a valid program effect (finite baseline and outcomes, coverages in [0,1], explicit outcomes for
    combinations of the listed programs): an exception raised inside atomica means no value was produced at all"""
    import traceback

    try:
        return _check(case)
    except Violation:
        raise
    except Exception as e:
        frames = traceback.extract_tb(e.__traceback__)
        inner = [f for f in frames if "/atomica/" in f.filename.replace("\\", "/")]
        if inner and "/atomica/" in frames[-1].filename.replace("\\", "/"):
            raise Violation(ID, "raises/%s/%s" % (type(e).__name__, inner[-1].name), "a valid program effect made atomica raise %s: %s (at %s:%d) for case %r" % (type(e).__name__, str(e)[:300], inner[-1].filename.split("/")[-1], inner[-1].lineno, case))
        raise


def _check(case):
    import atomica as at

    n, inter, cov, b = case["n"], case["inter"], case["cov"], case["baseline"]
    nz = sum(1 for c in cov if c > 0)
    labels = ["mode:" + case["mode"], "inter:" + inter, "n:%d" % n, "sumcov>1" if sum(cov) > 1 else "sumcov<=1"]
    nontrivial = n >= 2 and nz >= 2
    if case["mode"] == "probe":
        deltas = case["deltas"]
        outcomes = [b + d for d in deltas]
        # floating point: b + d - b may differ from d by rounding; use the realised deltas
        deltas = [o - b for o in outcomes]
        multi = [s for r in range(2, n + 1) for s in itertools.combinations(range(n), r)]
        key = lambda s: "+".join(map(str, s))
        zero_expl = {key(s): b for s in multi}
        out0 = _eval(_mk(at, n, inter, b, outcomes, zero_expl), cov)
        w = {}
        for s in multi:
            e = dict(zero_expl)
            e[key(s)] = b + 1.0
            realised = (b + 1.0) - b
            w[frozenset(s)] = (_eval(_mk(at, n, inter, b, outcomes, e), cov) - out0) / realised
        eps = 0.25 * case["gap"]
        for i in range(n):
            o2 = list(outcomes)
            o2[i] = outcomes[i] + eps
            w[frozenset([i])] = (_eval(_mk(at, n, inter, b, o2, zero_expl), cov) - out0) / ((o2[i] - b) - deltas[i])
        scale = max(1.0, abs(b)) * 10  # differences of numbers of size |b|+5*gap
        tol = 1e-9 * scale
        for s, x in w.items():
            if not np.isfinite(x) or x < -tol:
                raise Violation(ID, "probe/negative-weight/" + inter, "subset %s weight %r case %r" % (sorted(s), x, case))
        tot = sum(w.values())
        if tot > 1 + tol:
            raise Violation(ID, "probe/weights-sum-above-1/" + inter, "sum %r case %r" % (tot, case))
        for i in range(n):
            m = sum(x for s, x in w.items() if i in s)
            if abs(m - cov[i]) > tol:
                raise Violation(ID, "probe/marginal/" + inter, "program %d marginal %r coverage %r case %r" % (i, m, cov[i], case))
        order = sorted(range(n), key=lambda i: -abs(deltas[i]))
        ref = ref_weights(inter, cov, order)
        for s in w:
            if abs(w[s] - ref.get(s, 0.0)) > tol:
                raise Violation(ID, "probe/reference-distribution/" + inter, "subset %s weight %r reference %r case %r" % (sorted(s), w[s], ref.get(s, 0.0), case))
        return {"nontrivial": nontrivial, "labels": labels}

    outcomes = case["outcomes"]
    if case["mode"] == "laws":
        expl = case["explicit"]
        cv = _mk(at, n, inter, b, outcomes, expl)
        if case["zero_all"]:
            cov = [0.0] * n
        if case["single"] is not None:
            cov = [c if i == case["single"] else 0.0 for i, c in enumerate(cov)]
        val = _eval(cv, cov)
        allv = [b] + list(outcomes) + [float(v) for v in expl.values()]
        lo, hi = min(allv), max(allv)
        tol = 1e-9 * max(1.0, max(abs(x) for x in allv))
        if not np.isfinite(val) or val < lo - tol or val > hi + tol:
            raise Violation(ID, "laws/out-of-hull/" + inter, "value %r not in [%r,%r] case %r" % (val, lo, hi, case))
        if all(c == 0 for c in cov) and val != b:
            raise Violation(ID, "laws/zero-coverage-not-baseline/" + inter, "value %r baseline %r case %r" % (val, b, case))
        nzi = [i for i, c in enumerate(cov) if c > 0]
        if len(nzi) == 1:
            i = nzi[0]
            exp = b + cov[i] * (outcomes[i] - b)
            if abs(val - exp) > tol:
                raise Violation(ID, "laws/single-program/" + inter, "value %r expected %r case %r" % (val, exp, case))
            labels.append("single-covered")
        # combination outcome rule
        names = _names(n)
        cached = list(cv._cached_progs.keys())
        for r in range(1, n + 1):
            for s in itertools.combinations(range(n), r):
                mask = np.array([nm in [names[i] for i in s] for nm in cached])
                got = cv.compute_impact_interaction(progs=mask)
                k = "+".join(map(str, s))
                if k in expl:
                    exp = float(expl[k]) - b
                    ok = abs(got - exp) <= tol
                else:
                    far = max(abs(outcomes[i] - b) for i in s)
                    ok = any(abs(got - (outcomes[i] - b)) <= tol and abs(abs(outcomes[i] - b) - far) <= tol for i in s)
                    exp = "farthest member (|delta|=%r)" % far
                if not ok:
                    raise Violation(ID, "laws/combination-outcome", "subset %s delta %r expected %r case %r" % (s, got, exp, case))
        if expl:
            labels.append("explicit-interactions")
        return {"nontrivial": nontrivial, "labels": labels}

    # mono
    cv = _mk(at, n, inter, b, outcomes, None)
    i = case["which"]
    c_lo, c_hi = sorted([cov[i], case["raise_to"]])
    cov1 = list(cov)
    cov1[i] = c_lo
    cov2 = list(cov)
    cov2[i] = c_hi
    v1, v2 = _eval(cv, cov1), _eval(cv, cov2)
    tol = 1e-9 * max(1.0, abs(b), max(abs(o) for o in outcomes))
    if case["sign"] * (v2 - v1) < -tol:
        raise Violation(ID, "mono/worse-with-more-coverage/" + inter, "coverage %r->%r of program %d value %r->%r case %r" % (c_lo, c_hi, i, v1, v2, case))
    return {"nontrivial": nontrivial and c_hi > c_lo, "labels": labels}
