"""C06 - parameter values follow data x calibration -> function -> program -> limits."""
import math
import numpy as np
from hypothesis import strategies as st
from vlib import gen_model, simcase, build, expr, datainterp
from vlib.runner import Violation, Discard, HarnessError

ID = "C06"
RULE = (
    "cases = ModelSpecs with parameter dependency graphs (functions of compartments, characteristics, earlier parameters, flows for output parameters, t, dt, population "
    "aggregations with interaction weights), sparse data (assumption only, one year, many years, years outside the simulated range), y and meta factors, limits (min/max/both), "
    "optionally a parameter scenario (linear or stepped, on data and on function parameters of all three evaluation kinds, on transfers); oracle = independent recomputation of EVERY "
    "parameter at EVERY index by the precedence chain from atomica's own same-step values of the dependencies (own interpolation, own expression evaluator, own aggregation formula), "
    "1e-9; initial compartment sizes = databook value x factors; non-trivial = some parameter has two precedence stages active at the same index (function value clipped, data between "
    "years with factor != 1, scenario inside a function parameter); distinct = spec hash.  One case in four is a HISTORY of edits of a single TimeSeries (insert, list insert, assumption, "
    "remove, remove_before/after/between, copy/deepcopy/pickle) checked after every step against a dict model, then interpolated (linear and stepped) at drawn and entered times against "
    "the documented rule (exact at entered times, linear between, constant outside, assumption only without time values, NaN when empty); non-trivial there = >= 2 points after a removal"
)
ASSUMPTIONS = [
    "dependencies are read from atomica's arrays at the same index (one-step style), so an error shows up in the dependent parameter",
    "program overwrites are decided by C13 (no programs are generated here)",
    "runs with float overflow above 1e100 are discarded",
]
BUDGET = {"quick": 3000, "thorough": 12000}  # thorough = 4x quick: a depth that was run to completion, quiet, at seed 1 (deterministic given the seed)
TIME_CAP = {"quick": 75, "thorough": 1500}
PROFILE = {"p_function": 0.6, "p_limits": 0.5, "p_yfactor": 0.5, "p_output_pars": 0.7, "p_time_varying": 0.6, "p_interaction": 0.6, "max_steps": 16, "extreme": 0.05, "p_timed": 0.3, "p_junction": 0.3, "allow_negative_functions": True, "comp_yfactor": 0.3, "p_deriv": 0.15, "p_agg_transition": 0.15}


@st.composite
def cases(draw, prof):
    spec = draw(gen_model.model_specs(prof))
    scen = None
    if draw(st.booleans()):
        cands = [p["name"] for p in spec["pars"] if not p["timed"] and not p.get("deriv") and not (p.get("fn") or "").startswith(("SRC_", "TGT_"))]
        trans = [(tr["name"], k) for tr in spec["data"]["tr"] for k in tr["e"]]
        s0, dt = spec["settings"]["start"], spec["settings"]["dt"]
        nsteps = max(1, int(round((spec["settings"]["end"] - s0) / dt)))
        vals = {}
        for name in draw(st.lists(st.sampled_from(cands), unique=True, min_size=1, max_size=2)) if cands else []:
            pops = draw(st.lists(st.sampled_from(spec["pops"]), unique=True, min_size=1))
            for pop in pops:
                k0 = draw(st.integers(0, nsteps))
                off = draw(st.sampled_from([0.0, 0.0, 0.37 * dt, -0.5 * dt]))
                if k0 == nsteps and off > 0:
                    off = 0.0  # a scenario that starts after the last simulated time is outside the domain (nothing to overwrite)
                y0 = s0 + k0 * dt + off
                npts = draw(st.integers(1, 3))
                ts = [y0 + i * draw(st.sampled_from([dt, 2.5 * dt, 1.0])) for i in range(npts)]
                ts = sorted(set(ts))
                ys = [draw(st.sampled_from([0.0, 0.1, 0.5, 1.0, 3.0, 20.0])) for _ in ts]
                if len(ts) > 1 and draw(st.integers(0, 2)) == 0:
                    # the overwrite points may be listed in any order (the scenario starts at the earliest one)
                    order = draw(st.permutations(list(range(len(ts)))))
                    ts, ys = [ts[i] for i in order], [ys[i] for i in order]
                vals.setdefault(name, {})[pop] = {"t": ts, "y": ys}
        if trans and draw(st.booleans()):
            name, key = draw(st.sampled_from(trans))
            k0 = draw(st.integers(0, nsteps))
            vals.setdefault(name, {})[key] = {"t": [s0 + k0 * dt], "y": [draw(st.sampled_from([0.0, 0.2, 1.0]))]}
        if vals:
            scen = {"values": vals, "interp": draw(st.sampled_from(["linear", "previous"]))}
    return {"spec": spec, "scen": scen}


_TS_T = [1990.0, 1995.5, 2000.0, 2000.1, 2000.2, 2000.30000000000001, 2001.0, 2003.0, 2010.0, 2020.25]
_TS_V = [0.0, 1.0, 0.5, 2.0, -1.0, 1e-9, 1e6, 0.1, 0.30000000000000004, 7.25]


@st.composite
def ts_cases(draw):
    """history of edits of one TimeSeries (the object every databook / program book / scenario value lives in), then queries"""
    tval = st.sampled_from(_TS_T) | st.floats(1985.0, 2025.0, allow_nan=False).map(lambda x: round(x, 3))
    vval = st.sampled_from(_TS_V) | st.floats(-10.0, 100.0, allow_nan=False)
    n = draw(st.integers(1, 10))
    ops = []
    for _ in range(n):
        k = draw(st.sampled_from(["insert", "insert", "insert", "insert", "insert-list", "assume", "remove", "remove-assumption", "remove_before", "remove_after", "remove_between", "copy"]))
        if k == "insert":
            ops.append([k, draw(tval), draw(vval)])
        elif k == "insert-list":
            m = draw(st.integers(1, 4))
            ops.append([k, [draw(tval) for _ in range(m)], [draw(vval) for _ in range(m)]])
        elif k == "assume":
            ops.append([k, draw(vval)])
        elif k == "remove":
            ops.append([k, draw(st.integers(0, 5))])  # index into the current (sorted) times, modulo their number
        elif k == "remove_between":
            a, b_ = sorted([draw(tval), draw(tval)])
            ops.append([k, a, b_])
        elif k in ("remove_before", "remove_after"):
            ops.append([k, draw(tval)])
        else:
            ops.append([k])
    queries = draw(st.lists(tval, min_size=1, max_size=8))
    return {"kind": "ts", "ops": ops, "queries": queries, "on_points": draw(st.booleans())}


def strategy(tier):
    prof = dict(PROFILE)
    if tier == "thorough":
        prof.update(max_steps=50, max_ord=6, max_pops=4)
    return st.one_of(cases(prof), cases(prof), cases(prof), ts_cases())


def check_ts(case):
    """model-based check of TimeSeries: a dict {time: value} + assumption is the reference; interpolation by the documented rule
    (exact at entered times, linear in between, constant outside the range, the assumption only when there are no time values,
    NaN when there is nothing)"""
    import copy as _copy
    import pickle
    import atomica as at

    ts = at.TimeSeries()
    model, assumption = {}, None
    labels = set()
    for op in case["ops"]:
        k = op[0]
        if k == "insert":
            ts.insert(op[1], op[2]); model[float(op[1])] = float(op[2])
        elif k == "insert-list":
            ts.insert(op[1], op[2])
            for a, b_ in zip(op[1], op[2]):
                model[float(a)] = float(b_)
        elif k == "assume":
            ts.insert(None, op[1]); assumption = float(op[1])
        elif k == "remove":
            if model:
                tt = sorted(model)[op[1] % len(model)]
                ts.remove(tt); del model[tt]
        elif k == "remove-assumption":
            ts.remove(None); assumption = None
        elif k == "remove_before":
            ts.remove_before(op[1]); model = {a: b_ for a, b_ in model.items() if not a < op[1]}
        elif k == "remove_after":
            ts.remove_after(op[1]); model = {a: b_ for a, b_ in model.items() if not a > op[1]}
        elif k == "remove_between":
            ts.remove_between([op[1], op[2]]); model = {a: b_ for a, b_ in model.items() if not (op[1] < a < op[2])}
        elif k == "copy":
            ts = [ts.copy, lambda: _copy.deepcopy(ts), lambda: pickle.loads(pickle.dumps(ts))][len(model) % 3]()
        labels.add("ts-op:" + k)
        # content after every step
        if list(ts.t) != sorted(model) or [float(x) for x in ts.vals] != [model[a] for a in sorted(model)] or ts.assumption != assumption:
            raise Violation(ID, "timeseries/content", "after %r the TimeSeries holds t=%r vals=%r assumption=%r; the edits so far give %r, assumption %r (history %r)" % (op, list(ts.t), list(ts.vals), ts.assumption, sorted(model.items()), assumption, case["ops"]))
    queries = list(case["queries"])
    if case.get("on_points") and model:
        queries += sorted(model)[:3]
    entry = {"t": sorted(model), "v": [model[a] for a in sorted(model)], "a": assumption}
    for method in ("linear", "previous"):
        got = np.asarray(ts.interpolate(np.array(queries, dtype=float), method=method), dtype=float)
        if got.shape != (len(queries),):
            raise Violation(ID, "timeseries/interpolate-shape", "interpolate(%r) returned shape %r" % (queries, got.shape))
        for q, g in zip(queries, got):
            exp = datainterp.series_value(entry, q, method)
            ok = (math.isnan(exp) and math.isnan(g)) or g == exp or abs(g - exp) <= 1e-12 * max(1.0, abs(exp), max([abs(v) for v in model.values()] or [0.0]))
            if q in model and len(model) >= 1 and not (g == model[q] or abs(g - model[q]) <= 1e-15 * max(1.0, abs(model[q]))):
                ok = False
            if not ok:
                raise Violation(ID, "timeseries/interpolate-%s" % method, "TimeSeries t=%r vals=%r assumption=%r interpolated (%s) at %r gives %r, the documented rule gives %r (history %r)" % (entry["t"], entry["v"], assumption, method, q, float(g), exp, case["ops"]))
    # single-time queries and get()
    q = queries[0]
    one = np.asarray(ts.interpolate(q), dtype=float)
    exp = datainterp.series_value(entry, q)
    if one.shape != (1,) or not ((math.isnan(exp) and math.isnan(one[0])) or abs(one[0] - exp) <= 1e-12 * max(1.0, abs(exp), max([abs(v) for v in model.values()] or [0.0]))):
        raise Violation(ID, "timeseries/interpolate-scalar", "interpolate(%r) gives %r, expected [%r] (t=%r vals=%r)" % (q, one, exp, entry["t"], entry["v"]))
    if ts.has_data != bool(model or assumption is not None) or ts.has_time_data != bool(model):
        raise Violation(ID, "timeseries/has-data", "has_data=%r has_time_data=%r for t=%r assumption=%r" % (ts.has_data, ts.has_time_data, entry["t"], assumption))
    if len(model) >= 2:
        labels.add("ts:interpolated")
    if model and assumption is not None:
        labels.add("ts:assumption-ignored-because-of-time-data")
    if any(min(model) <= q_ <= max(model) and q_ not in model for q_ in queries) if model else False:
        labels.add("ts:query-between-points")
    return {"nontrivial": len(model) >= 2 and any(o[0].startswith("remove") for o in case["ops"]), "labels": sorted(labels) + ["kind:timeseries-history"]}


def scen_value(ov, t, method):
    pairs = sorted(zip(ov["t"], ov["y"]))
    return datainterp.series_value({"t": [p[0] for p in pairs], "v": [p[1] for p in pairs]}, t, method)


_ALLPOPS = {}


def pop_all(pop):
    return _ALLPOPS.get("pops") or [pop]


def flow_value(pop, sel, ti, dt, lv):
    toks = sel.split(":")
    if sel.endswith(":flow"):
        links = [l for l in pop.links if l.parameter is not None and l.parameter.name == sel[: -len(":flow")]]
    else:
        if len(toks) == 2:
            toks.append("")
        src, dst, par = toks
        # documented forms: "src:" every link out of this population's src (transfers included), ":dst" every link into this
        # population's dst (transfers from other populations included), "src:dst", "::"; an optional third token names the parameter
        every = [l for p_ in pop_all(pop) for l in p_.links]
        if src:
            links = [l for l in every if l.source.pop is pop and l.source.name == src and (not dst or l.dest.name == dst)]
        elif dst:
            links = [l for l in every if l.dest.pop is pop and l.dest.name == dst]
        else:
            links = [l for l in every if l.source.pop is pop]
        if par:
            links = [l for l in links if l.parameter is not None and l.parameter.name == par]
        links = list({id(l): l for l in links}.values())
    return sum(float(lv[l][ti]) for l in links) / dt


def check(case):
    import atomica as at

    if case.get("kind") == "ts":
        return check_ts(case)
    spec, scen = case["spec"], case.get("scen")
    simcase.quiet()
    try:
        b = build.build_all(spec)
        ps = b["ps"]
        if scen:
            sv = {}
            for name, bypop in scen["values"].items():
                sv[name] = {}
                for key, ov in bypop.items():
                    k = tuple(key.split(">")) if ">" in key else key
                    sv[name][k] = {"t": list(ov["t"]), "y": list(ov["y"])}
            ps = at.ParameterScenario(name="scen", scenario_values=sv, interpolation=scen["interp"]).get_parset(ps, b["P"])
            b["ps"] = ps
    except HarnessError:
        raise
    except Exception as e:
        raise Discard("atomica raised %s at %s while building (decided by C18)" % (type(e).__name__, simcase.atomica_frame(e)))
    b, res = simcase.run_spec(spec, b=b)
    m = res.model
    dt = float(m.dt)
    t = np.asarray(res.t, dtype=float)
    T = len(t)
    data = spec["data"]
    pspec = {p["name"]: p for p in spec["pars"]}
    cv, lv, pv, xv = {}, {}, {}, {}
    for pop in m.pops:
        for c in pop.comps:
            cv[c] = np.asarray(c.vals, dtype=float)
        for l in pop.links:
            lv[l] = np.asarray(l.vals, dtype=float)
        for p in pop.pars:
            pv[p] = np.asarray(p.vals, dtype=float)
        for x in pop.characs:
            xv[x] = np.asarray(x.vals, dtype=float)
    pops = {pop.name: pop for pop in m.pops}
    _ALLPOPS["pops"] = list(m.pops)
    feats = set()
    nontrivial = False

    def fac(name, pop):
        return data.get("yf", {}).get(name, {}).get(pop, 1.0) * data.get("myf", {}).get(name, 1.0)

    # initial sizes: databook value x factors (every compartment in these specs is entered directly)
    for (popname, cname), x0 in b["preflush"].items():
        if cname in data["q"] and cname not in pspec:
            exp = datainterp.series_value(data["q"][cname][popname], t[0]) * fac(cname, popname)
            if abs(x0 - exp) > 1e-6 + 1e-9 * abs(exp):
                raise Violation(ID, "initial-size", "%s/%s initial size %r but databook value x factors = %r" % (popname, cname, x0, exp))
            if fac(cname, popname) != 1:
                feats.add("initial-size-with-factor")
    for pop in m.pops:
        for par in pop.pars:
            name = par.name
            got = pv[par]
            if name in pspec:
                sp = pspec[name]
                fn = sp.get("fn")
                lo = sp["min"] if sp.get("min") is not None else -math.inf
                hi = sp["max"] if sp.get("max") is not None else math.inf
                f = fac(name, pop.name)
                ov = (scen or {}).get("values", {}).get(name, {}).get(pop.name) if scen else None
                dentry = data["q"].get(name, {}).get(pop.name)
                kind = "data"
            else:
                # transfer parameter "<transfer>_<from>_to_<to>"
                tr = [(tr_, k) for tr_ in data["tr"] for k in tr_["e"] if "%s_%s_to_%s" % (tr_["name"], k.split(">")[0], k.split(">")[1]) == name]
                if not tr:
                    continue
                tr_, k = tr[0]
                e = tr_["e"][k]
                fn = None
                f = e.get("yf", 1.0) if e.get("yf") is not None else 1.0
                lo, hi = (1e-6, math.inf) if e["u"] == "duration" else (0.0, math.inf)
                ov = (scen or {}).get("values", {}).get(tr_["name"], {}).get(k) if scen else None
                dentry = e
                kind = "transfer"
            agg = fn is not None and fn.startswith(("SRC_POP_", "TGT_POP_"))
            scen_start = min(ov["t"]) if ov else None
            deriv = kind == "data" and bool(pspec[name].get("deriv"))
            for ti in range(T):
                stages = 0
                if deriv:
                    # forward Euler: value(t0) = databook value x factors; value(t+dt) = clip(value(t) + dt * factor * f(same-step values at t))
                    if ti == 0:
                        v = datainterp.series_value(dentry, t[0]) * f
                        src = "derivative-initial"
                    else:
                        tj = ti - 1
                        env = {"t": t[tj], "dt": dt}
                        for nm in expr.names(fn):
                            if nm in ("t", "dt"):
                                continue
                            found = False
                            for c in pop.comps:
                                if c.name == nm:
                                    env[nm] = float(cv[c][tj]); found = True
                            for x in pop.characs:
                                if x.name == nm:
                                    env[nm] = float(xv[x][tj]); found = True
                            for pp in pop.pars:
                                if pp.name == nm:
                                    env[nm] = float(pv[pp][tj]); found = True
                            if not found:
                                raise HarnessError("dependency %s of %s not found" % (nm, name))
                        try:
                            v = float(got[tj]) + dt * f * expr.evaluate(fn, env)
                        except expr.Ambiguous:
                            feats.add("ambiguous-branch-skipped")
                            continue
                        src = "derivative-step"
                        stages += 2
                elif ov is not None and t[ti] >= scen_start:
                    v = scen_value(ov, t[ti], scen["interp"]) * f
                    src = "scenario"
                    stages += 2 if fn else 1
                elif agg:
                    fname, args = fn.split("(")
                    args = [a.strip() for a in args.rstrip(")").split(",")]
                    q = args[0]
                    inter = args[1] if len(args) > 1 else None
                    w = args[2] if len(args) > 2 else None

                    def val(p_, nm):
                        for c in p_.comps:
                            if c.name == nm:
                                return float(cv[c][ti])
                        for x in p_.characs:
                            if x.name == nm:
                                return float(xv[x][ti])
                        for pp in p_.pars:
                            if pp.name == nm:
                                return float(pv[pp][ti])
                        raise HarnessError("aggregated quantity %s not found" % nm)

                    num = den = absnum = 0.0
                    for other in m.pops:
                        if inter is None:
                            W = 1.0
                        else:
                            key = "%s>%s" % ((other.name, pop.name) if fname.startswith("SRC") else (pop.name, other.name))
                            went = data["iw"].get(inter, {}).get(key)
                            W = datainterp.series_value(went, t[ti]) if went else 0.0
                        z = val(other, w) if w else 1.0
                        num += W * z * val(other, q)
                        absnum += abs(W * z * val(other, q))
                        den += W * z
                    agg_scale = abs(f) * (absnum / abs(den) if (fname.endswith("AVG") and den != 0) else absnum)
                    if fname.endswith("AVG") and 0 < abs(den) < 1e-280:
                        # weights in the subnormal range carry only a few significant bits: the quotient is not determined to 1e-9
                        feats.add("subnormal-weights-skipped")
                        continue
                    v = num if fname.endswith("SUM") else (num / den if den != 0 else num)
                    v *= f
                    src = "aggregation"
                    stages += 1
                elif fn:
                    env = {"t": t[ti], "dt": dt}
                    for nm in expr.names(fn):
                        if nm in ("t", "dt"):
                            continue
                        if ":" in nm:
                            env[nm] = flow_value(pop, nm, ti, dt, lv)
                            continue
                        found = False
                        for c in pop.comps:
                            if c.name == nm:
                                env[nm] = float(cv[c][ti]); found = True
                        for x in pop.characs:
                            if x.name == nm:
                                env[nm] = float(xv[x][ti]); found = True
                        for pp in pop.pars:
                            if pp.name == nm:
                                env[nm] = float(pv[pp][ti]); found = True
                        if not found:
                            raise HarnessError("dependency %s of %s not found" % (nm, name))
                    try:
                        v = f * expr.evaluate(fn, env)
                    except expr.Ambiguous:
                        feats.add("ambiguous-branch-skipped")
                        continue
                    src = "function"
                    stages += 1
                    if f != 1:
                        stages += 1
                else:
                    v = datainterp.series_value(dentry, t[ti]) * f
                    src = "data"
                    if f != 1 and dentry.get("t") and len(dentry["t"]) > 1 and min(dentry["t"]) < t[ti] < max(dentry["t"]):
                        stages += 2
                if v < lo:
                    v = lo
                    stages += 1
                    feats.add("clipped-min")
                elif v > hi:
                    v = hi
                    stages += 1
                    feats.add("clipped-max")
                g = float(got[ti])
                scale_extra = agg_scale if (agg and src == "aggregation") else 0.0  # a mean of terms of both signs is only exact relative to the sum of their magnitudes
                ok = (math.isnan(v) and math.isnan(g)) or v == g or (math.isfinite(v) and math.isfinite(g) and abs(v - g) <= 1e-9 * max(1.0, abs(v), abs(g), scale_extra if math.isfinite(scale_extra) else 0.0))
                if not ok:
                    evalkind = "precompute" if getattr(par, "_precompute", False) else ("dynamic" if getattr(par, "_is_dynamic", False) else "post")
                    raise Violation(ID, "%s/%s%s" % (kind, src, ("/" + evalkind) if (fn and src == "scenario") else ""), "parameter %s/%s index %d (t=%r): atomica %r, precedence chain gives %r (source %s, factor %r, limits [%r,%r], function %r, scenario %r)" % (pop.name, name, ti, t[ti], g, v, src, f, lo, hi, fn, ov))
                feats.add("src:" + src)
                if stages >= 2:
                    nontrivial = True
    return {"nontrivial": nontrivial, "labels": simcase.labels_of(spec) + ["p:" + x for x in sorted(feats)] + (["scenario:" + scen["interp"]] if scen else [])}
