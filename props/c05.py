"""C05 - timed compartments release every cohort exactly when its duration expires."""
import math
import numpy as np
from vlib import gen_model, simcase, oracles, replay
from vlib.build import link_key
from vlib.runner import Violation, Discard

ID = "C05"
RULE = (
    "cases = ModelSpecs biased to timed compartments: duration/step ratios integer, half-integer, <1, fractional, long, integer up to rounding (k*dt computed in floating point), "
    "timescales != 1, calibration factors on the duration, duration groups of 1-3 compartments linked directly or via an in-group junction, extra ordinary exits, "
    "populations with different durations joined by transfers, non-zero initial occupants; oracle (black box, per duration group and set of populations joined by "
    "transfers, n = ceil(D/dt) computed from the INPUTS, n = k when D/dt is k up to 1e-9): occupancy[t] <= arrivals of the preceding n steps + unexpired share of the "
    "initial occupants; timed outflow[t] <= arrivals[t-n] (+ init/n for t < n) with EQUALITY when the group has no other exits (never early, never late; in-group moves "
    "keep the clock); plus cohort-exact one-step replay of every elapsed-time bin (incl. the longer/shorter destination rule for transfers); "
    "non-trivial = horizon >= n+2 steps, arrivals > 0 and a cohort released; distinct = spec hash"
)
ASSUMPTIONS = [
    "arrivals = flows into the group through links that are not time-preserving; initial occupants are those at index 0 after the initial junction flush",
    "release-timing equality is asserted only where all populations joined by transfers have the same n; otherwise the occupancy bound with the largest n and the per-bin replay decide",
    "the per-bin matrices TimedCompartment._vals / TimedLink._vals named in the property's anchors are read for the replay",
]
BUDGET = {"quick": 3000, "thorough": 12000}  # thorough = 4x quick: a depth that was run to completion, quiet, at seed 1 (deterministic given the seed)
TIME_CAP = {"quick": 75, "thorough": 1500}
PROFILE = {"p_programs": 0.2, "p_second_type": 0.15, "p_timed": 1.0, "max_timed_motifs": 2, "p_junction": 0.3, "max_ord": 3, "p_function": 0.25, "extreme": 0.1, "p_timed_yfactor": 0.35, "min_steps": 6, "max_steps": 40, "p_transfer": 0.6}


def strategy(tier):
    prof = dict(PROFILE)
    if tier == "thorough":
        prof.update(max_steps=120, max_bins=150, max_pops=4)
    return gen_model.model_specs(prof)


def expected_n(spec, par, pop):
    p = [x for x in spec["pars"] if x["name"] == par][0]
    d = spec["data"]
    D = d["q"][par][pop]["a"]
    D = D * (d.get("yf", {}).get(par, {}).get(pop, 1.0)) * d.get("myf", {}).get(par, 1.0) * (p["ts"] or 1.0)
    r = D / spec["settings"]["dt"]
    k = round(r)
    if abs(r - k) <= 1e-9 * max(1.0, abs(r)):
        n = k
    else:
        n = math.ceil(r)
    return max(1, int(n)), r


def check(spec):
    b, res = simcase.run_spec(spec)
    oracles.check_structure(spec, res, ID, ("links", "timed"))
    rp = replay.Replay(res)
    T = len(res.t)
    feats = set()
    # duration groups: parameter name -> {pop: [timed comps]}
    groups = {}
    for pop in res.model.pops:
        for c in pop.comps:
            if isinstance(c, rp.Timed):
                groups.setdefault(c.duration_group, {}).setdefault(pop.name, []).append(c)
    nontrivial = False
    for gname, bypop in groups.items():
        n_of = {}
        for pop in bypop:
            n_of[pop], r = expected_n(spec, gname, pop)
            feats.add("ratio:int-up-to-rounding" if (abs(r - round(r)) <= 1e-9 * max(1, r) and r != round(r)) else ("ratio:exact-int" if r == round(r) else ("ratio:<1" if r < 1 else "ratio:frac")))
        # units: populations connected by time-preserving cross-population links
        parent = {p: p for p in bypop}

        def find(x):
            while parent[x] != x:
                x = parent[x]
            return x

        # group membership comes from the INPUTS (spec / framework), not from the link classes atomica chose: a link between two
        # members of the group (directly or through an in-group junction 'jg*') is an in-group move whatever class it has
        for pop, comps in bypop.items():
            for c in comps:
                for l in c.outlinks:
                    if l.dest.pop.name != pop and l.dest.pop.name in parent and l.dest in set(bypop[l.dest.pop.name]):
                        parent[find(pop)] = find(l.dest.pop.name)
        units = {}
        for pop in bypop:
            units.setdefault(find(pop), []).append(pop)
        for unit_pops in units.values():
            comps = [c for pop in unit_pops for c in bypop[pop]]
            ns = {n_of[pop] for pop in unit_pops}
            n = max(ns)
            same_n = len(ns) == 1
            member = set(comps)
            A = np.zeros(T)
            flush = np.zeros(T)
            other = np.zeros(T)
            injunc = set()
            for pop in res.model.pops:
                if pop.name in unit_pops:
                    for j in pop.comps:
                        if isinstance(j, rp.Junc) and j.name.startswith("jg") and any(l.source in member for l in j.inlinks):
                            injunc.add(j)
            inside = member | injunc
            for c in comps:
                for l in c.inlinks:
                    if l.source not in inside:
                        A += rp.lv[l]
                for l in c.outlinks:
                    if l is c.flush_link:
                        flush += rp.lv[l]
                    elif l.dest not in inside:
                        other += rp.lv[l]
            for j in injunc:
                for l in j.inlinks:
                    if l.source not in inside:
                        A += rp.lv[l]
                for l in j.outlinks:
                    if l.dest not in inside:
                        other += rp.lv[l]
            occ = sum(rp.cv[c] for c in comps)
            init = [(float(rp.cv[c][0]), n_of[c.pop.name]) for c in comps]
            scale = max(1.0, float(np.max(occ)), float(np.max(A)))
            tol = 1e-9 * scale * max(1, n)
            no_other = float(np.max(other)) == 0.0
            if no_other:
                feats.add("group:no-other-exits")
            if not same_n:
                feats.add("group:mixed-n-across-populations")
            released = False
            for t in range(T):
                bound = float(A[max(0, t - n) : t].sum()) + sum(x * max(0, k - t) / k for x, k in init)
                if occ[t] > bound + tol:
                    raise Violation(ID, "occupancy-bound", "group %s pops %s n=%d index %d: occupancy %r exceeds arrivals of the preceding n steps + unexpired initial occupants %r" % (gname, unit_pops, n, t, float(occ[t]), bound))
                if same_n:
                    rel = (float(A[t - n]) if t >= n else 0.0) + sum(x / k for x, k in init if t < k)
                    if flush[t] > rel + tol:
                        raise Violation(ID, "released-early-or-too-many", "group %s pops %s n=%d index %d: timed outflow %r exceeds the cohort due at this step %r" % (gname, unit_pops, n, t, float(flush[t]), rel))
                    if no_other and abs(flush[t] - rel) > tol:
                        raise Violation(ID, "released-late", "group %s pops %s n=%d index %d: timed outflow %r but the cohort due at this step is %r (no other exits)" % (gname, unit_pops, n, t, float(flush[t]), rel))
                    if t >= n and A[t - n] > 0 and flush[t] > 0:
                        released = True
            if T >= n + 2 and float(A.max()) > 0 and released:
                nontrivial = True
    # cohort-exact replay of every bin
    for ti in range(T - 1):
        nxt = rp.predict_next(ti)
        for c, pb in nxt.items():
            if isinstance(c, rp.Timed):
                got = np.asarray(c._vals[:, ti + 1], dtype=float)
                if got.shape != pb.shape or np.any(np.abs(got - pb) > 1e-9 * max(1.0, float(rp.cv[c][ti]), float(np.sum(pb)))):
                    raise Violation(ID, "bins-replay", "%s/%s index %d->%d: elapsed-time bins %r, cohort-exact rule gives %r" % (c.pop.name, c.name, ti, ti + 1, got.tolist(), pb.tolist()))
                for l in c.inlinks:
                    if isinstance(l, rp.TLink) and l.source.pop is not c.pop and rp.lv[l][ti] > 0:
                        k = l._vals.shape[0]
                        feats.add("transfer:dest-longer" if k < len(got) else ("transfer:dest-shorter" if k > len(got) else "transfer:same-n"))
    return {"nontrivial": nontrivial, "labels": simcase.labels_of(spec) + ["t:" + f for f in sorted(feats)]}
