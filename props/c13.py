"""C13 - active programs set targeted parameters exactly, and reports match the run."""
import math
import numpy as np
from vlib import gen_model, simcase, build, progref, canon
from vlib.runner import Violation, Discard, HarnessError

ID = "C13"
RULE = (
    "cases = ModelSpecs with program sets (1-3 programs sharing targets, several populations/compartments, targets in number/probability/rate/duration/proportion and "
    "non-transition units, one-off and continuous, capacity constraints, saturation, time-varying spending, explicit interaction outcomes) and instructions (start on/off grid, "
    "stop year, alloc/capacity/coverage overwrites); oracle: at every active index eligible = own sum of the targeted compartments at that index, capacity and coverage by the "
    "documented formulas and overwrite precedence, outcome by the documentation-derived coverage-interaction reference, stored parameter = clip(convert(outcome)) with number x "
    "source size/dt and rate/probability /dt (1e-9); Result.get_alloc / get_coverage(capacity|eligible|fraction|number) equal the same numbers at every time; data parameters "
    "that no program targets are bit-identical to the run without programs; non-trivial = some program with 0 < coverage < 1 at an active index and a target needing a conversion; "
    "distinct = spec hash"
)
ASSUMPTIONS = [
    "ties in |outcome-baseline| make the additive fill order implementation-defined: those (parameter, index) pairs are checked against the convex hull only",
    "runs discarded as in C01 (ill-posed junctions, float overflow)",
]
BUDGET = {"quick": 2500, "thorough": 10000}  # thorough = 4x quick: a depth that was run to completion, quiet, at seed 1 (deterministic given the seed)
TIME_CAP = {"quick": 75, "thorough": 1500}
PROFILE = {"p_programs": 1.0, "max_steps": 14, "extreme": 0.05, "p_function": 0.3, "p_timed": 0.3, "p_junction": 0.4, "p_limits": 0.4}


def strategy(tier):
    prof = dict(PROFILE)
    if tier == "thorough":
        prof.update(max_steps=40, max_ord=6, max_pops=4)
    return gen_model.model_specs(prof)


def close(a, b, scale=1.0):
    if a == b or (isinstance(a, float) and isinstance(b, float) and math.isnan(a) and math.isnan(b)):
        return True
    return math.isfinite(a) and math.isfinite(b) and abs(a - b) <= 1e-9 * max(1.0, abs(a), abs(b), scale)


def check(spec, _b=None):
    """_b: (second phase only) the objects of the first phase after the caller edited them in place; spec is then the edited description"""
    if not spec.get("progs"):
        raise Discard("spec without programs")
    if _b is None:
        b, res = simcase.run_spec(spec)
    else:
        b, res = simcase.run_spec(spec, b=_b)
    m = res.model
    dt = float(m.dt)
    t = np.asarray(res.t, dtype=float)
    T = len(t)
    progs = spec["progs"]["progs"]
    instr = spec["instr"]
    pspec = {p["name"]: p for p in spec["pars"]}
    pops = {p.name: p for p in m.pops}
    cv = {(p.name, c.name): np.asarray(c.vals, dtype=float) for p in m.pops for c in p.comps}
    start, stop = instr["start"], (instr["stop"] if instr.get("stop") else math.inf)
    feats = set()
    # --- coverage quantities at every time
    mine = {q["name"]: {"spend": np.zeros(T), "capacity": np.zeros(T), "eligible": np.zeros(T), "fraction": np.zeros(T), "number": np.zeros(T)} for q in progs}
    for q in progs:
        for ti in range(T):
            elig = sum(cv[(pop, c)][ti] for pop in q["pops"] for c in q["comps"])
            r = progref.coverage_at(q, instr, t[ti], dt, elig)
            d = mine[q["name"]]
            d["spend"][ti] = r["spend"]
            d["eligible"][ti] = elig
            d["fraction"][ti] = r["fraction"]
            d["capacity"][ti] = r["capacity_step"] / (dt if r["one_off"] else 1.0)
            d["number"][ti] = elig * r["fraction"] / (dt if r["one_off"] else 1.0)
            if start <= t[ti] <= stop and 0 < r["fraction"] < 1:
                feats.add("partial-coverage")
    # A finished result is self-contained: in one case out of three the caller goes on to edit the SAME program set and instructions
    # objects (preparing the next budget scenario) before asking the first result for its reports - they must still be "the ones that
    # produced those values"
    import itertools, json, zlib

    crc = zlib.crc32(json.dumps(spec, sort_keys=True).encode())
    edited = False
    if _b is None and (crc // 120) % 3 == 0 and b.get("progset") is not None:
        edited = True
        for prog in b["progset"].programs.values():
            prog.spend_data.vals = [3.0 * v + 7.0 for v in prog.spend_data.vals]
            prog.unit_cost.vals = [2.0 * v + 1.0 for v in prog.unit_cost.vals]
            prog.target_comps = list(prog.target_comps)[:1]
        for ts in list(b["instructions"].alloc.values()) + list(b["instructions"].coverage.values()) + list(b["instructions"].capacity.values()):
            ts.vals = [0.5 * v for v in ts.vals]
        feats.add("caller-edited-progset-after-run")
    # the reports are requested from the same Result in an order that varies from case to case, every quantity twice: what is
    # reported must not depend on what was asked before (a report that caches or annualises in place shows on the second request)
    order = list(itertools.permutations(("spend", "capacity", "eligible", "fraction", "number")))[crc % 120]
    requests = []
    for k_, quantity in enumerate(order + order[::-1]):
        rep = res.get_alloc() if quantity == "spend" else res.get_coverage(quantity)
        requests.append((quantity, {name: np.array(arr, dtype=float, copy=True) for name, arr in rep.items()}))
        if k_ < len(order):
            # the caller owns what a report returns: overwriting the returned arrays must not reach the result (or any cache behind it)
            for arr in rep.values():
                if isinstance(arr, np.ndarray) and arr.flags.writeable:
                    arr[...] = -12345.0
    feats.add("report-order:%s-first" % order[0])
    for q in progs:
        for quantity, arrs in requests:
            got = np.asarray(arrs[q["name"]], dtype=float)
            exp = mine[q["name"]][quantity]
            if got.shape != exp.shape:
                raise Violation(ID, "report/%s/shape" % quantity, "program %s: reported %s has shape %r, expected %r" % (q["name"], quantity, got.shape, exp.shape))
            for ti in range(T):
                if not close(float(got[ti]), float(exp[ti]), scale=float(mine[q["name"]]["eligible"][ti]) if quantity in ("number",) else 1.0):
                    raise Violation(ID, "report/%s" % quantity, "program %s index %d (t=%r): Result reports %s = %r, spending/unit cost/eligible compartments at that step give %r (program %r, instructions %r)" % (q["name"], ti, t[ti], quantity, float(got[ti]), float(exp[ti]), q, instr))
    # --- targeted parameters at active indices
    targeted = set()
    for co in spec["progs"]["covouts"]:
        targeted.add((co["par"], co["pop"]))
        pop = pops[co["pop"]]
        par = [p for p in pop.pars if p.name == co["par"]][0]
        sp = pspec[co["par"]]
        lo = sp["min"] if sp.get("min") is not None else -math.inf
        hi = sp["max"] if sp.get("max") is not None else math.inf
        pv = np.asarray(par.vals, dtype=float)
        for ti in range(T):
            if not (start <= t[ti] <= stop):
                continue
            cov = {q["name"]: float(mine[q["name"]]["fraction"][ti]) for q in progs}
            val, ambiguous = progref.outcome(co, cov)
            conv = 1.0
            if sp["fmt"] == "number":
                src = sum(float(np.asarray(l.source.vals, dtype=float)[ti]) for l in par.links)
                conv = src / dt
                feats.add("convert:number")
            elif sp["fmt"] in ("rate", "probability"):
                conv = 1.0 / dt
                feats.add("convert:per-year")
            else:
                feats.add("convert:none(%s)" % sp["fmt"])
            exp = min(max(val * conv, lo), hi)
            got = float(pv[ti])
            if ambiguous:
                feats.add("ties-hull-only")
                allv = [co["base"]] + list(co["progs"].values()) + [float(v) for v in (co.get("imp") or {}).values()]
                lo2, hi2 = min(max(min(allv) * conv, lo), hi), min(max(max(allv) * conv, lo), hi)
                if not (min(lo2, hi2) - 1e-9 * max(1, abs(lo2)) <= got <= max(lo2, hi2) + 1e-9 * max(1, abs(hi2))):
                    raise Violation(ID, "parameter/outside-hull", "%s/%s index %d: value %r outside the hull [%r,%r] of baseline and outcomes" % (co["pop"], co["par"], ti, got, lo2, hi2))
                continue
            if not close(got, exp, scale=abs(conv)):
                raise Violation(ID, "parameter/%s" % (sp["fmt"] or "none"), "%s/%s index %d (t=%r): stored value %r; coverage %r -> outcome %r, converted (x%r) and clipped to [%r,%r] gives %r (covout %r)" % (co["pop"], co["par"], ti, t[ti], got, cov, val, conv, lo, hi, exp, co))
    # --- untargeted data parameters identical to the run without programs
    b2 = dict(b)
    b2["progset"], b2["instructions"] = None, None
    _, res0 = simcase.run_spec(spec, b=b2, check_domain=False)
    for pop0, pop1 in zip(res0.model.pops, m.pops):
        for p0, p1 in zip(pop0.pars, pop1.pars):
            sp = pspec.get(p1.name)
            if sp is None or sp.get("fn") or (p1.name, pop1.name) in targeted:
                continue
            a0, a1 = np.asarray(p0.vals, dtype=float), np.asarray(p1.vals, dtype=float)
            if not np.array_equal(a0, a1, equal_nan=True):
                i = int(np.nonzero(~((a0 == a1) | (np.isnan(a0) & np.isnan(a1))))[0][0])
                raise Violation(ID, "untargeted-parameter-changed", "%s/%s is data driven and not targeted but differs from the run without programs at index %d: %r vs %r" % (pop1.name, p1.name, i, a1[i], a0[i]))
    if edited:
        # ... and the next simulation with the edited objects must follow the EDITED numbers (nothing cached from the first run)
        import copy

        spec2 = copy.deepcopy(spec)
        for q in spec2["progs"]["progs"]:
            q["spend"]["v"] = [3.0 * v + 7.0 for v in q["spend"]["v"]]
            q["cost"]["v"] = [2.0 * v + 1.0 for v in q["cost"]["v"]]
            q["comps"] = list(q["comps"])[:1]
        for key in ("alloc", "coverage", "capacity"):
            for e in spec2["instr"][key].values():
                e["v"] = [0.5 * v for v in e["v"]]
        try:
            check(spec2, _b=b)
        except Violation as v:
            raise Violation(ID, "second-run-after-edit/" + v.bucket, "after the caller edited the program set (spend x3+7, unit cost x2+1, first target compartment only) and the instructions (x0.5) in place and ran again: " + v.detail)
        except Discard:
            pass
        feats.add("second-run-with-edited-objects")
    nontrivial = "partial-coverage" in feats and any(f.startswith("convert:number") or f.startswith("convert:per-year") for f in feats)
    return {"nontrivial": nontrivial, "labels": simcase.labels_of(spec) + ["c13:" + f for f in sorted(feats)]}
