"""C11 - program coverage is a bounded, monotone function of spending.

Direct calls on Program.get_capacity / get_prop_covered and on ProgramSet.get_alloc / get_capacities /
get_prop_coverage with programmatically built programs and instructions.

Oracle (independent of the code under test): a reference computation written from the documentation
(docs/general/programs/Programs.rst, DESIGN Appendix A item 9) plus the laws named in the statement:
bounds, monotonicity in spending / unit cost, capacity-constraint and saturation ceilings, capacity/eligible
when unconstrained, the nobody-eligible value, step independence of the annual reach of one-off programs,
overwrite precedence, stepped interpolation.
"""
import math
import numpy as np
from hypothesis import strategies as st
from vlib.runner import Violation, HarnessError

ID = "C11"
RULE = (
    "cases = one of: 'direct' (one program: one-off/continuous, unit-cost series, optional capacity constraint per year/absolute, optional saturation, "
    "spending and eligible vectors on a time grid, plus a raised-spending and a lowered-unit-cost twin), 'progset' (1-3 programs with book data and any "
    "combination of spending/capacity/coverage overwrites through ProgramInstructions), 'dtsum' (one-off program evaluated over one year at 2-4 step "
    "sizes dividing 1); non-trivial = some coverage strictly between 0 and 1, or a binding capacity constraint / saturation, or an overwrite that changes "
    "the answer, or (dtsum) a positive annual reach at >= 2 step sizes; distinct = distinct case hash"
)
ASSUMPTIONS = [
    "inputs are what real callers pass: float arrays / float scalars, spending >= 0, unit cost > 0, saturation in (0,1e3), eligible >= 0 (including tiny non-zero groups down to 1e-14), magnitudes <= 1e12 (unit cost >= 1e-6)",
    "unit-cost units are drawn from every documented spelling (<currency>/person, <currency>/person (one-off), <currency>/person/year; currencies $, USD, AUD, euro sign); the oracle classifies by the documented rule: no '/year' => one-off",
    "integer arrays are out of scope (np.divide(..., out=ones_like(capacity)) needs floats; callers pass interpolated float arrays)",
    "every time series has data (assumption and/or time points); spending and unit cost are always given",
    "step independence of the annual reach is claimed for no / per-year capacity constraints only (an absolute constraint on a one-off program is per step by definition)",
    "comparison tolerance |a-b| <= 1e-9*max(1,|a|,|b|); monotonicity is checked with the same tolerance",
]
BUDGET = {"quick": 100000, "thorough": 800000}  # thorough = 8x quick: a depth that was run to completion, quiet, at seed 1 (deterministic given the seed)
TIME_CAP = {"quick": 35, "thorough": 1500}

INF = float("inf")
YEARS = [2015.0, 2018.0, 2019.0, 2020.0, 2020.1, 2020.25, 2020.3, 2020.5, 2021.0, 2022.0, 2023.0, 2025.0]
INT_YEARS = [2017.0, 2018.0, 2019.0, 2020.0, 2021.0, 2022.0, 2023.0]
DTS_ANY = [1.0, 0.5, 0.25, 0.2, 0.1, 1.0 / 12, 1.0 / 52, 1.0 / 365, 0.05, 0.3, 0.7, 0.01]
# every documented spelling of the unit-cost units: Programs.rst / Program.is_one_off ('$/person' one-off, '$/person/year' continuous),
# new program books ('<currency>/person (one-off)'), migration.py and most shipped program books (plain '<currency>/person');
# the currency is whatever ProgramSet.currency holds. Documented rule: no '/year' in the unit-cost units => one-off.
UC_UNITS_ONE_OFF = ["$/person (one-off)", "$/person", "USD/person", "USD/person (one-off)", "\u20ac/person", "AUD/person (one-off)"]
UC_UNITS_CONTINUOUS = ["$/person/year", "USD/person/year", "\u20ac/person/year"]
# capacity constraint: 'people/year' or 'people' (the only spellings the program book offers / the docs name)
CON_UNITS = {True: "people/year", False: "people"}
DTS_DIV = [1.0, 0.5, 0.25, 0.2, 0.125, 0.1, 1.0 / 12, 0.05, 1.0 / 52, 0.01, 1.0 / 365]


def tol(a, b):
    return 1e-9 * max(1.0, abs(a), abs(b))


def close(a, b):
    if a == b:
        return True
    if not (math.isfinite(a) and math.isfinite(b)):
        return False
    return abs(a - b) <= tol(a, b)


def uc_units_of(spec):
    """unit-cost units of a program spec (older cases / replays only carry the one_off flag)"""
    u = spec.get("uc_units")
    if u is None:
        u = UC_UNITS_ONE_OFF[0] if spec["one_off"] else UC_UNITS_CONTINUOUS[0]
    return u


def documented_one_off(units):
    """Programs.rst / Program.is_one_off docstring: cost per person = one-off, cost per person per year = continuous"""
    return "/year" not in units


def con_units_of(con):
    return con.get("units") or CON_UNITS[bool(con["per_year"])]


# --------------------------------------------------------------------------- generators
#
# A case is decoded from a fixed-length Hypothesis byte string read as 16-bit integers (a single cheap draw; every
# integer shrinks towards 0 = the simplest choice). Structured strategies built from nested composites cost ~20 ms
# per case and lists of integers ~5 ms, this < 1 ms. The decoded case (plain JSON) is what check() and replays see.

M = 2**16


class Dec:
    def __init__(self, ints):
        self.x = ints
        self.i = 0

    def u(self):
        v = self.x[self.i]
        self.i += 1
        return v

    def choice(self, seq):
        return seq[self.u() % len(seq)]


def _split(k, nsel):
    """selector in range(nsel), magnitude in [0,1)"""
    return k % nsel, (k // nsel) / float(M // nsel + 1)


def _logu(lo, hi, m):
    return float(10.0 ** (lo + (hi - lo) * m))


def v_spend(k):
    s, m = _split(k, 8)
    if s == 0:
        return [0.0, 1000.0, 1.0, 100.0, 1e6, 1e12][int(m * 6)]
    if s <= 4:
        return _logu(-1, 7, m)
    if s <= 6:
        return _logu(-6, 12, m)
    return m * 1e12


def v_uc(k):
    s, m = _split(k, 8)
    if s == 0:
        return [1.0, 10.0, 0.5, 250.0, 1e-6, 1e12][int(m * 6)]
    if s <= 5:
        return _logu(-2, 4, m)
    return _logu(-6, 12, m)


def v_sat(k):
    s, m = _split(k, 8)
    if s <= 1:
        return [1.0, 0.5, 0.3, 0.8, 0.95, 1.5, 5.0, 999.0, 1e-3][int(m * 9)]
    if s <= 3:
        return min(max(m, 1e-9), 1.0)  # (0,1]
    if s <= 6:
        return _logu(-3, 2.99, m)
    return max(m * 999.999, 1e-300)


def v_people(k):
    s, m = _split(k, 8)
    if s == 0:
        return [0.0, 100.0, 1.0, 25.0, 1e6][int(m * 5)]
    if s <= 4:
        return _logu(-1, 7, m)
    if s <= 6:
        return _logu(-3, 12, m)
    return m * 1e12


def v_rel(k):
    s, m = _split(k, 4)
    if s == 0:
        return [1.0, 0.5, 2.0, 0.1, 10.0][int(m * 5)]
    return _logu(-1.5, 1.5, m)


def v_cov(k):
    s, m = _split(k, 8)
    if s == 0:
        return [0.0, 0.5, 1.0, 0.3, 1.5, 4.0][int(m * 6)]
    if s <= 3:
        return m
    if s <= 5:
        return m * 6.0
    return _logu(-3, 3, m)


def v_dt(k):
    s, m = _split(k, 4)
    if s <= 2:
        return DTS_ANY[int(m * len(DTS_ANY))]
    return 0.002 + m * 0.998


def d_series(d, val, years=YEARS, maxpts=4):
    """{'a': assumption|None, 't': [...], 'v': [...]} - always has data. Consumes 3+maxpts ints."""
    ints = [d.u() for _ in range(3 + maxpts)]
    kind = ["a", "many", "one", "many", "a", "many", "both"][ints[0] % 7]
    if kind == "a":
        return {"a": val(ints[1]), "t": [], "v": []}
    k = ints[2]
    npts = 1 if kind == "one" else 2 + k % (maxpts - 1)
    k //= maxpts - 1
    idx = set()
    for _ in range(npts):
        idx.add(k % len(years))
        k //= len(years)
    if kind != "one" and len(idx) < 2:
        idx.add((min(idx) + 1) % len(years))
    t = sorted(years[i] for i in idx)
    return {"a": val(ints[1]) if kind == "both" else None, "t": t, "v": [val(ints[3 + j]) for j in range(len(t))]}


def d_grid(d, dt):
    """5 ints"""
    t0 = d.choice([2020.0, 2019.0, 2014.0, 2020.5, 2021.0, 2024.0])
    kmax = max(1, min(800, int(6.0 / dt)))
    ints = [d.u() for _ in range(4)]
    n = 1 + ints[0] % 4
    ks = sorted(set([(ints[0] // 4) % (kmax + 1)] + [ints[j] % (kmax + 1) for j in range(1, n)]))
    return [t0 + k * dt for k in ks]


def d_constraint(d, years=YEARS, force_per_year=False):
    """8 ints"""
    k = d.u()
    present, per_year, rel = k % 3 != 0, (k // 3) % 2 == 0, (k // 6) % 2 == 0
    s = d_series(d, v_rel if rel else v_people, years)
    if not present:
        return None
    per_year = True if force_per_year else per_year
    return {"per_year": per_year, "units": CON_UNITS[per_year], "rel": rel, "s": s}


def d_optional_series(d, val):
    """8 ints"""
    k = d.u()
    s = d_series(d, val)
    return s if k % 2 else None


def d_eligible(d, n):
    """4 ints"""
    out = []
    ints = [d.u() for _ in range(4)]
    for k in ints[:n]:
        s = k % 6
        k //= 6
        if s == 5:  # tiny but non-empty target groups (models in normalised units): still "somebody eligible"
            out.append(["abs", _logu(-14, -2, (k % 4096) / 4096.0)])
        else:
            out.append(["abs", 0.0] if s == 0 else ["rel", v_rel(k)] if s <= 2 else ["abs", v_people(k)])
    return out


def d_overwrite(d, val, allow_rel=False):
    """7 ints. None | {'rel':bool,'kind':'scalar','v':x} | {'rel':bool,'kind':'series','s':series}"""
    k = d.u()
    kind = [None, "scalar", None, "series"][k % 4]
    rel = allow_rel and (k // 4) % 2 == 1
    s = d_series(d, v_rel if rel else val, maxpts=3)
    if kind is None:
        return None
    if kind == "scalar":
        return {"rel": rel, "kind": "scalar", "v": s["v"][0] if s["v"] else s["a"]}
    return {"rel": rel, "kind": "series", "s": s}


N_DIRECT = 5 + 1 + 1 + 4 + 7 + 8 + 8 + 4 + 2


def decode_direct(ints):
    d = Dec(ints)
    dt = v_dt(d.u())
    tvec = d_grid(d, dt)
    n = len(tvec)
    flags = d.u()
    spend = [v_spend(d.u()) for _ in range(4)][:n]
    uc = d_series(d, v_uc)
    con = d_constraint(d)
    sat = d_optional_series(d, v_sat)
    elig = d_eligible(d, n)
    k = d.u()
    s, m = _split(k, 4)
    if s == 0:
        up = ["mul", [2.0, 1.0, 1.0000001, 1.7, 1000.0][int(m * 5)]]
    elif s <= 2:
        up = ["mul", 1.0 + m * 999.0]
    else:
        up = ["add", _logu(-3, 9, m)]
    s, m = _split(d.u(), 2)
    down = [0.5, 1.0, 0.999999, 0.1, 1e-3][int(m * 5)] if s == 0 else 1e-3 + m * 0.999
    one_off = flags % 2 == 0
    pool = UC_UNITS_ONE_OFF if one_off else UC_UNITS_CONTINUOUS
    return {"mode": "direct", "one_off": one_off, "uc_units": pool[(flags // 6) % len(pool)], "dt": dt, "tvec": tvec, "spend": spend, "uc": uc, "con": con, "sat": sat, "elig": elig, "spend_up": up, "uc_down": down, "scalar_call": (flags // 2) % 3 == 2}


N_PROG = 1 + 7 + 7 + 8 + 8 + 4 + 3 * 7


def decode_progset(nprogs):
    def dec(ints):
        d = Dec(ints)
        dt = v_dt(d.u())
        tvec = d_grid(d, dt)
        n = len(tvec)
        flags = d.u()
        progs = []
        for _ in range(nprogs):
            k = d.u()
            one_off = k % 2 == 0
            pool = UC_UNITS_ONE_OFF if one_off else UC_UNITS_CONTINUOUS
            progs.append(
                {
                    "one_off": one_off,
                    "uc_units": pool[(k // 2) % len(pool)],
                    "spend": d_series(d, v_spend),
                    "uc": d_series(d, v_uc),
                    "con": d_constraint(d),
                    "sat": d_optional_series(d, v_sat),
                    "elig": d_eligible(d, n),
                    "ow_alloc": d_overwrite(d, v_spend),
                    "ow_cap": d_overwrite(d, v_people, allow_rel=True),
                    "ow_cov": d_overwrite(d, v_cov),
                }
            )
        return {"mode": "progset", "dt": dt, "tvec": tvec, "start_year": [2020.0, 2016.0, 2020.5, 2022.0][flags % 4], "progs": progs, "inst_none_if_empty": (flags // 4) % 2 == 0, "alloc_progset": (flags // 8) % 8 == 7}

    return dec


N_DTSUM = 1 + 1 + 7 + 7 + 8 + 1 + 7


def decode_dtsum(ints):
    d = Dec(ints)
    k = d.u()
    nd = 2 + k % 3
    k //= 3
    idx = set()
    for _ in range(nd):
        idx.add(k % len(DTS_DIV))
        k //= len(DTS_DIV)
    if len(idx) < 2:
        idx.add((min(idx) + 2) % len(DTS_DIV))
    year = d.choice([2020.0, 2016.0, 2018.0, 2019.0, 2021.0, 2024.0])
    spend = d_series(d, v_spend, years=INT_YEARS)
    uc = d_series(d, v_uc, years=INT_YEARS)
    con = d_constraint(d, years=INT_YEARS, force_per_year=True)
    k = d.u()
    ow = [None, "spending", None, "capacity"][k % 4]
    via = ["progset", "program", "progset"][(k // 4) % 3]
    ow_s = d_series(d, lambda q: [0.0, 100.0][q // 8 % 2] if q % 8 == 0 else _logu(-1, 7, _split(q, 8)[1]), years=INT_YEARS)
    uc_units = UC_UNITS_ONE_OFF[(k // 12) % len(UC_UNITS_ONE_OFF)]
    return {"mode": "dtsum", "uc_units": uc_units, "dts": sorted(idx), "year": year, "spend": spend, "uc": uc, "con": con, "ow": ow, "ow_s": ow_s, "via": via}


def _ints(n):
    return st.binary(min_size=2 * n, max_size=2 * n).map(lambda b: [b[2 * i] * 256 + b[2 * i + 1] for i in range(n)])


N_ALL = 1 + max(N_DIRECT, 7 + 3 * N_PROG, N_DTSUM)


def decode(ints):
    k = ints[0] % 20  # 50 % direct, 35 % progset (1/2/3 programs), 15 % dtsum
    rest = ints[1:]
    if k < 10:
        return decode_direct(rest)
    if k < 17:
        return decode_progset(1 if k < 13 else 2 if k < 15 else 3)(rest)
    return decode_dtsum(rest)


_STRATEGY = _ints(N_ALL).map(decode)


def strategy(tier):
    return _STRATEGY


def static_cases(tier):
    """the worked examples of Programs.rst"""
    A = lambda v: {"a": v, "t": [], "v": []}
    # 1000 $/year, 10 $/person, dt 0.25 -> 25 people in the quarter
    yield {"mode": "direct", "one_off": True, "dt": 0.25, "tvec": [2020.0, 2020.25], "spend": [1000.0, 1000.0], "uc": A(10.0), "con": None, "sat": None, "elig": [["abs", 100.0], ["abs", 10.0]], "spend_up": ["mul", 2.0], "uc_down": 0.5, "scalar_call": False}
    # treatment example: capacity 100, constraint 50, 25 eligible -> coverage 1
    yield {"mode": "direct", "one_off": False, "dt": 0.25, "tvec": [2020.0], "spend": [1000.0], "uc": A(10.0), "con": {"per_year": False, "rel": False, "s": A(50.0)}, "sat": None, "elig": [["abs", 25.0]], "spend_up": ["mul", 2.0], "uc_down": 0.5, "scalar_call": True}
    # the same with the plain '$/person' spelling used by Programs.rst, migrated program sets and most shipped program books
    yield {"mode": "dtsum", "uc_units": "$/person", "dts": list(range(len(DTS_DIV))), "year": 2020.0, "spend": A(1000.0), "uc": A(10.0), "con": None, "ow": None, "ow_s": A(1.0), "via": "progset"}
    yield {"mode": "dtsum", "dts": list(range(len(DTS_DIV))), "year": 2020.0, "spend": A(1000.0), "uc": A(10.0), "con": None, "ow": None, "ow_s": A(1.0), "via": "progset"}


# --------------------------------------------------------------------------- reference


def ref_prev(s, t):
    """stepped interpolation: latest entry at or before t; before the first entry the first value; assumption only if no time points"""
    if s["t"]:
        pairs = sorted(zip(s["t"], s["v"]))
        val = pairs[0][1]
        for ti, vi in pairs:
            if ti <= t:
                val = vi
            else:
                break
        return float(val)
    return float(s["a"])


def scaled(s, f):
    return {"a": None if s["a"] is None else s["a"] * f, "t": list(s["t"]), "v": [v * f for v in s["v"]]}


def ref_raw_capacity(one_off, spend, uc, dt):
    return (spend * dt if one_off else spend) / uc


def ref_limit(con, t, dt):
    if con is None:
        return None
    c = ref_prev(con["s"], t)
    return c * dt if con["per_year"] else c


def ref_capacity(one_off, spend, uc, lim, dt):
    c = ref_raw_capacity(one_off, spend, uc, dt)
    return c if lim is None else min(c, lim)


def ref_coverage(cap, elig, sat):
    if sat is None:
        return 1.0 if elig <= cap else cap / elig
    x = INF if elig == 0 else cap / elig
    y = sat if math.isinf(x) or math.isinf(x / sat) else sat * math.tanh(x / sat)
    return min(y, 1.0)


def resolve_constraint(con, base_people, dt):
    """'rel' constraints are multiples of the nominal capacity so that they bind about half of the time"""
    if con is None or not con["rel"]:
        return con
    f = base_people / dt if con["per_year"] else base_people
    return {"per_year": con["per_year"], "units": con_units_of(con), "rel": False, "s": scaled(con["s"], f)}


# --------------------------------------------------------------------------- builders

_BASE = None


def _base(at):
    global _BASE
    if _BASE is None:
        try:
            import pandas as pd

            at.logger.setLevel("CRITICAL")
            comp = lambda c: {"code name": c, "display name": "C " + c, "is source": "n", "is sink": "n", "is junction": "n", "databook page": "comps", "default value": None}
            par = {"code name": "foi", "display name": "P foi", "format": "probability", "function": None, "databook page": "pars", "default value": 0.1, "minimum value": None, "maximum value": None, "timescale": None, "targetable": "y", "timed": "n", "is derivative": "n"}
            F = at.ProjectFramework()
            F.sheets["compartments"] = [pd.DataFrame([comp("sus"), comp("inf")])]
            F.sheets["parameters"] = [pd.DataFrame([par])]
            names = ["sus", "inf"]
            T = pd.DataFrame(None, index=names, columns=names, dtype=object)
            T.loc["sus", "inf"] = "foi"
            T.insert(0, "default", T.index)
            F.sheets["transitions"] = [T.reset_index(drop=True)]
            F._validate()
            D = at.ProjectData.new(F, np.array([2020.0, 2021.0]), pops={"adults": "Adults"}, transfers=0)
        except Exception as e:  # noqa
            raise HarnessError("cannot build the minimal framework/data for the ProgramSet: %r" % (e,))
        _BASE = (F, D)
    return _BASE


def mk_ts(at, s, units):
    return at.TimeSeries(t=list(s["t"]) if s["t"] else None, vals=list(s["v"]) if s["t"] else None, units=units, assumption=s["a"])


def mk_prog(at, name, uc_units, uc, con, sat, spend=None):
    currency = uc_units.split("/")[0]
    p = at.Program(name, "Program " + name, target_pops=["adults"], target_comps=["sus"], currency=currency)
    p.unit_cost = mk_ts(at, uc, uc_units)
    if con is not None:
        p.capacity_constraint = mk_ts(at, con["s"], con_units_of(con))
    if sat is not None:
        p.saturation = mk_ts(at, sat, "N.A.")
    if spend is not None:
        p.spend_data = mk_ts(at, spend, currency + "/year")
    return p


def classification_law(prog, uc_units, case):
    got = call("is_one_off", lambda: prog.is_one_off)
    if bool(got) != documented_one_off(uc_units):
        raise Violation(ID, "one-off/classification-by-unit-cost-units", "unit cost units %r: is_one_off = %r, documented rule (no '/year' => one-off) gives %r; case %r" % (uc_units, got, documented_one_off(uc_units), case))


def mk_progset(at, progs):
    F, D = _base(at)
    try:
        ps = at.ProgramSet("c11", framework=F, data=D, tvec=np.array([2020.0, 2021.0]))
        for p in progs:
            ps.programs[p.name] = p
    except Exception as e:  # noqa
        raise HarnessError("cannot build the ProgramSet: %r" % (e,))
    return ps


def call(where, f, *a, **k):
    try:
        return f(*a, **k)
    except Exception as e:  # noqa - the functions are total on the stated domain
        raise Violation(ID, "crash/%s/%s" % (where, type(e).__name__), "%r" % (e,))


def as_list(where, x, n, case):
    x = np.asarray(x, dtype=float).ravel()
    if x.size != n:
        raise Violation(ID, "shape/" + where, "expected %d values, got %r; case %r" % (n, x.tolist(), case))
    return [float(v) for v in x]


# --------------------------------------------------------------------------- laws on one evaluated point


def point_laws(where, case, i, one_off, cap, cov, elig, lim, sat, raw_cap, labels):
    """cap = capacity fed to the coverage step (people), raw_cap = spending-derived capacity before the constraint (None if unknown)"""
    ctx = "index %d capacity %r eligible %r limit %r saturation %r coverage %r case %r" % (i, cap, elig, lim, sat, cov, case)
    if not math.isfinite(cov) or cov < 0.0 or cov > 1.0:
        raise Violation(ID, where + "/coverage-outside-[0,1]", ctx)
    if lim is not None and elig > 0 and cov > lim / elig + tol(cov, lim / elig):
        raise Violation(ID, where + "/above-capacity-constraint", ctx)
    if sat is not None and cov > sat + tol(cov, sat):
        raise Violation(ID, where + "/above-saturation", ctx)
    if elig == 0:
        exp = 1.0 if sat is None else min(sat, 1.0)
        if not close(cov, exp):
            raise Violation(ID, where + "/nobody-eligible", "expected %r; %s" % (exp, ctx))
    elif sat is None and cap / elig < 1.0:
        if not close(cov, cap / elig):
            raise Violation(ID, where + "/linear-part-not-capacity-over-eligible", "expected %r; %s" % (cap / elig, ctx))
    ref = ref_coverage(cap, elig, sat)
    if not close(cov, ref):
        raise Violation(ID, where + "/reference-coverage", "reference %r; %s" % (ref, ctx))
    nontrivial = 0.0 < cov < 1.0
    labels.add("coverage:" + ("0" if cov == 0 else "1" if cov == 1 else "(0,1)"))
    labels.add("eligible:zero" if elig == 0 else "eligible:positive")
    if lim is not None and raw_cap is not None and lim < raw_cap:
        labels.add("binding:capacity-constraint")
        nontrivial = True
    if sat is not None and elig > 0 and not close(cov, ref_coverage(cap, elig, None)):
        labels.add("binding:saturation")
        nontrivial = True
    return nontrivial


def series_label(s):
    return "assumption" if not s["t"] else "single-point" if len(s["t"]) == 1 else "time-varying"


def dt_label(dt):
    for name, v in (("1", 1.0), ("1/2", 0.5), ("1/4", 0.25), ("1/5", 0.2), ("1/8", 0.125), ("1/10", 0.1), ("1/12", 1.0 / 12), ("1/20", 0.05), ("1/52", 1.0 / 52), ("1/100", 0.01), ("1/365", 1.0 / 365)):
        if dt == v:
            return "dt:" + name
    return "dt:other"


def prog_labels(labels, one_off, con, sat, uc_units=None):
    labels.add("kind:one-off" if one_off else "kind:continuous")
    if uc_units is not None:
        labels.add("unit-cost-units:" + uc_units)
    labels.add("saturation:" + ("no" if sat is None else "yes"))
    labels.add("constraint:" + ("none" if con is None else "per-year" if con["per_year"] else "absolute"))


# --------------------------------------------------------------------------- direct mode


def eval_direct(at, case, spend, uc, con, scalar_call, elig=None):
    """capacity (and coverage if elig is given) from the code under test"""
    tvec = np.array(case["tvec"], dtype=float)
    n = len(tvec)
    prog = mk_prog(at, "A", uc_units_of(case), uc, con, case["sat"])
    if scalar_call:
        cap = [as_list("capacity", call("get_capacity", prog.get_capacity, tvec[i], float(spend[i]), case["dt"]), 1, case)[0] for i in range(n)]
    else:
        cap = as_list("capacity", call("get_capacity", prog.get_capacity, tvec, np.array(spend, dtype=float), case["dt"]), n, case)
    if elig is None:
        return cap, None, prog
    if scalar_call:  # the way Model.update_pars calls it: scalar time, numpy scalar capacity, float eligible
        cov = [as_list("coverage", call("get_prop_covered", prog.get_prop_covered, tvec[i], np.float64(cap[i]), float(elig[i])), 1, case)[0] for i in range(n)]
    else:
        cov = as_list("coverage", call("get_prop_covered", prog.get_prop_covered, tvec, np.array(cap, dtype=float), np.array(elig, dtype=float)), n, case)
    return cap, cov, prog


def check_direct(at, case):
    uc_units = uc_units_of(case)
    one_off, dt, tvec, spend = documented_one_off(uc_units), case["dt"], case["tvec"], case["spend"]
    n = len(tvec)
    uc = case["uc"]
    uc_t = [ref_prev(uc, t) for t in tvec]
    base = ref_raw_capacity(one_off, spend[0], uc_t[0], dt)
    con = resolve_constraint(case["con"], base, dt)
    sat_t = [None if case["sat"] is None else ref_prev(case["sat"], t) for t in tvec]
    lim_t = [ref_limit(con, t, dt) for t in tvec]
    raw_t = [ref_raw_capacity(one_off, spend[i], uc_t[i], dt) for i in range(n)]
    cap_ref = [ref_capacity(one_off, spend[i], uc_t[i], lim_t[i], dt) for i in range(n)]
    elig = [(v if k == "abs" else v * cap_ref[i]) for i, (k, v) in enumerate(case["elig"])]
    labels = set(["mode:direct", "call:" + ("scalar" if case["scalar_call"] else "vector"), dt_label(dt), "unit-cost-series:" + series_label(uc)])
    prog_labels(labels, one_off, con, case["sat"], uc_units)

    cap, cov, prog = eval_direct(at, case, spend, uc, con, case["scalar_call"], elig)
    # stepped interpolation of the program's own series
    for nm, ts, s in (("unit_cost", prog.unit_cost, uc), ("capacity_constraint", prog.capacity_constraint, None if con is None else con["s"]), ("saturation", prog.saturation, case["sat"])):
        if s is None:
            continue
        got = as_list("interpolate", call("interpolate", ts.interpolate, np.array(tvec, dtype=float), method="previous"), n, case)
        for i in range(n):
            if got[i] != ref_prev(s, tvec[i]):
                raise Violation(ID, "interpolation/previous", "%s at t=%r: got %r, value in force %r; series %r" % (nm, tvec[i], got[i], ref_prev(s, tvec[i]), s))
    nontrivial = False
    for i in range(n):
        if not close(cap[i], cap_ref[i]):
            raise Violation(ID, "direct/reference-capacity", "index %d capacity %r reference %r (spend %r unit cost %r limit %r dt %r one_off %r) case %r" % (i, cap[i], cap_ref[i], spend[i], uc_t[i], lim_t[i], dt, one_off, case))
        if lim_t[i] is not None and cap[i] > lim_t[i] + tol(cap[i], lim_t[i]):
            raise Violation(ID, "direct/capacity-above-constraint", "index %d capacity %r limit %r case %r" % (i, cap[i], lim_t[i], case))
        nontrivial |= point_laws("direct", case, i, one_off, cap[i], cov[i], elig[i], lim_t[i], sat_t[i], raw_t[i], labels)

    classification_law(prog, uc_units, case)
    # more spending, everything else fixed
    kind, f = case["spend_up"]
    spend2 = [s * f if kind == "mul" else s + f for s in spend]
    cap2, cov2, _ = eval_direct(at, case, spend2, uc, con, case["scalar_call"], elig)
    for i in range(n):
        if cap2[i] < cap[i] - tol(cap[i], cap2[i]) or cov2[i] < cov[i] - tol(cov[i], cov2[i]):
            raise Violation(ID, "monotone/spending", "index %d spending %r->%r capacity %r->%r coverage %r->%r eligible %r case %r" % (i, spend[i], spend2[i], cap[i], cap2[i], cov[i], cov2[i], elig[i], case))
    # lower unit cost, everything else fixed
    uc3 = scaled(uc, case["uc_down"])
    cap3, cov3, _ = eval_direct(at, case, spend, uc3, con, case["scalar_call"], elig)
    for i in range(n):
        if cap3[i] < cap[i] - tol(cap[i], cap3[i]) or cov3[i] < cov[i] - tol(cov[i], cov3[i]):
            raise Violation(ID, "monotone/unit-cost", "index %d unit cost x%r capacity %r->%r coverage %r->%r eligible %r case %r" % (i, case["uc_down"], cap[i], cap3[i], cov[i], cov3[i], elig[i], case))
    if any(cov2[i] > cov[i] for i in range(n)):
        labels.add("monotone:strict-increase-seen")
    return {"nontrivial": nontrivial, "labels": sorted(labels)}


# --------------------------------------------------------------------------- progset mode


def mk_overwrite(at, ow, f=1.0):
    if ow is None:
        return None
    if ow["kind"] == "scalar":
        return ow["v"] * f
    return mk_ts(at, scaled(ow["s"], f), None)


def ref_overwrite(ow, t, f=1.0):
    if ow["kind"] == "scalar":
        return ow["v"] * f  # a scalar is assigned to the start year: one entry, in force everywhere
    return ref_prev(scaled(ow["s"], f), t)


def check_progset(at, case):
    dt, tvec = case["dt"], case["tvec"]
    n = len(tvec)
    labels = set(["mode:progset", dt_label(dt), "programs:%d" % len(case["progs"])])
    names = ["P%d" % i for i in range(len(case["progs"]))]
    progs, refs = [], []
    alloc_ow, cap_ow, cov_ow = {}, {}, {}
    from_ps = bool(case.get("alloc_progset"))
    eff_alloc = []
    for name, p in zip(names, case["progs"]):
        one_off = documented_one_off(uc_units_of(p))
        step = dt if one_off else 1.0
        if from_ps:
            # ProgramInstructions(alloc=<ProgramSet>): every program's spending is frozen at its book value in force in the start year
            p = dict(p, ow_alloc={"rel": False, "kind": "scalar", "v": ref_prev(p["spend"], case["start_year"])})
        eff_alloc.append(p["ow_alloc"])
        uc_t = [ref_prev(p["uc"], t) for t in tvec]
        book_spend = [ref_prev(p["spend"], t) for t in tvec]
        spend_t = book_spend if p["ow_alloc"] is None else [ref_overwrite(p["ow_alloc"], t) for t in tvec]
        base = ref_raw_capacity(one_off, spend_t[0], uc_t[0], dt)
        con = resolve_constraint(p["con"], base, dt)
        lim_t = [ref_limit(con, t, dt) for t in tvec]
        raw_t = [ref_raw_capacity(one_off, spend_t[i], uc_t[i], dt) for i in range(n)]
        cap_from_spend = [ref_capacity(one_off, spend_t[i], uc_t[i], lim_t[i], dt) for i in range(n)]
        cap_from_book = [ref_capacity(one_off, book_spend[i], uc_t[i], lim_t[i], dt) for i in range(n)]
        capf = 1.0
        if p["ow_cap"] is not None:
            # overwrite is given in people/year: per-step value for one-off programs is x dt. 'rel' = multiple of the nominal annual capacity
            capf = (base / step) if p["ow_cap"]["rel"] else 1.0
            cap_t = [ref_overwrite(p["ow_cap"], t, capf) * step for t in tvec]
        else:
            cap_t = cap_from_spend
        elig = [(v if k == "abs" else v * cap_t[i]) for i, (k, v) in enumerate(p["elig"])]
        sat_t = [None if p["sat"] is None else ref_prev(p["sat"], t) for t in tvec]
        cov_stage = [ref_coverage(cap_t[i], elig[i], sat_t[i]) for i in range(n)]
        if p["ow_cov"] is not None:
            cov_t = [min(ref_overwrite(p["ow_cov"], t) * step, 1.0) for t in tvec]
        else:
            cov_t = cov_stage
        progs.append(mk_prog(at, name, uc_units_of(p), p["uc"], con, p["sat"], spend=p["spend"]))
        if p["ow_alloc"] is not None:
            alloc_ow[name] = mk_overwrite(at, p["ow_alloc"])
        if p["ow_cap"] is not None:
            cap_ow[name] = mk_overwrite(at, p["ow_cap"], capf)
        if p["ow_cov"] is not None:
            cov_ow[name] = mk_overwrite(at, p["ow_cov"])
        refs.append(dict(spend=spend_t, cap=cap_t, cov=cov_t, elig=elig, lim=lim_t, sat=sat_t, raw=raw_t, cov_stage=cov_stage, cap_from_spend=cap_from_spend, cap_from_book=cap_from_book, book_spend=book_spend, con=con))
        prog_labels(labels, one_off, con, p["sat"], uc_units_of(p))
        combo = "+".join(k for k, o in (("spending", p["ow_alloc"]), ("capacity", p["ow_cap"]), ("coverage", p["ow_cov"])) if o is not None) or "none"
        labels.add("overwrites:" + combo)
        for k, o in (("spending", p["ow_alloc"]), ("capacity", p["ow_cap"]), ("coverage", p["ow_cov"])):
            if o is not None:
                labels.add("overwrite-%s:%s" % (k, "from-progset" if (from_ps and k == "spending") else o["kind"] if o["kind"] == "scalar" else series_label(o["s"])))
        labels.add("book-spending-series:" + series_label(p["spend"]))

    ps = mk_progset(at, progs)
    any_ow = bool(alloc_ow or cap_ow or cov_ow)
    if not any_ow and case["inst_none_if_empty"]:
        inst = None
        labels.add("instructions:none")
    else:
        inst = call("ProgramInstructions", at.ProgramInstructions, case["start_year"], alloc=ps if from_ps else (alloc_ow or None), capacity=cap_ow or None, coverage=cov_ow or None)
    tv = np.array(tvec, dtype=float)
    alloc = call("get_alloc", ps.get_alloc, tv, inst)
    caps = call("get_capacities", ps.get_capacities, tv, dt, inst)
    num_elig = {nm: np.array(r["elig"], dtype=float) for nm, r in zip(names, refs)}
    cov = call("get_prop_coverage", ps.get_prop_coverage, tv, dt, caps, num_elig, inst)
    nontrivial = False
    for nm, p, r, ea in zip(names, case["progs"], refs, eff_alloc):
        p = dict(p, ow_alloc=ea)
        for what, d in (("alloc", alloc), ("capacities", caps), ("coverage", cov)):
            if nm not in d:
                raise Violation(ID, "progset/missing-program", "%s has no entry for %s; case %r" % (what, nm, case))
        a = as_list("alloc", alloc[nm], n, case)
        c = as_list("capacities", caps[nm], n, case)
        v = as_list("prop_coverage", cov[nm], n, case)
        one_off = documented_one_off(uc_units_of(p))
        for i in range(n):
            ctx = "program %s index %d t=%r dt=%r units=%r one_off=%r; case %r" % (nm, i, tvec[i], dt, uc_units_of(p), one_off, case)
            if not close(a[i], r["spend"][i]):
                b = "precedence/spending-overwrite-vs-book" if p["ow_alloc"] is not None and close(a[i], r["book_spend"][i]) else "progset/reference-spending"
                raise Violation(ID, b, "spending %r reference %r (book %r); %s" % (a[i], r["spend"][i], r["book_spend"][i], ctx))
            if not close(c[i], r["cap"][i]):
                if p["ow_cap"] is not None and close(c[i], r["cap_from_spend"][i]):
                    b = "precedence/capacity-overwrite-vs-spending"
                elif p["ow_alloc"] is not None and p["ow_cap"] is None and close(c[i], r["cap_from_book"][i]):
                    b = "precedence/spending-overwrite-vs-book"
                else:
                    b = "progset/reference-capacity"
                raise Violation(ID, b, "capacity %r reference %r (from spending %r); %s" % (c[i], r["cap"][i], r["cap_from_spend"][i], ctx))
            if not (math.isfinite(v[i]) and 0.0 <= v[i] <= 1.0):
                raise Violation(ID, "progset/coverage-outside-[0,1]", "coverage %r; %s" % (v[i], ctx))
            if not close(v[i], r["cov"][i]):
                b = "precedence/coverage-overwrite-vs-capacity" if p["ow_cov"] is not None and close(v[i], r["cov_stage"][i]) else "progset/reference-coverage"
                raise Violation(ID, b, "coverage %r reference %r (from capacity %r); %s" % (v[i], r["cov"][i], r["cov_stage"][i], ctx))
            if p["ow_cov"] is None:
                raw = r["raw"][i] if p["ow_cap"] is None else None
                lim = r["lim"][i] if p["ow_cap"] is None else None  # a capacity overwrite replaces the whole capacity stage
                nontrivial |= point_laws("progset", case, i, one_off, c[i], v[i], r["elig"][i], lim, r["sat"][i], raw, labels)
            else:
                labels.add("coverage:" + ("0" if v[i] == 0 else "1" if v[i] == 1 else "(0,1)"))
                nontrivial |= 0.0 < v[i] < 1.0
            # does an overwrite actually change the answer?
            if p["ow_alloc"] is not None and not close(r["spend"][i], r["book_spend"][i]):
                labels.add("effective:spending-overwrite")
                nontrivial = True
            if p["ow_cap"] is not None and not close(r["cap"][i], r["cap_from_spend"][i]):
                labels.add("effective:capacity-overwrite")
                nontrivial = True
            if p["ow_cov"] is not None and not close(r["cov"][i], r["cov_stage"][i]):
                labels.add("effective:coverage-overwrite")
                nontrivial = True
    for prog, p in zip(progs, case["progs"]):
        classification_law(prog, uc_units_of(p), case)
    return {"nontrivial": nontrivial, "labels": sorted(labels)}


# --------------------------------------------------------------------------- dtsum mode


def check_dtsum(at, case):
    Y = case["year"]
    spend_book = ref_prev(case["spend"], Y)
    uc = ref_prev(case["uc"], Y)
    ow = case["ow"]
    spend = ref_prev(case["ow_s"], Y) if ow == "spending" else spend_book
    base_annual = spend / uc
    con = case["con"]
    if con is not None and con["rel"]:
        con = {"per_year": True, "units": con_units_of(con), "rel": False, "s": scaled(con["s"], base_annual)}
    expected = base_annual if con is None else min(base_annual, ref_prev(con["s"], Y))
    if ow == "capacity":
        expected = ref_prev(case["ow_s"], Y)
    uc_units = case.get("uc_units") or UC_UNITS_ONE_OFF[0]
    if not documented_one_off(uc_units):
        raise HarnessError("dtsum case with continuous unit-cost units %r" % (uc_units,))
    labels = set(["mode:dtsum", "kind:one-off", "unit-cost-units:" + uc_units, "via:" + case["via"], "constraint:" + ("none" if con is None else "per-year"), "overwrites:" + (ow or "none")])
    via = "progset" if ow else case["via"]
    annual = {}
    for k in case["dts"]:
        dt = DTS_DIV[k]
        nsteps = int(round(1.0 / dt))
        tv = Y + np.arange(nsteps) * dt
        prog = mk_prog(at, "A", uc_units, case["uc"], con, None, spend=case["spend"])
        if via == "program":
            sp = np.array([ref_prev(case["spend"], t) for t in tv], dtype=float)
            cap = call("get_capacity", prog.get_capacity, tv, sp, dt)
        else:
            ps = mk_progset(at, [prog])
            inst = None
            if ow == "spending":
                inst = at.ProgramInstructions(2018.0, alloc={"A": mk_ts(at, case["ow_s"], None)})
            elif ow == "capacity":
                inst = at.ProgramInstructions(2018.0, capacity={"A": mk_ts(at, case["ow_s"], None)})
            cap = call("get_capacities", ps.get_capacities, tv, dt, inst)["A"]
        cap = as_list("capacity", cap, nsteps, case)
        annual[dt] = math.fsum(cap)
        labels.add(dt_label(dt))
        if not close(annual[dt], expected):
            raise Violation(ID, "one-off/annual-reach-depends-on-step", "year %r dt %r: sum over %d steps %r, spend/unit cost (constraint, overwrite applied) %r; case %r" % (Y, dt, nsteps, annual[dt], expected, case))
    classification_law(prog, uc_units, case)
    vals = list(annual.values())
    if not close(max(vals), min(vals)):
        raise Violation(ID, "one-off/annual-reach-depends-on-step", "annual totals %r case %r" % (annual, case))
    return {"nontrivial": expected > 0 and len(vals) >= 2, "labels": sorted(labels)}


def check(case):
    import atomica as at

    mode = case["mode"]
    if mode == "direct":
        return check_direct(at, case)
    if mode == "progset":
        return check_progset(at, case)
    if mode == "dtsum":
        return check_dtsum(at, case)
    raise HarnessError("unknown mode %r" % (mode,))
