"""C20 - reported aggregates depend only on what was asked for and add up; cascades; plotting is read-only.

Oracle (metamorphic + differential against own sums over the model arrays, never against PlotData's own aggregation):
  * every series of PlotData(result, outputs, pops, methods) equals the value computed here from the arrays of the model
    objects, for every ordered subset of the requested outputs and of the requested population items (so the value cannot
    depend on what else was asked or in which order); a mismatch is classified with a singleton request;
  * 'sum' = sum of parts, 'average' / 'weighted' inside [min part, max part] and equal to the documented (size weighted)
    mean; default methods are the documented per-quantity ones; pops='total' of a number quantity = sum over populations;
  * time aggregation / interpolation: same value alone or inside a list, sums stay sums, bin values inside the range of the
    interpolated series (NaN for bins that leave the simulation), interpolate() == linear interpolation of the own value;
  * get_cascade_vals == own sum of the constituents and never increases along a nested cascade; get_cascade_data == own
    sum of the databook entries of each stage's constituents;
  * a digest of every array held by the Result is unchanged by the whole sequence, by plot/export calls and by in-place
    edits of everything those calls returned.
"""
import os
import itertools
import tempfile
import numpy as np
from hypothesis import strategies as st
from vlib import gen_model, simcase
from vlib import c20_helpers as H
from vlib.runner import Violation, Discard, HarnessError

ID = "C20"
RULE = (
    "cases = {spec|lib, request}: results of generated 1-3 population ModelSpecs (80%; 35% simulated with a generated program set; databook compartment "
    "sizes scaled by one factor from 1e-12 to 1e9) or of the library projects hypertension/hiv/diabetes/"
    "tb_simple/udt (20%, short runs cached per process, half of them with the library program book) x a request = list of <=4 (quick) / <=5 (thorough) outputs mixing plain names, flow "
    "selectors, named aggregations of homogeneous units (number-like and dimensionless), formulas; population items (names, groups, 'total', all); "
    "explicit or default output/pop aggregation methods; optional time bins (width / edges / 'all', integrate / average / default), interpolation years; "
    "result cascades (framework by name/index/None, ad hoc lists and nested dicts) and data cascades (stages over databook quantities, usually sharing "
    "constituents) with years; 0-2 (quick; 0-3 with programs) plot/export/reporting calls in drawn order, some repeated (plot_series, plot_bars, plot_cascade, cascade series, export_raw, "
    "export_results, Result.plot and, with programs, PlotData.programs for every quantity with optional bins/accumulation/plot, get_coverage, get_alloc, "
    "get_equivalent_alloc), the Result digest (every stored array incl. the program cache) taken before and after each; every characteristic without "
    "denominator must hold the sum of its member compartments; Result.export_raw is compared row by row with the stocks, characteristics, parameters and "
    "annualised flows (sum over the links of one name of link.vals/dt); PlotData.programs values are compared with the Result's per-step program values, binned "
    "as a step function ('previous') and accumulated (exact grids dt in {1,1/2,1/4,1/8} with bin edges on time steps); data cascades also on databook copies "
    "with an 'All' row next to (other) own rows.  Inside check() every ordered subset of the output list and of the population list is "
    "requested (exhaustive over that finite space), plus pops='total', the same request for two results in one call (both orders) and, for 0-2 further runs of the same project "
    "on other time grids (other dt / start / end), every ordered subset of the results in one call; extra databook entries in several years and year lists in drawn (unsorted) order for the data cascades.  non-trivial = (>=2 populations and the request mixes number and dimensionless outputs) or a "
    "data cascade whose stages share constituents; distinct = distinct case hash"
)
ASSUMPTIONS = [
    "each named aggregation combines quantities of one unit class (atomica only warns about mixed units; the default method for mixed units is not defined)",
    "'weighted' output aggregation is only requested for quantities that have a weight (compartments, characteristics, flows and transition parameters whose source compartments are ordinary); time points where the weights sum to 0 are not compared",
    "the default method of 'rate' and 'duration' parameters is not documented: only its consistency (same as a singleton request) is asserted",
    "stage constituents of generated cascades are disjoint within a stage and nested between stages; cascades atomica refuses are discarded and counted",
    "exceptions raised inside plot_* / export_* calls are counted (labels) but are not violations: only the Result digest is asserted around them",
    "time-aggregated values are compared between requests (1e-12) and bounded by the interpolated own series; exact quadrature is not asserted",
    "time-aggregated program quantities are compared with the own stepped integral only on exactly representable grids with bin edges on time steps (atomica samples the step function at sub-steps, which is exact only there); coverage_capacity with t_bins is refused by atomica and not compared",
    "weighted averages are not compared at time points where value x weight underflows (below 1e-280): value x weight / weight then loses digits",
]
BUDGET = {"quick": 1600, "thorough": 6400}  # thorough = 4x quick: a depth that was run to completion, quiet, at seed 1 (deterministic given the seed)
TIME_CAP = {"quick": 45, "thorough": 1500}
PROFILE = {"max_pops": 3, "p_timed": 0.2, "p_junction": 0.3, "max_steps": 12, "extreme": 0.0, "characs": True, "p_transfer": 0.5, "p_programs": 0.35}
SCALES = [1e-12, 1e-10, 1e-8, 1e-7, 1e-6, 1e-3, 1.0, 1.0, 1.0, 1.0, 1e3, 1e6, 1e9]
LIBS = ["hypertension", "hiv", "diabetes", "tb_simple", "udt"]
RTOL = 1e-12
NUMBER_CLASSES = ("N", "F", "par:number")
DIMLESS_CLASSES = ("frac", "par:proportion", "par:probability")
METHODS = [None, None, None, "sum", "average", "weighted"]

_LIB = {}


def lib(name, progs=False):
    """library project on a short grid, optionally simulated with its program book (cached per process)"""
    key = (name, bool(progs))
    if key not in _LIB:
        import atomica as at

        simcase.quiet()
        P = at.demo(name, do_run=False, addprogs=bool(progs))
        s = P.settings
        P.settings.update_time_vector(start=s.sim_start, end=s.sim_start + 4, dt=0.5)
        progset = instr = None
        if progs and len(P.progsets):
            progset = P.progsets[0]
            instr = at.ProgramInstructions(start_year=s.sim_start + 1.0)
        res = P.run_sim(P.parsets[0], progset, instr, result_name="lib")
        V = H.vocab_from_result(P, res)
        V["programs"] = sorted(progset.programs.keys()) if progset is not None else []
        _LIB[key] = {"P": P, "res": res, "F": P.framework, "D": P.data, "V": V, "runs": {}, "grid": (s.sim_start, s.sim_end, s.sim_dt), "progset": progset, "instr": instr}
    return _LIB[key]


def lib_run(name, progs, start, end, dt):
    """the library project simulated on another time grid (cached per process)"""
    L = lib(name, progs)
    key = (start, end, dt)
    if key not in L["runs"]:
        P = L["P"]
        try:
            P.settings.update_time_vector(start=start, end=end, dt=dt)
            L["runs"][key] = P.run_sim(P.parsets[0], L["progset"], L["instr"], result_name="run %d" % (len(L["runs"]) + 2))
        finally:
            P.settings.update_time_vector(start=L["grid"][0], end=L["grid"][1], dt=L["grid"][2])
    return L["runs"][key]


# --------------------------------------------------------------------------- generation


def _r3(x):
    return round(float(x), 3)


@st.composite
def _years(draw, V, lo_pad, hi_pad, min_size=1, max_size=4):
    n = max(1, int(round((V["end"] - V["start"]) / V["dt"])))
    grid = [V["start"] + k * V["dt"] for k in range(n + 1)]
    one = st.one_of(st.sampled_from(grid), st.floats(V["start"] - lo_pad, V["end"] + hi_pad, allow_nan=False).map(_r3))
    ys = draw(st.lists(one, min_size=min_size, max_size=max_size, unique=True))
    return sorted(float(y) for y in ys)


@st.composite
def _pop_arg(draw, V):
    pops = V["pops"]
    k = draw(st.sampled_from(["none", "all", "total", "name", "list", "dict"]))
    if k == "none":
        return {"kind": "none"}
    if k in ("all", "total"):
        return {"kind": "str", "v": k}
    if k == "name":
        return {"kind": "str", "v": draw(st.sampled_from(pops))}
    sel = draw(st.lists(st.sampled_from(pops), min_size=1, max_size=len(pops), unique=True))
    if k == "list":
        return {"kind": "list", "v": sel}
    return {"kind": "dict", "v": ["Some people", sel]}


@st.composite
def _cascade(draw, V, for_data):
    forms = []
    if V["fw_cascades"]:
        forms += ["fw", "fw_sub"]
    if V["nested"] and not for_data:
        forms += ["list"]
    if V["body"]:
        forms += ["chain", "chain", "chain"] if for_data else ["chain"]
    if not forms:
        return None
    form = draw(st.sampled_from(forms))
    if form == "fw":
        i = draw(st.integers(0, len(V["fw_cascades"]) - 1))
        rep = draw(st.sampled_from(["name", "index", "none"]))
        if rep == "none" and i == 0:
            return {"kind": "none"}
        if rep == "index":
            return {"kind": "index", "v": i}
        return {"kind": "name", "v": V["fw_cascades"][i]["name"]}
    if form == "fw_sub":
        stages = draw(st.sampled_from(V["fw_cascades"]))["stages"]
        keep = sorted(draw(st.lists(st.integers(0, len(stages) - 1), min_size=1, max_size=len(stages), unique=True)))
        return {"kind": "pairs", "v": [["Z%d" % j, list(stages[i][1])] for j, i in enumerate(keep)]}
    if form == "list":
        names = V["nested"]
        keep = sorted(draw(st.lists(st.integers(0, len(names) - 1), min_size=1, max_size=len(names), unique=True)))
        out = [names[i][0] for i in keep]
        if draw(st.booleans()):
            out.append(draw(st.sampled_from(names[keep[-1]][1])))
        return {"kind": "list", "v": out}
    # chain of nested sets of compartments, each stage written as a list of disjoint constituents
    body = V["body"]
    cur = draw(st.lists(st.sampled_from(body), min_size=1, max_size=min(len(body), 4), unique=True))
    n = draw(st.integers(2, 4) if for_data else st.integers(1, 4))
    pairs = []
    for j in range(n):
        if j > 0:
            cur = draw(st.lists(st.sampled_from(cur), min_size=1, max_size=len(cur), unique=True))
        expr = list(cur)
        cands = [x for x in V["nested"] if set(x[1]) <= set(cur)]
        if cands and draw(st.booleans()):
            x = draw(st.sampled_from(cands))
            expr = [x[0]] + [c for c in cur if c not in x[1]]
        pairs.append(["Stage %d" % j, expr])
    return {"kind": "pairs", "v": pairs}


@st.composite
def _call(draw, V, has_cascade):
    kinds = ["plot_series", "plot_series", "plot_bars", "export_raw", "edit_series"]
    if has_cascade:
        kinds += ["plot_cascade", "plot_cascade", "cascade_series", "export_results"]
    if V.get("plots"):
        kinds += ["result_plot"]
    if V.get("programs"):
        kinds += ["programs_plotdata"] * 4 + ["get_coverage", "get_coverage", "get_alloc", "get_equivalent_alloc", "export_results", "export_results"]
    k = draw(st.sampled_from(kinds))
    if k == "programs_plotdata":
        outs = draw(st.one_of(st.none(), st.lists(st.sampled_from(V["programs"]), min_size=1, max_size=3, unique=True)))
        return [k, {"quantity": draw(st.sampled_from(["spending", "equivalent_spending", "coverage_number", "coverage_eligible", "coverage_fraction", "coverage_capacity"])), "outputs": outs, "t_bins": draw(st.sampled_from([None, 1.0, 2 * V["dt"], 0.5, "all", [V["start"], V["start"] + 1.0, V["start"] + 2.0], [V["start"] + V["dt"], V["start"] + 3 * V["dt"]]])), "accumulate": draw(st.sampled_from([None, None, "sum", "integrate"])), "plot": draw(st.sampled_from([None, None, "series", "bars"])), "times": draw(st.integers(1, 2))}]
    if k == "get_coverage":
        return [k, {"quantity": draw(st.sampled_from(["fraction", "number", "eligible", "capacity"])), "year": draw(st.sampled_from([None, None, V["start"] + 1.0])), "times": draw(st.integers(1, 2))}]
    if k in ("get_alloc", "get_equivalent_alloc"):
        return [k, {"year": draw(st.sampled_from([None, V["start"] + 1.0])), "times": draw(st.integers(1, 2))}]
    if k == "plot_series":
        return [k, {"plot_type": draw(st.sampled_from(["line", "stacked", "proportion"])), "axis": draw(st.sampled_from(["outputs", "pops", "results"])), "data": draw(st.booleans()), "legend_mode": draw(st.sampled_from(["together", "separate", "none"])), "n_cols": draw(st.sampled_from([None, None, 2])), "binned": draw(st.booleans())}]
    if k == "plot_bars":
        return [k, {"stack_pops": draw(st.sampled_from([None, "all"])), "stack_outputs": draw(st.sampled_from([None, "all"])), "outer": draw(st.sampled_from([None, "times", "results"])), "orientation": draw(st.sampled_from(["vertical", "horizontal"])), "t_bins": draw(st.sampled_from(["all", 1.0, 2.0]))}]
    if k in ("plot_cascade", "cascade_series"):
        yrs = draw(st.one_of(st.none(), _years(V, 0.0, 0.0, 1, 3)))
        if yrs is not None and len(yrs) == 1 and draw(st.booleans()):
            yrs = yrs[0]
        return [k, {"pops": draw(_pop_arg(V)), "year": yrs, "data": draw(st.booleans())}]
    return [k, {}]


@st.composite
def requests(draw, V, tier):
    groups = V["groups"]
    classes = sorted(groups)
    num_cls = [c for c in classes if c in NUMBER_CLASSES]
    dl_cls = [c for c in classes if c in DIMLESS_CLASSES]
    maxn = 4 if tier == "quick" else 5
    n = draw(st.integers(2, maxn))
    oagg = draw(st.sampled_from(METHODS))
    pagg = draw(st.sampled_from(METHODS))
    plain_names = [m[0] for c in classes if c != "F" for m in groups[c]]
    flow_names = [m[0] for m in groups.get("F", []) if m[0].endswith(":flow") or m[0].count(":") == 1 and not m[0].startswith(":") and not m[0].endswith(":")]
    outputs, used = [], set()
    for i in range(n):
        if i == 0 and num_cls:
            cls = draw(st.sampled_from(num_cls))
        elif i == 1 and dl_cls:
            cls = draw(st.sampled_from(dl_cls))
        else:
            cls = draw(st.sampled_from(classes))
        kind = draw(st.sampled_from(["plain", "agg", "agg", "formula"] if i >= 2 else ["plain", "agg", "agg"]))
        members = groups[cls]
        if kind == "formula":
            a = draw(st.sampled_from(plain_names + flow_names[:3]))
            b = draw(st.sampled_from(plain_names))
            tmpl = draw(st.sampled_from(["%s+%s", "%s/(%s+1)", "2*%s+0*%s", "%s*%s", "%s-%s"]))
            outputs.append({"f%d" % i: tmpl % (a, b)})
            continue
        if kind == "agg":
            pool = [m[0] for m in members if m[1]] if oagg == "weighted" else [m[0] for m in members]
            if pool:
                outputs.append({"agg%d" % i: draw(st.lists(st.sampled_from(pool), min_size=1, max_size=3, unique=True))})
                continue
        name = draw(st.sampled_from([m[0] for m in members]))
        if name not in used:
            used.add(name)
            outputs.append(name)
    pops = V["pops"]
    form = draw(st.sampled_from(["list", "list", "list", "list", "total", "all"]))
    pop_items = None
    if form == "list":
        pop_items, usedp = [], set()
        k = draw(st.integers(1, 3))
        for i in range(k):
            if draw(st.integers(0, 2)) > 0 or (i == 0 and len(pops) > 1):
                pop_items.append({"g%d" % i: draw(st.lists(st.sampled_from(pops), min_size=1, max_size=len(pops), unique=True))})
            else:
                p = draw(st.sampled_from(pops))
                if p not in usedp:
                    usedp.add(p)
                    pop_items.append(p)
    req = {"outputs": outputs, "pop_form": form, "pops": pop_items, "oagg": oagg, "pagg": pagg, "project": draw(st.booleans())}
    # time
    req["time"] = None
    if draw(st.booleans()):
        span = V["end"] - V["start"]
        kind = draw(st.sampled_from(["width", "edges", "edges", "all"]))
        if kind == "width":
            tb = draw(st.sampled_from([1.0, 0.5, 2.0, 2 * V["dt"], 3 * V["dt"], span / 2, span, 1000.0]))
        elif kind == "edges":
            tb = draw(_years(V, 1.0, 1.0, 2, 4))
            if len(tb) < 2:
                tb = "all"
        else:
            tb = "all"
        req["time"] = {"t_bins": tb, "method": draw(st.sampled_from([None, None, "integrate", "average"]))}
    req["interp"] = draw(st.one_of(st.none(), _years(V, 0.5, 0.5)))
    # cascades
    req["cascades"], req["data_cascades"] = [], []
    for _ in range(draw(st.integers(0, 2))):
        c = draw(_cascade(V, False))
        if c is not None:
            yrs = draw(st.one_of(st.none(), _years(V, 0.2, 0.2, 1, 3)))
            if yrs is not None and len(yrs) == 1 and draw(st.booleans()):
                yrs = yrs[0]
            req["cascades"].append({"cascade": c, "pops": draw(_pop_arg(V)), "year": yrs})
    # extra databook entries (entered into a copy of the databook before the data cascades are read), so that several years carry data
    req["data_edits"] = []
    edit_years = sorted({float(y) for y in V["data_years"]} | {V["start"] + 2.0, V["start"] + 3.0})
    edited = []
    if V["data_names"] and draw(st.integers(0, 3)) > 0:
        edited = draw(st.lists(st.sampled_from(edit_years), min_size=1, max_size=3, unique=True))
        for y in edited:
            full = draw(st.integers(0, 2)) > 0  # mostly every quantity and population gets a value, so that stage sums are numbers
            for nm in V["data_names"]:
                for pop in V["pops"]:
                    if full or draw(st.booleans()):
                        req["data_edits"].append([nm, pop, y, float(draw(st.integers(0, 5000)))])
    req["data_all_rows"] = []
    if V["data_names"] and draw(st.integers(0, 2)) == 0:
        for nm in draw(st.lists(st.sampled_from(V["data_names"]), min_size=1, max_size=3, unique=True)):
            ys = sorted(set(edited) | {V["start"]})
            own = draw(st.lists(st.sampled_from(V["pops"]), min_size=0, max_size=len(V["pops"]), unique=True))
            req["data_all_rows"].append({"name": nm, "t": ys, "v": [float(draw(st.integers(5001, 9999))) for _ in ys], "own": own})
    for _ in range(draw(st.integers(0, 2))):
        c = draw(_cascade(V, True))
        if c is not None:
            cand = sorted(set(edited) | {V["start"]}) * 2 + sorted(set(edit_years) | {V["start"] + 0.5, V["end"]})
            # drawn order is kept: requested years need not be ascending
            yrs = draw(st.one_of(st.none(), st.lists(st.sampled_from(cand), min_size=1, max_size=4, unique=True)))
            if yrs is not None and len(yrs) == 1 and draw(st.booleans()):
                yrs = yrs[0]
            req["data_cascades"].append({"cascade": c, "pops": draw(_pop_arg(V)), "year": yrs})
    # further runs of the same project on other time grids, passed to PlotData together with the main result
    req["other_runs"] = []
    for _ in range(draw(st.sampled_from([0, 0, 1, 1, 2]))):
        dt2 = draw(st.sampled_from([V["dt"] * 2, V["dt"] / 2, 0.25, 0.5, 1.0, 0.2, V["dt"]]))
        start2 = V["start"] + draw(st.sampled_from([0.0, 0.0, 1.0, 0.5]))
        nsteps = draw(st.integers(3, 14))
        req["other_runs"].append({"dt": float(dt2), "start": float(start2), "end": float(start2 + nsteps * dt2)})
    has_c = bool(V["fw_cascades"])
    req["calls"] = draw(st.lists(_call(V, has_c), min_size=0, max_size=(3 if V.get("programs") else 2) if tier == "quick" else 5))
    if V.get("programs") and draw(st.integers(0, 3)) > 0:
        # results with programs mostly get one time-aggregated program report (cheap, no figure)
        tb = draw(st.sampled_from([1.0, 2 * V["dt"], 0.5, "all", [V["start"], V["start"] + 1.0, V["start"] + 2.0], [V["start"] + V["dt"], V["start"] + 3 * V["dt"]], [V["start"], V["start"] + 2 * V["dt"], V["start"] + 3 * V["dt"]]]))
        q = draw(st.sampled_from(["spending", "spending", "equivalent_spending", "coverage_number", "coverage_number", "coverage_eligible", "coverage_fraction"]))
        req["calls"].insert(0, ["programs_plotdata", {"quantity": q, "outputs": None, "t_bins": tb, "accumulate": draw(st.sampled_from([None, None, None, "sum", "integrate"])), "plot": None, "times": 1}])
    return req


@st.composite
def cases(draw, tier):
    if draw(st.integers(0, 4)) == 0:
        name = draw(st.sampled_from(LIBS))
        progs = draw(st.booleans())
        V = lib(name, progs)["V"]
        return {"lib": name, "lib_progs": progs, "request": draw(requests(V, tier))}
    prof = dict(PROFILE)
    if tier == "thorough":
        prof.update(max_steps=24, max_pops=4)
    spec = draw(gen_model.model_specs(prof))
    # population scale: every databook compartment size multiplied by one factor (1e-12 ... 1e9 people)
    k = draw(st.sampled_from(SCALES))
    if k != 1.0:
        sized = {c["name"] for c in spec["comps"] if c.get("db")}
        for nm in sized:
            for d in spec["data"]["q"].get(nm, {}).values():
                if d.get("a") is not None:
                    d["a"] = d["a"] * k
                if d.get("v"):
                    d["v"] = [v * k for v in d["v"]]
        spec["labels"] = sorted(set(spec.get("labels", [])) | {"scale:%g" % k})
    V = H.vocab_from_spec(spec)
    V["programs"] = [p["name"] for p in (spec.get("progs") or {}).get("progs", [])]
    return {"spec": spec, "request": draw(requests(V, tier))}


def strategy(tier):
    return cases(tier)


# --------------------------------------------------------------------------- request evaluation


def _key(item):
    return list(item.keys())[0] if isinstance(item, dict) else item


def _arg(a):
    """JSON form of a cascade / pops argument -> what atomica takes"""
    import sciris as sc

    k = a["kind"]
    if k == "none":
        return None
    if k in ("str", "name", "index", "list"):
        return a["v"] if k != "list" else list(a["v"])
    if k == "dict":
        return {a["v"][0]: list(a["v"][1])}
    if k == "pairs":
        return sc.odict((s, list(c)) for s, c in a["v"])
    raise HarnessError("unknown argument kind %r" % (a,))


class Ctx:
    def __init__(self, case, res, P, D, F, spec):
        import atomica as at

        self.at = at
        self.case, self.res, self.P, self.D, self.F, self.spec = case, res, P, D, F, spec
        self.req = case["request"]
        self.ref = H.Ref(res)
        self.allpops = [p.name for p in res.model.pops if p.type == res.model.pops[0].type]
        self.oagg, self.pagg = self.req["oagg"], self.req["pagg"]
        self.outputs = list(self.req["outputs"])
        form = self.req["pop_form"]
        if form == "total":
            self.pop_items, self.pop_arg = [{"Total": [p.name for p in res.model.pops]}], "total"
        elif form == "all":
            self.pop_items, self.pop_arg = [p.name for p in res.model.pops], None
        else:
            self.pop_items, self.pop_arg = list(self.req["pops"]), list(self.req["pops"])
        self.labels = []
        self.methods = {}
        self.cache = {}

    # ---- atomica calls
    def plotdata(self, outputs, pops, **kw):
        kw.setdefault("output_aggregation", self.oagg)
        kw.setdefault("pop_aggregation", self.pagg)
        return self.at.PlotData(self.res, outputs=outputs, pops=pops, **kw)

    # ---- units / default methods
    def item_units(self, item):
        p0 = self.allpops[0]
        if isinstance(item, dict):
            v = item[_key(item)]
            if isinstance(v, str):
                return "unknown"
            return self.ref.units(p0, v[0])
        return self.ref.units(p0, item)

    def method(self, level, item):
        """aggregation method that applies to this item at this level ('o' outputs, 'p' populations)"""
        k = (level, _key(item))
        if k in self.methods:
            return self.methods[k]
        explicit = self.oagg if level == "o" else self.pagg
        m = explicit or H.default_method(self.item_units(item))
        if m is None:
            m = self.probe(level, item)
            self.labels.append("default:undocumented-units")
        self.methods[k] = m
        return m

    def probe(self, level, item):
        """which of sum / average a singleton request uses for units whose default is not documented"""
        if level == "o":
            pops = [self.allpops[0]]
        else:
            pops = [{"probe": list(self.allpops)}]
        got = self.plotdata([item], pops).series[0].vals
        for m in ("average", "sum"):
            self.methods[(level, _key(item))] = m
            self.cache.clear()
            e = self.expected(pops[0], item)
            if H.mismatch(got, e["vals"], e["scale"], RTOL, e["mask"]) is None:
                self.cache.clear()
                return m
        self.methods.pop((level, _key(item)), None)
        self.cache.clear()
        raise Violation(ID, "aggregate/default-neither-sum-nor-average", "item %r level %s got %r" % (item, level, got[:4].tolist()))

    # ---- own expected values
    def out_expected(self, pop, item):
        ref = self.ref
        if not isinstance(item, dict):
            v = ref.value(pop, item)
            return {"vals": v, "mask": np.ones(v.shape, bool), "parts": None, "method": None, "scale": np.abs(v)}
        spec = item[_key(item)]
        if isinstance(spec, str):
            v = ref.formula(pop, spec)
            return {"vals": v, "mask": np.isfinite(v), "parts": None, "method": None, "scale": np.abs(v) * 1e3}
        parts = [ref.value(pop, x) for x in spec]
        m = self.method("o", item)
        w = [ref.weight(pop, x) for x in spec] if m == "weighted" else None
        v, mask = H.combine(parts, m, w)
        return {"vals": v, "mask": mask, "parts": parts, "method": m, "scale": np.sum(np.abs(parts), axis=0), "weights": w}

    def expected(self, popitem, item):
        k = (repr(popitem), _key(item))
        if k in self.cache:
            return self.cache[k]
        if not isinstance(popitem, dict):
            e = self.out_expected(popitem, item)
            e = dict(e, level="o")
        else:
            group = popitem[_key(popitem)]
            inner = [self.out_expected(p, item) for p in group]
            parts = [x["vals"] for x in inner]
            m = self.method("p", item)
            w = [self.ref.popsize(p) for p in group] if m == "weighted" else None
            v, mask = H.combine(parts, m, w)
            for x in inner:
                mask = mask & x["mask"]
            e = {"vals": v, "mask": mask, "parts": parts, "method": m, "scale": np.sum([x["scale"] for x in inner], axis=0), "weights": w, "level": "p"}
        self.cache[k] = e
        return e

    # ---- comparison of a PlotData against the own values
    def compare(self, d, outs, pitems, what, result=None):
        want = {(_key(p), _key(o)): (p, o) for p in pitems for o in outs}
        seen = set()
        for s in d.series:
            if result is not None and s.result != result:
                continue
            k = (s.pop, s.output)
            if k not in want or k in seen:
                raise Violation(ID, "series/unexpected-or-duplicate", "%s: series %r for request outputs=%r pops=%r" % (what, k, outs, pitems))
            seen.add(k)
            p, o = want[k]
            e = self.expected(p, o)
            if not np.array_equal(s.tvec, self.ref.t):
                raise Violation(ID, "series/time-axis", "%s: series %r time axis differs from the result's" % (what, k))
            idx = H.mismatch(s.vals, e["vals"], e["scale"], RTOL, e["mask"])
            if idx is not None:
                self.classify(s, p, o, e, idx, outs, pitems, what)
        if len(seen) != len(want):
            raise Violation(ID, "series/missing", "%s: missing %r for request outputs=%r pops=%r" % (what, sorted(set(want) - seen), outs, pitems))

    def classify(self, s, p, o, e, idx, outs, pitems, what):
        single = self.plotdata([o], [p]).series[0]
        idx1 = H.mismatch(single.vals, e["vals"], e["scale"], RTOL, e["mask"])
        if isinstance(idx, int):
            detail = "t=%r got %r own %r" % (float(self.ref.t[idx]), float(s.vals[idx]), float(e["vals"][idx]))
        else:
            detail = str(idx)
        ctx = "%s: outputs=%r pops=%r output_aggregation=%r pop_aggregation=%r; series (%s,%s): %s" % (what, outs, pitems, self.oagg, self.pagg, s.pop, s.output, detail)
        if idx1 is None:
            defaulted = (self.oagg is None and any(isinstance(x, dict) and not isinstance(x[_key(x)], str) for x in outs)) or (self.pagg is None and any(isinstance(x, dict) for x in pitems))
            bucket = "order-dependence/other-results" if what.startswith("several results") else "order-dependence/default-aggregation" if defaulted else "order-dependence/other"
            raise Violation(ID, bucket, ctx + "; the singleton request [%r] x [%r] reports %r" % (o, p, float(single.vals[idx]) if isinstance(idx, int) else None))
        # the singleton is wrong as well: a value defect; blame the innermost part that is already wrong on its own
        m, level = e.get("method"), e.get("level")
        if e.get("parts") is not None and not what.endswith("(part)"):
            inner = [(q, o) for q in p[_key(p)]] if level == "p" else [(p, x) for x in o[_key(o)]]
            for q, x in inner:
                if (q, x) == (p, o) or isinstance(q, dict):
                    continue
                sq = self.plotdata([x], [q]).series[0]
                eq = self.expected(q, x)
                iq = H.mismatch(sq.vals, eq["vals"], eq["scale"], RTOL, eq["mask"])
                if iq is not None:
                    self.classify(sq, q, x, eq, iq, [x], [q], what + " -> part" if isinstance(x, dict) else what + " (part)")
        if isinstance(idx1, int) and m == "weighted" and level == "p" and np.isnan(single.vals[idx1]) and e["vals"][idx1] == 0:
            raise Violation(ID, "weighted/zero-numerator-nan", ctx + "; population sizes %r" % ([float(w[idx1]) for w in e["weights"]],))
        if m is None:
            kind = "formula" if isinstance(o, dict) else ("flow-selector" if ":" in o else "plain-value")
            raise Violation(ID, "value/" + kind, ctx)
        where = "outputs" if level == "o" else "pops"
        name = {"sum": "sum-of-parts", "average": "average", "weighted": "weighted"}[m]
        raise Violation(ID, "%s/%s" % (name, where), ctx + "; parts %r" % ([float(x[idx1]) for x in e["parts"]] if isinstance(idx1, int) else None,))

    def bounds(self, popitem, item):
        """'average' and 'weighted' lie between the smallest and the largest part"""
        e = self.expected(popitem, item)
        if e.get("method") not in ("average", "weighted"):
            return
        got = self.plotdata([item], [popitem]).series[0].vals
        parts = np.array(e["parts"], dtype=float)
        ok = e["mask"] & np.all(np.isfinite(parts), axis=0)
        lo, hi = parts.min(axis=0), parts.max(axis=0)
        tol = 1e-12 * np.maximum(np.abs(lo), np.abs(hi))
        with np.errstate(all="ignore"):
            bad = ok & ~((got >= lo - tol) & (got <= hi + tol))
        if np.any(bad):
            i = int(np.argmax(bad))
            if e["method"] == "weighted" and e["level"] == "p" and np.isnan(got[i]) and lo[i] == 0 and hi[i] == 0:
                raise Violation(ID, "weighted/zero-numerator-nan", "item %r pops %r t=%r: parts all 0, population sizes %r, reported NaN" % (item, popitem, float(self.ref.t[i]), [float(w[i]) for w in e["weights"]]))
            raise Violation(ID, "bounds/%s-outside-parts" % e["method"], "item %r pops %r t=%r got %r parts %r" % (item, popitem, float(self.ref.t[i]), float(got[i]), parts[:, i].tolist()))
        self.labels.append("bounds:" + e["method"] + ("-pops" if e["level"] == "p" else "-outputs"))


# --------------------------------------------------------------------------- the parts of the check


def _validate(c):
    """discard requests that name something this result does not have"""
    from atomica.system import NotFoundError

    try:
        for p in c.allpops:
            for o in c.outputs:
                e = c.out_expected(p, o)
                if e["vals"].shape != c.ref.t.shape:
                    raise KeyError("shape")
    except (KeyError, NotFoundError, IndexError) as e:
        raise Discard("request names a quantity the result does not have (%s)" % type(e).__name__)
    if not c.outputs or not c.pop_items:
        raise Discard("empty request")


def _check_characteristics(c):
    """a characteristic without denominator holds exactly the people of its member compartments, whatever the population scale"""
    from atomica.model import Characteristic

    n = 0
    for pop in c.res.model.pops:
        for x in pop.characs:
            if not isinstance(x, Characteristic) or x.denominator is not None or x.vals is None:
                continue
            own = c.ref.value(pop.name, x.name)
            parts = [np.asarray(m.vals, dtype=float) for m in x.get_included_comps()]
            i = H.mismatch(np.asarray(x.vals, dtype=float), own, np.sum(np.abs(parts), axis=0) if parts else 0.0, RTOL)
            if i is not None:
                raise Violation(ID, "value/characteristic-not-sum-of-members", "%s in %s at t=%r: reported %r, member compartments %r hold %r" % (x.name, pop.name, float(c.ref.t[i]) if isinstance(i, int) else i, float(x.vals[i]) if isinstance(i, int) else None, [m.name for m in x.get_included_comps()], [float(p[i]) for p in parts] if isinstance(i, int) else None))
            n += 1
    if n:
        c.labels.append("characteristic=sum-of-members")


def _check_export_raw(c):
    """the raw export holds, value by value, the stocks, characteristics, parameters and annualised flows (sum over the links of one name of people per step / dt)"""
    df = c.res.export_raw()
    if not np.array_equal(np.asarray(df.index, dtype=float), c.ref.t):
        raise Violation(ID, "export-raw/time-axis", "index %r" % (list(df.index)[:4],))
    got = {}
    for col in df.columns:
        cat, pop, name = col[0], col[1], col[2]
        v = np.asarray(df[col], dtype=float)
        k = (cat, pop, name)
        if k in got and cat != "Flow rates":
            raise Violation(ID, "export-raw/duplicate-column", "%r" % (k,))
        got[k] = got[k] + v if k in got else v.copy()
    own = {}
    for pop in c.res.model.pops:
        for x in pop.comps:
            own[("Compartments", pop.name, x.name)] = (np.asarray(x.vals, dtype=float), None)
        for x in pop.characs:
            own[("Characteristics", pop.name, x.name)] = (c.ref.value(pop.name, x.name), None)
        for x in pop.pars:
            if x.vals is not None:
                own[("Parameters", pop.name, x.name)] = (np.asarray(x.vals, dtype=float), None)
        for l in pop.links:
            k = ("Flow rates", pop.name, l.name if l.parameter is not None else "-")
            tot, sc_ = own.get(k, (np.zeros(c.ref.t.shape), np.zeros(c.ref.t.shape)))
            own[k] = (tot + np.asarray(l.vals, dtype=float) / c.ref.dt, sc_ + np.abs(np.asarray(l.vals, dtype=float)) / c.ref.dt)
    if set(got) != set(own):
        raise Violation(ID, "export-raw/rows", "rows only in the export %r, missing from it %r" % (sorted(set(got) - set(own))[:4], sorted(set(own) - set(got))[:4]))
    nmulti = 0
    for k, (v, sc_) in own.items():
        i = H.mismatch(got[k], v, np.abs(v) if sc_ is None else sc_, RTOL)
        if i is not None:
            n = sum(1 for l in c.ref.pops[k[1]].links if (l.name if l.parameter is not None else "-") == k[2]) if k[0] == "Flow rates" else 1
            raise Violation(ID, "export-raw/%s" % k[0].lower().replace(" ", "-"), "row %r (%d links, dt %r): exported %r, own %r" % (k, n, c.ref.dt, got[k][:5].tolist(), v[:5].tolist()))
    for pop in c.res.model.pops:
        names = [l.name for l in pop.links if l.parameter is not None]
        nmulti += len(names) - len(set(names))
    c.labels.append("export-raw:checked" + ("/parameter-with-several-links" if nmulti else ""))
    try:
        df.iloc[:, :] = -1.0
    except Exception:
        pass


def _check_lists(c):
    outs, pitems = c.outputs, c.pop_items
    kw = {"project": c.P} if c.req.get("project") else {}
    try:
        d = c.plotdata(outs, c.pop_arg, **kw)
    except Violation:
        raise
    except Exception as e:
        raise Discard("atomica refused the request: %s at %s" % (type(e).__name__, simcase.atomica_frame(e)))
    c.compare(d, outs, pitems, "drawn order")
    n = 1
    # every ordered subset of the outputs
    for r in range(1, len(outs) + 1):
        for sub in itertools.permutations(outs, r):
            try:
                d = c.plotdata(list(sub), c.pop_arg)
            except Exception as e:
                raise Violation(ID, "order-dependence/exception", "outputs=%r pops=%r raised %s: %s (the drawn order did not)" % (list(sub), c.pop_arg, type(e).__name__, str(e)[:200]))
            c.compare(d, list(sub), pitems, "ordered subset of outputs")
            n += 1
    # every ordered subset of the population items
    if c.req["pop_form"] == "list" or len(pitems) <= 3:
        for r in range(1, len(pitems) + 1):
            for sub in itertools.permutations(pitems, r):
                try:
                    d = c.plotdata(outs, list(sub))
                except Exception as e:
                    raise Violation(ID, "order-dependence/exception", "outputs=%r pops=%r raised %s: %s (the drawn order did not)" % (outs, list(sub), type(e).__name__, str(e)[:200]))
                c.compare(d, outs, list(sub), "ordered subset of pops")
                n += 1
    # total over all populations with the default method: number quantities add up
    saved = c.pagg
    tot = {"Total": [p.name for p in c.res.model.pops]}
    d = c.at.PlotData(c.res, outputs=outs, pops="total", output_aggregation=c.oagg, pop_aggregation=saved)
    c.compare(d, outs, [tot], "pops='total'")
    # the same request for two results at once (a deep copy under another name), in both orders
    import sciris as sc

    other = sc.dcp(c.res)
    other.name = "other run"
    for pair in ([c.res, other], [other, c.res]):
        d = c.at.PlotData(pair, outputs=outs, pops=c.pop_arg, output_aggregation=c.oagg, pop_aggregation=c.pagg)
        for nm in (c.res.name, other.name):
            c.compare(d, outs, pitems, "two results in one call", result=nm)
    for p in pitems:
        for o in outs:
            c.bounds(p, o)
    c.labels.append("permutation-requests:%s" % ("<=20" if n <= 20 else "<=80" if n <= 80 else ">80"))


def _other_contexts(c):
    """contexts (own reference values included) for the further runs of the request; runs atomica refuses are skipped"""
    out = []
    libname = c.case.get("lib")
    for i, g in enumerate(c.req.get("other_runs") or []):
        try:
            if libname:
                res2 = lib_run(libname, c.case.get("lib_progs", False), g["start"], g["end"], g["dt"])
            else:
                spec2 = dict(c.spec, settings={"start": g["start"], "end": g["end"], "dt": g["dt"]})
                _b2, res2 = simcase.run_spec(spec2, check_domain=False)
                res2.name = "run %d" % (i + 2)
            c2 = Ctx(c.case, res2, c.P, c.D, c.F, c.spec)
            _validate(c2)
            if any(x.res.name == res2.name or x.res is res2 for x in [c] + out):
                continue
            out.append(c2)
        except Discard:
            c.labels.append("other-run:refused")
        except Violation:
            raise
        except Exception as e:
            c.labels.append("other-run:refused:" + type(e).__name__)
    return out


def _check_results(c):
    """the value for (result, population, output) is the same whether the result is passed alone, first, last or among others"""
    others = _other_contexts(c)
    if not others:
        return
    ctxs = [c] + others
    outs, pitems = c.outputs, c.pop_items
    for r in range(2, len(ctxs) + 1):
        for sub in itertools.permutations(ctxs, r):
            names = [x.res.name for x in sub]
            try:
                d = c.at.PlotData([x.res for x in sub], outputs=outs, pops=c.pop_arg, output_aggregation=c.oagg, pop_aggregation=c.pagg)
            except Exception as e:
                raise Violation(ID, "order-dependence/exception", "results %r outputs=%r pops=%r raised %s: %s (each result alone did not)" % (names, outs, c.pop_arg, type(e).__name__, str(e)[:200]))
            for x in sub:
                x.compare(d, outs, pitems, "several results in one call %r (dt %r)" % (names, [x_.ref.dt for x_ in sub]), result=x.res.name)
    c.labels.append("results:%d" % len(ctxs))
    if len({x.ref.dt for x in ctxs}) > 1:
        c.labels.append("results:dt-differs")
    if len({(float(x.ref.t[0]), float(x.ref.t[-1])) for x in ctxs}) > 1:
        c.labels.append("results:span-differs")
    for x in others:
        c.labels += [l for l in x.labels if l.startswith("default:")]


def _series_map(d):
    return {(s.pop, s.output): s for s in d.series}


def _check_time(c):
    tm = c.req.get("time")
    if not tm:
        return
    tb = tm["t_bins"]
    method = tm["method"]
    outs, pitems = c.outputs, c.pop_items
    kw = {"t_bins": tb, "time_aggregation": method}
    try:
        full = c.plotdata(outs, c.pop_arg, **kw)
    except Exception as e:
        raise Discard("atomica refused the time aggregation: %s at %s" % (type(e).__name__, simcase.atomica_frame(e)))
    rev = c.plotdata(outs[::-1], c.pop_arg, **kw)
    fm, rm = _series_map(full), _series_map(rev)
    singles = {}

    def single(p, o):
        k = (repr(p), repr(o))
        if k not in singles:
            singles[k] = c.plotdata([o], [p], **kw).series[0]
        return singles[k]

    t0, t1 = float(c.ref.t[0]), float(c.ref.t[-1])
    for p in pitems:
        for o in outs:
            s1 = single(p, o)
            for nm, mp in (("drawn order", fm), ("reversed", rm)):
                s = mp[(_key(p), _key(o))]
                if not np.array_equal(s.tvec, s1.tvec) or H.mismatch(s.vals, s1.vals, np.abs(s1.vals), RTOL) is not None:
                    raise Violation(ID, "order-dependence/time-aggregation", "t_bins=%r method=%r outputs=%r (%s) pops=%r: series (%s,%s) %r, alone %r" % (tb, method, outs, nm, pitems, s.pop, s.output, s.vals[:4].tolist(), s1.vals[:4].tolist()))
            e = c.expected(p, o)
            # sums stay sums after time aggregation (same timescale only)
            if e.get("method") == "sum":
                if e["level"] == "o":
                    parts = [single(p, x) for x in o[_key(o)]] if not isinstance(p, dict) else None
                else:
                    parts = [single(q, o) for q in p[_key(p)]]
                if parts is not None:
                    raw = [c.plotdata([x], [p]).series[0].timescale for x in o[_key(o)]] if e["level"] == "o" else [None]
                    same = len({("nan" if (ts is None or ts != ts) else float(ts)) for ts in raw}) == 1
                    if same:
                        tot = np.sum([x.vals for x in parts], axis=0)
                        sc_ = np.sum([np.abs(x.vals) for x in parts], axis=0)
                        # a bin is an integral of interpolated values: next to bins that are 70 orders of magnitude larger, a tiny bin is
                        # exact only relative to the series' largest bin (1e-16 of it), not to itself
                        with np.errstate(invalid="ignore"):
                            sc_ = np.maximum(sc_, 1e-7 * np.nanmax(np.where(np.isfinite(sc_), sc_, 0.0)) if sc_.size else 0.0)
                        if H.mismatch(s1.vals, tot, sc_, 1e-9) is not None:
                            raise Violation(ID, "sum-of-parts/time-aggregated", "t_bins=%r method=%r item %r pops %r: aggregate %r, sum of separately aggregated parts %r" % (tb, method, o, p, s1.vals[:4].tolist(), tot[:4].tolist()))
                        c.labels.append("time:sum-of-parts")
            # bin values inside the range of the own interpolated series, NaN outside the simulation
            if isinstance(tb, list) or tb == "all":
                edges = [t0, t1] if tb == "all" else list(tb)
                if len(s1.vals) != len(edges) - 1:
                    raise Violation(ID, "time-aggregation/bin-count", "t_bins=%r gives %d values" % (tb, len(s1.vals)))
                if not np.all(np.isfinite(e["vals"])) or not np.all(e["mask"]):
                    continue
                raw = c.plotdata([o], [p]).series[0]
                scale = raw.timescale if (raw.timescale is not None and raw.timescale == raw.timescale) else 1.0
                averaged = method == "average" or (method is None and str(s1.units).startswith("Average "))
                for i, (l, u) in enumerate(zip(edges[:-1], edges[1:])):
                    got = s1.vals[i]
                    if l < t0 - 1e-9 or u > t1 + 1e-9:
                        if not np.isnan(got):
                            raise Violation(ID, "time-aggregation/bin-outside-simulation-not-nan", "bin [%r,%r] sim [%r,%r] item %r got %r" % (l, u, t0, t1, o, float(got)))
                        continue
                    if l < t0 or u > t1:
                        continue
                    pts = np.array([l] + [x for x in c.ref.t if l < x < u] + [u])
                    v = np.interp(pts, c.ref.t, e["vals"])
                    lo, hi = v.min(), v.max()
                    if max(abs(lo), abs(hi)) < 1e-250 and max(abs(lo), abs(hi)) > 0:
                        continue  # denormal range: the quadrature loses digits
                    val = got if averaged else got * scale / (u - l)
                    tol = 1e-9 * max(abs(lo), abs(hi), 1e-300)
                    if not (lo - tol <= val <= hi + tol):
                        raise Violation(ID, "time-aggregation/outside-series-range", "bin [%r,%r] item %r pops %r method %r: mean level %r not within [%r,%r] of the series" % (l, u, o, p, method, float(val), float(lo), float(hi)))
                c.labels.append("time:bounded")
    c.labels.append("time:%s/%s" % ("width" if isinstance(tb, float) else "edges" if isinstance(tb, list) else "all", method))


def _check_interp(c):
    ys = c.req.get("interp")
    if not ys:
        return
    ys = np.array(ys, dtype=float)
    d = c.plotdata(c.outputs, c.pop_arg).interpolate(ys)
    mp = _series_map(d)
    for p in c.pop_items:
        for o in c.outputs:
            e = c.expected(p, o)
            if not (np.all(np.isfinite(e["vals"])) and np.all(e["mask"])):
                continue
            own = np.interp(ys, c.ref.t, e["vals"], left=np.nan, right=np.nan)
            s = mp[(_key(p), _key(o))]
            if not np.array_equal(s.tvec, ys) or H.mismatch(s.vals, own, np.interp(ys, c.ref.t, e["scale"]), 1e-11) is not None:
                raise Violation(ID, "interpolation/years", "years %r item %r pops %r: got %r own %r" % (ys.tolist(), o, p, s.vals.tolist(), own.tolist()))
    c.labels.append("interpolate")


def _stages(c, casc):
    """[(stage name or None, [constituents])] of a cascade request, from the framework definition / the request itself"""
    k = casc["kind"]
    if k in ("name", "index", "none"):
        names = list(c.F.cascades.keys())
        nm = casc["v"] if k == "name" else names[casc["v"] if k == "index" else 0]
        df = c.F.cascades[nm]
        return [(str(r.iloc[0]), [x.strip() for x in str(r.iloc[1]).split(",")]) for _, r in df.iterrows()]
    if k == "list":
        return [(None, [x]) for x in casc["v"]]
    return [(s, list(cs)) for s, cs in casc["v"]]


def _expand(c, names):
    out = []
    for n in names:
        if n in c.F.characs.index:
            out += _expand(c, [x.strip() for x in c.F.characs.at[n, "components"].split(",")])
        else:
            out.append(n)
    return out


def _pops_of(c, parg):
    k = parg["kind"]
    if k == "none" or (k == "str" and parg["v"] in ("all", "total")):
        return list(c.allpops)
    if k == "str":
        return [parg["v"]]
    if k == "list":
        return list(parg["v"])
    return list(parg["v"][1])


def _check_cascades(c):
    at = c.at
    for cr in c.req.get("cascades", []):
        stages = _stages(c, cr["cascade"])
        exp = [_expand(c, cs) for _, cs in stages]
        nested = all(set(exp[i + 1]) <= set(exp[i]) for i in range(len(exp) - 1)) and all(len(set(x)) == len(x) for x in exp)
        if not nested:
            raise HarnessError("generated cascade is not nested/disjoint: %r" % (stages,))
        pops = _pops_of(c, cr["pops"])
        year = cr["year"]
        try:
            vals, t = at.get_cascade_vals(c.res, _arg(cr["cascade"]), pops=_arg(cr["pops"]), year=year)
        except Exception as e:
            raise Discard("atomica refused the cascade: %s at %s" % (type(e).__name__, simcase.atomica_frame(e)))
        tq = c.ref.t if year is None else np.atleast_1d(np.array(year, dtype=float))
        if not np.array_equal(np.asarray(t, dtype=float), tq):
            raise Violation(ID, "cascade-vals/years", "asked %r got time axis %r" % (year, np.asarray(t).tolist()))
        got = [np.asarray(v, dtype=float) for v in vals.values()]
        if len(got) != len(stages):
            raise Violation(ID, "cascade-vals/stage-count", "stages %r -> %d values" % (stages, len(got)))
        scales = []
        for i, (_, cs) in enumerate(stages):
            tot = np.zeros(c.ref.t.shape)
            sc_ = np.zeros(c.ref.t.shape)
            for x in cs:
                for p in pops:
                    v = c.ref.value(p, x)
                    tot = tot + v
                    sc_ = sc_ + np.abs(v)
            if year is not None:
                tot = np.interp(tq, c.ref.t, tot, left=np.nan, right=np.nan)
                sc_ = np.interp(tq, c.ref.t, sc_)
            scales.append(sc_)
            if H.mismatch(got[i], tot, sc_, 1e-11) is not None:
                raise Violation(ID, "cascade-vals/sum-of-constituents" if year is None else "cascade-vals/interpolation", "cascade %r pops %r year %r stage %d %r: got %r own %r" % (cr["cascade"], pops, year, i, cs, got[i][:4].tolist(), tot[:4].tolist()))
        for i in range(len(got) - 1):
            a, b = got[i], got[i + 1]
            with np.errstate(all="ignore"):
                # relative to the people in the earlier stage (populations may be 1e-12 or 1e9 people)
                bad = np.isfinite(a) & np.isfinite(b) & (b > a + 1e-9 * np.where(np.isfinite(scales[i]), scales[i], 0.0))
            if np.any(bad):
                j = int(np.argmax(bad))
                raise Violation(ID, "cascade-vals/increase", "cascade %r pops %r: stage %d -> %d rises %r -> %r at t=%r" % (cr["cascade"], pops, i, i + 1, float(a[j]), float(b[j]), float(tq[j])))
        c.labels.append("cascade:%s/%s/%s" % (cr["cascade"]["kind"], cr["pops"]["kind"], "all-t" if year is None else "years"))
        for v in vals.values():  # what was handed out is ours to change
            v[...] = -5.0
    return


def _check_data_cascades(c):
    at = c.at
    shared = False
    # databook used for the data cascades: a copy with the request's extra entries (the simulation and the plots keep the original)
    edits = {}
    allrows, removed = {}, set()
    Dc = c.D
    if (c.req.get("data_edits") or c.req.get("data_all_rows")) and c.req.get("data_cascades"):
        import sciris as sc

        Dc = sc.dcp(c.D)
        # an "All" row (fallback for populations without a row of their own) next to the rows of the populations that keep theirs
        for ar in c.req.get("data_all_rows") or []:
            nm = ar["name"]
            if nm not in Dc.tdve or nm in allrows:
                continue
            tdve = Dc.tdve[nm]
            rows = list(tdve.ts.keys())
            ts_all = at.TimeSeries(units=tdve.ts[rows[0]].units if rows else None)
            for y, v in zip(ar["t"], ar["v"]):
                ts_all.insert(float(y), float(v))
            for k in rows:
                if k not in ar["own"]:
                    del tdve.ts[k]
                    removed.add((nm, k))
            tdve.ts["All"] = ts_all
            allrows[nm] = {float(y): float(v) for y, v in zip(ar["t"], ar["v"])}
            c.labels.append("data-all-row" + ("+own-rows" if any(k in ar["own"] for k in rows) else ""))
        for nm, pop, y, v in c.req.get("data_edits") or []:
            if nm in Dc.tdve and pop in Dc.tdve[nm].ts:
                Dc.tdve[nm].ts[pop].insert(float(y), float(v))
                edits[(nm, pop, float(y))] = float(v)
        c.labels.append("data-edits")
    for cr in c.req.get("data_cascades", []):
        stages = _stages(c, cr["cascade"])
        pops = _pops_of(c, cr["pops"])
        year = cr["year"]
        try:
            got, t = at.get_cascade_data(Dc, c.F, _arg(cr["cascade"]), pops=_arg(cr["pops"]), year=year)
        except Exception as e:
            raise Discard("atomica refused the data cascade: %s at %s" % (type(e).__name__, simcase.atomica_frame(e)))
        tq = np.array(Dc.tvec, dtype=float) if year is None else np.atleast_1d(np.array(year, dtype=float))
        if not np.array_equal(np.asarray(t, dtype=float), tq):
            raise Violation(ID, "cascade-data/years", "asked %r got time axis %r" % (year, np.asarray(t).tolist()))

        def entry(x, p, y):
            # the population's own row wins; the "All" row only stands in for populations without one
            if (x, p, float(y)) in edits:
                return edits[(x, p, float(y))]
            if x in allrows:
                has_own = (x, p) not in removed and ((p in c.spec["data"]["q"].get(x, {})) if c.spec is not None else (x in c.D.tdve and p in c.D.tdve[x].ts))
                if not has_own:
                    return allrows[x].get(float(y), np.nan)
            return H.spec_entry(c.spec, x, p, y) if c.spec is not None else H.data_entry(c.D, x, p, y)

        def own(cs):
            out = np.zeros(tq.shape)
            for j, y in enumerate(tq):
                tot = 0.0
                for x in cs:
                    for p in pops:
                        tot = tot + entry(x, p, y)
                out[j] = tot
            return out

        gl = [np.asarray(v, dtype=float) for v in got.values()]
        if len(gl) != len(stages):
            raise Violation(ID, "cascade-data/stage-count", "stages %r -> %d values" % (stages, len(gl)))
        sh = any(set(stages[i][1]) & set(stages[j][1]) for i in range(len(stages)) for j in range(i + 1, len(stages)))
        for i, (_, cs) in enumerate(stages):
            o = own(cs)
            if H.mismatch(gl[i], o, np.abs(o), 1e-12) is not None:
                # root cause: does the stage alone report the right value?
                import sciris as sc

                if year is not None and np.ndim(year) and list(tq) != sorted(tq):
                    # the same years in ascending order: does the value of a year depend on the order of the request?
                    order = np.argsort(tq)
                    srt, _t = at.get_cascade_data(Dc, c.F, _arg(cr["cascade"]), pops=_arg(cr["pops"]), year=[float(y) for y in tq[order]])
                    a2 = np.asarray(list(srt.values())[i], dtype=float)
                    if H.mismatch(a2, o[order], np.abs(o[order]), 1e-12) is None:
                        raise Violation(ID, "cascade-data/year-order", "stages %r pops %r years %r: stage %d reports %r, databook entries sum to %r; the same years in ascending order report %r" % (stages, pops, tq.tolist(), i, gl[i].tolist(), o.tolist(), a2.tolist()))
                alone, _t = at.get_cascade_data(Dc, c.F, sc.odict([("only", list(cs))]), pops=_arg(cr["pops"]), year=year)
                a = np.asarray(alone[0], dtype=float)
                bucket = "cascade-data/aliasing" if H.mismatch(a, o, np.abs(o), 1e-12) is None else "cascade-data/sum-of-entries"
                raise Violation(ID, bucket, "stages %r pops %r years %r: stage %d reports %r, databook entries of its constituents sum to %r (alone it reports %r)" % (stages, pops, tq.tolist(), i, gl[i].tolist(), o.tolist(), a.tolist()))
        if sh and len(stages) >= 2 and any(np.any(np.isfinite(own(cs))) for _, cs in stages):
            shared = True
        c.labels.append("data-cascade:%s/%s%s" % (cr["cascade"]["kind"], "data-years" if year is None else "years", "/shared" if sh else ""))
        for v in got.values():
            try:
                v[...] = -3.0
            except Exception:
                pass
    return shared


PROGRAM_QUANTITIES = {
    # quantity: (Result method, argument, timescale, documented time aggregation)
    "spending": ("get_alloc", None, 1.0, "integrate"),
    "equivalent_spending": ("get_equivalent_alloc", None, 1.0, "integrate"),
    "coverage_number": ("get_coverage", "number", 1.0, "integrate"),
    "coverage_capacity": ("get_coverage", "capacity", 1.0, None),
    "coverage_eligible": ("get_coverage", "eligible", None, "average"),
    "coverage_fraction": ("get_coverage", "fraction", None, "average"),
}


def _program_base(c, quantity):
    """per-step program values straight from the Result (not through PlotData)"""
    meth, arg, _ts, _m = PROGRAM_QUANTITIES[quantity]
    out = getattr(c.res, meth)(arg) if arg else getattr(c.res, meth)()
    return {k: np.array(v, dtype=float) for k, v in out.items()}


def _stepped_bins(t, v, edges, scale, method):
    """program quantities hold their value for the whole step: sum over the steps of value x time spent in the bin"""
    out = []
    for l, u in zip(edges[:-1], edges[1:]):
        if l < t[0] or u > t[-1]:
            out.append(np.nan)
            continue
        tot = 0.0
        for k in range(len(t) - 1):
            lo, hi = max(l, t[k]), min(u, t[k + 1])
            if hi > lo:
                tot = tot + v[k] * (hi - lo)
        out.append(tot / scale if method == "integrate" else tot / (u - l))
    return np.array(out, dtype=float)


def _check_program_series(c, d, a, base):
    """PlotData.programs == the Result's own per-step values, binned as a step function and accumulated as documented"""
    meth, arg, timescale, method = PROGRAM_QUANTITIES[a["quantity"]]
    t = c.ref.t
    dt = c.ref.dt
    tb = a["t_bins"]
    exact = dt in (1.0, 0.5, 0.25, 0.125) and bool(np.all(np.diff(t) == dt)) and float(t[0] * 8).is_integer()
    for s in d.series:
        if s.output not in base:
            continue
        v = base[s.output]
        tc = t
        own = v.copy()
        if tb is not None:
            if method is None or not exact:
                return
            if isinstance(tb, list):
                edges = [float(x) for x in tb]
            elif tb == "all" or tb > t[-1] - t[0]:
                edges = [float(t[0]), float(t[-1])]
            else:
                if len(s.tvec) == 0:
                    return
                edges = [float(x - tb / 2) for x in s.tvec] + [float(s.tvec[-1] + tb / 2)]
            if any(not float((x - t[0]) / dt).is_integer() for x in edges):
                return  # bin edges between time steps: the sampled quadrature is not exact
            own = _stepped_bins(t, v, edges, timescale or 1.0, method)
            tc = (np.array(edges[:-1]) + np.array(edges[1:])) / 2.0
            if len(s.vals) != len(own):
                raise Violation(ID, "programs/time-aggregation", "quantity %s t_bins %r: %d bins, own %d" % (a["quantity"], tb, len(s.vals), len(own)))
        acc = a["accumulate"]
        if acc == "sum":
            own = np.cumsum(own)
        elif acc == "integrate":
            sc_ = timescale if (tb is None and timescale) else 1.0
            x = tc / sc_
            own = np.concatenate([[0.0], np.cumsum(0.5 * (own[1:] + own[:-1]) * np.diff(x))]) if len(own) else own
        scale = np.abs(own) + (np.sum(np.abs(v[np.isfinite(v)])) * dt if tb is not None else np.abs(own))
        if acc:
            scale = np.maximum.accumulate(np.where(np.isfinite(scale), scale, 0.0)) + np.nansum(np.abs(own))
        i = H.mismatch(s.vals, own, scale, 1e-9)
        if i is not None:
            raise Violation(ID, "programs/time-aggregation" if tb is not None else "programs/accumulate" if acc else "programs/value", "PlotData.programs(quantity=%r, t_bins=%r, accumulate=%r) program %s: reports %r, per-step values %r at t=%r held over each step give %r" % (a["quantity"], tb, acc, s.output, np.asarray(s.vals)[:6].tolist(), v[:8].tolist(), t[:8].tolist(), own[:6].tolist()))
        c.labels.append("programs:own-%s%s" % ("binned" if tb is not None else "series", "+accumulate" if acc else ""))


def _run_calls(c, dig0):
    import matplotlib.pyplot as plt

    at = c.at
    outs, poparg = c.outputs, c.pop_arg
    for name, a in c.req.get("calls", []):
        try:
            if name == "plot_series":
                kw = {"t_bins": 1.0} if a.get("binned") else {}
                d = c.plotdata(outs, poparg, **kw)
                at.plot_series(d, plot_type=a["plot_type"], axis=a["axis"], data=c.D if a["data"] else None, legend_mode=a["legend_mode"], n_cols=a["n_cols"])
            elif name == "plot_bars":
                d = c.plotdata(outs, poparg, t_bins=a["t_bins"])
                at.plot_bars(d, stack_pops=a["stack_pops"], stack_outputs=a["stack_outputs"], outer=a["outer"], orientation=a["orientation"])
            elif name == "plot_cascade":
                at.plot_cascade(c.res, cascade=None, pops=_arg(a["pops"]), year=a["year"], data=c.D if a["data"] else None)
            elif name == "cascade_series":
                at.cascade.plot_single_cascade_series(c.res, cascade=None, pops=_arg(a["pops"]), data=c.D if a["data"] else None)
            elif name == "export_raw":
                df = c.res.export_raw()
                try:
                    df.iloc[:, :] = -1.0
                except Exception:
                    pass
            elif name == "export_results":
                tmp = tempfile.mkdtemp(prefix="c20_", dir=os.environ.get("VERIF_SCRATCH") or None)
                try:
                    at.export_results(c.res, os.path.join(tmp, "out.xlsx"))
                finally:
                    import shutil

                    shutil.rmtree(tmp, ignore_errors=True)
            elif name == "result_plot":
                c.res.plot(project=c.P)
            elif name == "programs_plotdata":
                for _ in range(a.get("times", 1)):
                    base = _program_base(c, a["quantity"])
                    d = at.PlotData.programs(c.res, outputs=a["outputs"], quantity=a["quantity"], t_bins=a["t_bins"], accumulate=a["accumulate"])
                    _check_program_series(c, d, a, base)
                    for s in d.series:
                        s.vals[...] = -9.0
                    if a["plot"] == "series":
                        at.plot_series(d)
                    elif a["plot"] == "bars":
                        at.plot_bars(d)
            elif name == "get_coverage":
                for _ in range(a.get("times", 1)):
                    out = c.res.get_coverage(quantity=a["quantity"], year=a["year"])
                    for v in out.values():
                        if isinstance(v, np.ndarray):
                            v[...] = -9.0
            elif name in ("get_alloc", "get_equivalent_alloc"):
                for _ in range(a.get("times", 1)):
                    out = getattr(c.res, name)(year=a["year"])
                    for v in out.values():
                        if isinstance(v, np.ndarray):
                            v[...] = -9.0
            elif name == "edit_series":
                d = c.plotdata(outs, poparg)
                for s in d.series:
                    s.vals[...] = -777.0
                    s.tvec[...] = -1.0
            c.labels.append("call:" + name)
        except Violation:
            raise
        except Exception as e:
            c.labels.append("call-raised:%s:%s" % (name, type(e).__name__))
        finally:
            plt.close("all")
        diff = H.digest_diff(dig0, H.digest(c.res))
        if diff:
            raise Violation(ID, "purity/result-modified", "after %s(%r): %r changed" % (name, a, diff[:5]))


def _edit_everything(c, dig0):
    """whatever PlotData hands out is a copy: editing it in place leaves the Result alone"""
    plain = [o for o in c.outputs if not isinstance(o, dict)]
    for o in c.outputs:
        if isinstance(o, dict) and not isinstance(o[_key(o)], str):
            plain += [x for x in o[_key(o)] if x not in plain]
    d = c.plotdata(plain + [o for o in c.outputs if isinstance(o, dict)], list(c.allpops) + [{"everyone": list(c.allpops)}])
    for s in d.series:
        s.vals[...] = -777.0
        s.tvec[...] = -1.0
    diff = H.digest_diff(dig0, H.digest(c.res))
    if diff:
        raise Violation(ID, "purity/series-aliases-result", "in-place edit of Series.vals / Series.tvec of PlotData(outputs=%r) changed %r" % (plain, diff[:5]))


def check(case):
    import matplotlib

    matplotlib.use("Agg")
    import matplotlib.pyplot as plt

    simcase.quiet()
    libname = case.get("lib")
    if libname:
        L = lib(libname, case.get("lib_progs", False))
        res, P, D, F, spec = L["res"], L["P"], L["D"], L["F"], None
    else:
        spec = case["spec"]
        b, res = simcase.run_spec(spec)
        P, D, F = b["P"], b["D"], b["F"]
    c = Ctx(case, res, P, D, F, spec)
    try:
        with np.errstate(all="ignore"):
            _validate(c)
            dig0 = H.digest(res)
            _check_characteristics(c)
            _check_export_raw(c)
            _check_lists(c)
            _check_results(c)
            _check_time(c)
            _check_interp(c)
            _check_cascades(c)
            shared = _check_data_cascades(c)
            _run_calls(c, dig0)
            _edit_everything(c, dig0)
            diff = H.digest_diff(dig0, H.digest(res))
            if diff:
                raise Violation(ID, "purity/result-modified", "after the whole request: %r changed" % (diff[:5],))
    except Violation:
        if libname:
            _LIB.pop((libname, bool(case.get("lib_progs", False))), None)
        raise
    finally:
        plt.close("all")
    req = c.req
    units = [c.item_units(o) for o in c.outputs]
    has_num = any(u in ("Number of people", "number") for u in units)
    has_dl = any(isinstance(u, str) and u in H.AVERAGED_UNITS for u in units)
    mixed = has_num and has_dl
    npops = len(res.model.pops)
    labels = c.labels + ["pops:%d" % npops, "pop_form:" + req["pop_form"], "oagg:%s" % req["oagg"], "pagg:%s" % req["pagg"], "n_outputs:%d" % len(c.outputs)]
    labels.append("source:" + (("lib:" + libname) if libname else "generated"))
    for o in c.outputs:
        labels.append("item:" + ("formula" if isinstance(o, dict) and isinstance(o[_key(o)], str) else "aggregation" if isinstance(o, dict) else "flow" if ":" in o else "plain"))
    if any(isinstance(p, dict) and len(p[_key(p)]) > 1 for p in c.pop_items):
        labels.append("pop-group>1")
    if mixed:
        labels.append("mix:number+dimensionless")
    if shared:
        labels.append("data-cascade-shared-constituents")
    return {"nontrivial": bool((npops >= 2 and mixed) or shared), "labels": sorted(set(labels))}
