"""C19 - parameter functions can only do whitelisted arithmetic.

Parts
  struct  (static, exhaustive)  every ast.expr subclass and every operator class of the running
          interpreter gets representative source fragments; each fragment is placed at the root
          and inside every allowed context (operand of + - * / ** unary -/+, of a comparison,
          argument of a listed call) nested up to depth 3 (4 in the thorough tier), for
          parse_function ('pf') and, inside list / dict displays, for evaluate_plot_string ('ps').
  gram    Hypothesis grammar strings mixing allowed and disallowed constructs (pf and ps).
  arith   Hypothesis arithmetic expressions over the listed operators / functions, evaluated through
          parse_function on scalars and arrays and compared with vlib.exprsafe.evaluate.
  hist    Hypothesis histories: sequences of parse / caller edits the dependency list it was given / call a
          function returned earlier / build and run a generated model whose parameter functions are among the
          strings (1 case in 200); every parse, whatever came before in the process, must report exactly the
          free names and the reference values ('history/<bucket>' when it only fails after something else happened).
  atheris (thorough tier only) byte-level fuzzing campaigns run as subprocesses (tools/fuzz_c19.py).

Oracle: vlib.exprsafe (independent of atomica). validator forbids and the parser returns ->
'accepts/<node>'; validator allows and the parser raises -> 'rejects-valid/<exception>'; allowed
strings must report exactly their free names and evaluate to the reference value.
Safety: the function returned by parse_function is only ever called for strings the validator
allows; evaluate_plot_string is called with its eval intercepted (see _install_guard) and only on
strings built from a vocabulary whose evaluation would be harmless anyway.
"""
import os
import sys
import ast
import json
import time
import hashlib
import itertools
import subprocess
import numpy as np
from hypothesis import strategies as st
from vlib.runner import Violation, HarnessError, Discard
from vlib import exprsafe as X

ID = "C19"
EXHAUSTIVE = True  # the 'struct' part: all node classes x all allowed contexts up to the stated depth
RULE = (
    "cases = strings; struct: (node class fragment, chain of 0..2 allowed contexts [0..3 thorough]) enumerated exhaustively for parse_function and evaluate_plot_string; "
    "gram: grammar strings with injected disallowed constructs; arith: whitelisted arithmetic with scalar/array operands incl. zeros; hist: op sequences (parse, mutate returned list, call, model build) over 1..n strings. "
    "non-trivial = (struct/gram) the validator's first disallowed node sits at depth >= 2, i.e. below an allowed node; (arith) the string contains a division and at "
    "least one operand is an array and at least one element is defined; (hist) a string is parsed again after a caller edited a returned dependency list or a model using it was built; distinct = distinct case hash"
)
ASSUMPTIONS = [
    "hist: the objects parse_function returns belong to the caller (docstring: 'a list of arguments required by the function'); a caller may edit its list; model builds go through vlib.simcase.run_spec on "
    "generated ModelSpecs (a spec atomica cannot build or run is discarded: C18's business); shard processes are long-lived, so state left behind by one case can also surface in a later case of the same shard",
    "the allowed language is the one written down in vlib/exprsafe.py (numbers, names, flow selectors, pi, + - * / ** unary -/+, < <= > >= == !=, positional calls of the 17 listed functions); "
    "// % @ is/in, complex/bool constants, wrong arity, listed function used as a value, strings >= 1800 characters, nesting deeper than 150 levels and strings whose ':' can be read both as a "
    "selector and as Python syntax (lambda:x) are 'unspecified': no assertion either way, never evaluated",
    "any exception counts as 'rejected when parsed' (the exception type belongs to C18)",
    "arith domain: operands finite, |intermediate| <= 1e12, x/0 with x != 0, 0**0, 0**negative, negative**non-integer, sqrt(<0), ln(<=0) are masked element-wise; truth values only at the "
    "root or multiplied by a number (numpy bool+bool is logical-or: type semantics, not real arithmetic); integer-typed base ** negative integer-typed exponent is masked (numpy integers refuse it); comparisons / floor / zero-numerator tests closer than the accumulated rounding "
    "bound are masked; rand/randn and the population aggregations are parsed but not evaluated; arrays in one case share one length",
    "tolerance |got-ref| <= 1e-12*max(1,|ref|) + running error bound (16 eps per operation); elements whose bound exceeds 1e-9*max(1,|ref|) are skipped as ill-conditioned",
    "evaluate_plot_string: strings with '{' or '[' must be list/dict displays of string constants (its docstring / assertion message); other strings are returned verbatim; "
    "the module-level name eval seen by atomica.utils is replaced by a recorder while the harness calls it",
]
BUDGET = {"quick": 88000, "thorough": 704000}  # thorough = 8x quick: a depth that was run to completion, quiet, at seed 1 (deterministic given the seed)
if os.environ.get("C19_BUDGET_SCALE"):  # smoke-testing the thorough plumbing with a fraction of the budget
    BUDGET = {k: max(16, int(v * float(os.environ["C19_BUDGET_SCALE"]))) for k, v in BUDGET.items()}
TIME_CAP = {"quick": 35, "thorough": 1500}
TOL = 1e-12
ATHERIS_SECONDS = int(os.environ.get("C19_ATHERIS_SECONDS", "420"))

VERIF = os.path.dirname(os.path.dirname(os.path.abspath(__file__)))

# ---------------------------------------------------------------------------- fragments
# names q* are bound nowhere (not in atomica.utils either): if anything were evaluated by mistake the
# first thing that happens is a NameError.

DEPRECATED_ALIASES = {"Num", "Str", "Bytes", "NameConstant", "Ellipsis", "Index", "ExtSlice", "Suite", "AugLoad", "AugStore", "Param", "Del"}
# Del cannot occur inside an expression; the others are aliases the parser never produces (removed in 3.14)

BINOPS = {"Add": "+", "Sub": "-", "Mult": "*", "MatMult": "@", "Div": "/", "Mod": "%", "Pow": "**", "LShift": "<<", "RShift": ">>", "BitOr": "|", "BitXor": "^", "BitAnd": "&", "FloorDiv": "//"}
UNARYOPS = {"Invert": "~", "Not": "not ", "UAdd": "+", "USub": "-"}
CMPOPS = {"Eq": "==", "NotEq": "!=", "Lt": "<", "LtE": "<=", "Gt": ">", "GtE": ">=", "Is": "is", "IsNot": "is not", "In": "in", "NotIn": "not in"}
BOOLOPS = {"And": "and", "Or": "or"}

FRAGMENTS = {
    "BoolOp": ["qx and qy", "qx or qy or 1"],
    "NamedExpr": ["(qw:=1)", "(qw := qx)"],
    "BinOp": ["qx+qy", "qx-1", "2*qx", "qx/qy", "qx**2", "qx/0", "0/qx"],
    "UnaryOp": ["-qx", "+qx", "--qx"],
    "Lambda": ["lambda: 0", "lambda qa: qa", "(lambda: 0)()", "lambda *qa, **qb: 0"],
    "IfExp": ["qx if qy else qz", "1 if qx>0 else 0"],
    "Dict": ["{1: 2}", "{**qx}", "{qx: qy}", "{}"],
    "Set": ["{1, 2}", "{qx}"],
    "ListComp": ["[qi for qi in qx]", "[1 for qi in qx if qi]"],
    "SetComp": ["{qi for qi in qx}"],
    "DictComp": ["{qi: qi for qi in qx}", "{1: 2 for qi in qx}"],
    "GeneratorExp": ["(qi for qi in qx)", "max(qi for qi in qx)", "max(1 for qi in qx)"],
    "Await": ["await qx"],
    "Yield": ["(yield)", "(yield qx)"],
    "YieldFrom": ["(yield from qx)"],
    "Compare": ["qx<qy", "qx>=0", "qx==qy", "qx!=1", "qx<qy<qz"],
    "Call": [
        "max(qx,1)",
        "min(qx,qy,qz)",
        "exp(qx)",
        "floor(qx)",
        "cos(qx)",
        "sin(qx)",
        "sqrt(qx)",
        "ln(qx)",
        "sdiv(qx,qy)",
        "rand()",
        "randn()",
        "SRC_POP_AVG(qx,qy,qz)",
        "TGT_POP_AVG(qx,qy,qz)",
        "SRC_POP_SUM(qx,qy,qz)",
        "TGT_POP_SUM(qx,qy)",
        "STITCH_AVG(qx)",
        "STITCH_SUM(qx)",
        "foo(qx)",
        "abs(qx)",
        "qx()",
        "getattr(qx,'real')",
        "vars()",
        "globals()",
        "qx.tofile('p')",
        "qx.dot(qx)",
        "max(qx)(qy)",
        "max(qx,key=qy)",
        "exp(qx,out=qy)",
        "max(*qx)",
        "max(**qx)",
        "max(qx,*qy)",
        "(qx+qy)(1)",
        "(1)(2)",
    ],
    "FormattedValue": ["f'{qx}'", "f'{qx!r:>{qy}}'"],
    "JoinedStr": ["f'a'", "f''", "f'{qx}{qy}'"],
    "Constant": ["1", "0", "1.5", "1e-3", ".5", "1_000", "0x10", "1j", "'a'", "''", "b'a'", "None", "True", "False", "...", "'a' 'b'", "1e999"],
    "Attribute": ["qx.real", "qx.T.real", "max(qx,1).real", "(1).real", "(qx+qy).real", "qx.tofile", "1.5.real", "pi.real", "max.real"],
    "Subscript": ["qx[0]", "qx[0][1]", "qx[1:2]", "qx[qy]", "qx[::2, ...]", "max(qx,1)[0]", "qx[-1]", "(qx+qy)[0]"],
    "Starred": ["[*qx]", "(*qx,)", "{*qx}", "*qx"],
    "Name": ["qx", "t", "dt", "pi", "qa:qb", "qa:", ":qb", "qa:qb:qc", "qa:flow", ":qb:qc", "qa::qc", "::qc", "max", "qa__b", "__import__", "__builtins__", "_", "q_1", "open", "True_"],
    "List": ["[1, 2]", "[]", "[qx]", "[qx, [qy]]"],
    "Tuple": ["(1, 2)", "()", "qx, qy", "(qx,)"],
    "Slice": ["qx[1:2]", "qx[::]", "qx[:qy]"],
}
for _n, _s in BINOPS.items():
    FRAGMENTS[_n] = ["qx %s qy" % _s, "qx%s2" % _s]
for _n, _s in UNARYOPS.items():
    FRAGMENTS[_n] = ["%sqx" % _s]
for _n, _s in CMPOPS.items():
    FRAGMENTS[_n] = ["qx %s qy" % _s]
for _n, _s in BOOLOPS.items():
    FRAGMENTS[_n] = ["qx %s qy" % _s]
FRAGMENTS["Load"] = ["qx"]
FRAGMENTS["Store"] = ["(qw:=1)", "[qi for qi in qx]"]
# fragments that only exist inside another construct / do not parse alone are not required to contain their node at the root
NOT_STANDALONE = {"*qx", "qa:qb", "qa:", ":qb", "qa:qb:qc", "qa:flow", ":qb:qc", "qa::qc", "::qc"}

PF_CONTEXTS = [
    "({})+qy",
    "qy-({})",
    "({})*2",
    "3/({})",
    "({})/qy",
    "({})**2",
    "2**({})",
    "-({})",
    "+({})",
    "({})<qy",
    "qy>=({})",
    "({})==1",
    "max(({}),qy)",
    "min(1,({}))",
    "exp(({}))",
    "sdiv(qy,({}))",
]
PS_CONTEXTS = ["[{}]", "{{'k': {}}}", "{{{}: 'v'}}", "['a', {}]"]
PS_FRAGMENTS = ["'a'", "['a','b']", "{'a': ['b:flow','c']}", "{'a':'b'}", "[]", "{}", "[[['a']]]", "{'a': {'b': 'c'}}", "'a:b'", "plain", "qa:flow", "", " ", "{**{'a':'b'}}", "[1]", "['a', 1.5]", "('a',)", "[('a','b')]"]


def _node_classes():
    def subs(c):
        out = []
        for s in c.__subclasses__():
            out.append(s)
            out.extend(subs(s))
        return out

    classes = []
    for base in (ast.expr, ast.operator, ast.unaryop, ast.cmpop, ast.boolop, ast.expr_context):
        classes.extend(subs(base))
    return [c.__name__ for c in classes if c.__name__ not in DEPRECATED_ALIASES]


_FRAG_CACHE = {}


def fragment_list():
    """[(node class, source)] after checking that the table is complete for this interpreter and every fragment contains its node"""
    if "frags" in _FRAG_CACHE:
        return _FRAG_CACHE["frags"]
    import warnings

    missing = [c for c in _node_classes() if c not in FRAGMENTS]
    if missing:
        raise HarnessError("C19 fragment table has no entry for ast node classes %s of this interpreter: the exhaustive claim cannot be sustained" % missing)
    out = []
    for cls, frs in FRAGMENTS.items():
        for fr in frs:
            if fr not in NOT_STANDALONE:
                with warnings.catch_warnings():
                    warnings.simplefilter("ignore")
                    try:
                        tree = ast.parse(fr, mode="eval")
                    except SyntaxError:
                        raise HarnessError("C19 fragment %r for %s does not parse" % (fr, cls))
                if not any(type(n).__name__ == cls for n in ast.walk(tree)):
                    raise HarnessError("C19 fragment %r does not contain a %s node" % (fr, cls))
            out.append((cls, fr))
    if len(out) % 2 == 0:
        out.append(("Name", "qz"))  # odd count: with contexts as the outer loop every shard meets every fragment
    _FRAG_CACHE["frags"] = out
    return out


def _nest(fr, chain, contexts):
    s = fr
    for c in chain:
        s = contexts[c].format(s)
    return s


def static_cases(tier):
    frags = fragment_list()
    maxd = 3 if tier == "thorough" else 2
    if tier == "thorough" and _atheris_available():
        for i, camp in enumerate(["empty", "seeded", "seeded-ascii"]):
            yield {"kind": "atheris", "campaign": camp, "seconds": ATHERIS_SECONDS, "seed": 1000 + i}
    for d in range(0, maxd + 1):
        for chain in itertools.product(range(len(PF_CONTEXTS)), repeat=d):
            for cls, fr in frags:
                yield {"kind": "struct", "target": "pf", "node": cls, "ctx": list(chain), "src": _nest(fr, chain, PF_CONTEXTS)}
    ps_frags = frags + [("plot", f) for f in PS_FRAGMENTS]
    for d in range(0, 3):
        for chain in itertools.product(range(len(PS_CONTEXTS)), repeat=d):
            for cls, fr in ps_frags:
                yield {"kind": "struct", "target": "ps", "node": cls, "ctx": list(chain), "src": _nest(fr, chain, PS_CONTEXTS)}


# ---------------------------------------------------------------------------- Hypothesis: grammar strings

GOOD_NAMES = ["qx", "qy", "qz", "t", "dt", "alive", "q_1", "pi", "qa:qb", "qa:", ":qb", "qp:flow", "qa:qb:qp"]
GOOD_NUMS = ["0", "1", "2", "10", "365", "0.5", "1e-15", "2.", "1.0", ".25", "1e3"]
FUNC1 = ["exp", "floor", "cos", "sin", "sqrt", "ln"]
BAD_ATOMS = sorted(
    set(
        fr
        for cls, frs in FRAGMENTS.items()
        for fr in frs
        if cls
        in (
            "BoolOp,NamedExpr,Lambda,IfExp,Dict,Set,ListComp,SetComp,DictComp,GeneratorExp,Await,Yield,YieldFrom,FormattedValue,JoinedStr,Attribute,Subscript,Starred,List,Tuple,Slice,"
            "LShift,RShift,BitOr,BitXor,BitAnd,Invert,Not,And,Or"
        ).split(",")
    )
    | {"'a'", "b'a'", "None", "...", "qa__b", "__import__", "q__", "foo(qx)", "abs(qx)", "qx.tofile('p')", "max(qx,key=qy)", "max(*qx)", "exp(qx,out=qy)", "max(qx)(qy)", "getattr(qx,'real')", "qx.q__w", "'q__w'"}
)
BAD_WRAPPERS = [
    "({}).real",
    "({}).T.real",
    "({})[0]",
    "({})[1:2]",
    "({}).dot({})",
    "({}).tofile('p')",
    "max({}, key={})",
    "max(*{})",
    "max({}, *{})",
    "exp({}, out={})",
    "foo({})",
    "abs({})",
    "max({})({})",
    "(lambda: {})",
    "(lambda: {})()",
    "({} if {} else {})",
    "({} and {})",
    "({} or {})",
    "(not {})",
    "(~{})",
    "({} << {})",
    "({} | {})",
    "[{} for qi in {}]",
    "[{}]",
    "({}, {})",
    "{{{}}}",
    '(f"{{{}}}")',
    "(qw:={})",
    "[*{}]",
    "(await {})",
    "(yield {})",
    "{{**{}}}",
    "max(qi for qi in {})",
]
GREY_WRAPPERS = ["({} // {})", "({} % {})", "({} @ {})", "({} is {})", "({} in {})", "exp({}, {})", "pi({})", "({} + max)", "({} + 1j)", "({} * True)"]
GOOD_WRAPPERS = (
    ["({} + {})", "({} - {})", "({} * {})", "({} / {})", "({} ** {})", "{} + {}", "{}*{}", "{}/{}", "{} - {}", "-{}", "+{}", "(-{})", "({} < {})", "({} >= {})", "({} == {})", "({} != {})", "({}<={})", "({}>{})"]
    + ["%s({})" % f for f in FUNC1]
    + ["max({}, {})", "min({}, {})", "max({})", "min({}, {}, {})", "sdiv({}, {})", "( {} )", "({}\n+ {})", "{}\t*\t{}", "{} # c"]
)


class _Chooser(object):
    """Deterministic decoder of a Hypothesis-drawn list of integers into choices (0 = simplest; exhausted = 0).

    Building the strings from one drawn list is ~10x cheaper than nested recursive strategies and shrinks well:
    deleting / lowering integers moves every choice towards the first (simplest) alternative.
    """

    def __init__(self, ints):
        self.ints = ints
        self.i = 0

    def below(self, n):
        if self.i < len(self.ints):
            v = self.ints[self.i]
            self.i += 1
            return v % n
        return 0

    def pick(self, seq):
        return seq[self.below(len(seq))]


def _nslots(template):
    return template.replace("{{", "").replace("}}", "").count("{}")


def _build_gram(ch, depth, p_bad):
    """p_bad in 0..10 = weight of disallowed material"""
    if depth <= 0 or ch.below(4) == 0:
        if p_bad and ch.below(30) < p_bad:
            return ch.pick(BAD_ATOMS)
        return ch.pick(GOOD_NAMES) if ch.below(3) else ch.pick(GOOD_NUMS)
    r = ch.below(13)
    if p_bad and r < p_bad:
        tpl = ch.pick(BAD_WRAPPERS)
    elif p_bad and r == 12:
        tpl = ch.pick(GREY_WRAPPERS)
    else:
        tpl = ch.pick(GOOD_WRAPPERS)
    return tpl.format(*[_build_gram(ch, depth - 1, p_bad) for _ in range(_nslots(tpl))])


TWISTS = ["", "", "", "", "", "", "", "", "long", "long-bad", "space", "dunder-comment", "ws", "semi", "odd"]
ODD = ["", " ", "\n", "()", "#", "\\", "\x00", "qx\x00", "\u00e9", "qx +", "(qx", "qx)", "1 2", "qx qy", "a:b:c:d", "a:1", "1:a", "::", ":", "a : b", "lambda:qx", "qx;", "(" * 300 + "qx" + ")" * 300, "-" * 1500 + "qx"]


def _gram_pf_case(ints):
    ch = _Chooser(ints)
    twist = ch.pick(TWISTS)
    p_bad = ch.pick([1, 0, 2, 4, 7, 1, 2])
    s = _build_gram(ch, 1 + ch.below(4), p_bad)
    if twist == "long":
        s = s + "+0." + "0" * max(1, 1810 - len(s))
    elif twist == "long-bad":
        s = "(" + s + ").real" + "+0." + "0" * max(1, 1810 - len(s))
    elif twist == "space":
        s = " " + s
    elif twist == "dunder-comment":
        s = s + " #__"
    elif twist == "ws":
        s = s.replace("(", "( ", 1).replace(",", " ,\t", 1)
    elif twist == "semi":
        s = s + ";" + ch.pick(["1", "import os", ""])
    elif twist == "odd":
        s = ch.pick(ODD)
    return {"kind": "gram", "target": "pf", "src": s}


PS_GOOD_LEAVES = ["'a'", "'b:flow'", '"c"', "'a:b'", "''", "'x y'", "'sus:inf'"]
PS_BAD_LEAVES = BAD_ATOMS + ["1", "1.5", "qx", "qa:qb", "b'a'", "None", "('a',)", "'a'.upper()", "'a'.real", "'a'*2", "'a'+'b'", "['a'][0]", "[].copy()", "{}.keys()", "-1", "'%s' % 'a'"]
PS_BAD_WRAPPERS = ["({})", "({},)", "{{{}}}", "[{} for qi in {}]", "({})[0]", "({}).copy()", "{{**{}}}", "[*{}]", "({} + {})", "list({})", "dict({})", "sorted({})"]
PS_PLAIN = ["alive", "sus:inf", "b_rate:flow", "", " ", "a+b", "qx.real", "max(qx,1)", "q__w", "x" * 2000, "(1,2)", "lambda: 0"]


def _build_ps(ch, depth, p_bad):
    if depth <= 0 or ch.below(4) == 0:
        if p_bad and ch.below(12) < p_bad:
            return ch.pick(PS_BAD_LEAVES)
        return ch.pick(PS_GOOD_LEAVES)
    r = ch.below(12)
    if p_bad and r < p_bad:
        tpl = ch.pick(PS_BAD_WRAPPERS)
        return tpl.format(*[_build_ps(ch, depth - 1, p_bad) for _ in range(_nslots(tpl))])
    if r % 2 == 0:
        return "[" + ", ".join(_build_ps(ch, depth - 1, p_bad) for _ in range(ch.below(5))) + "]"
    items = []
    for _ in range(ch.below(4)):
        k = ch.pick(PS_GOOD_LEAVES) if ch.below(4) else _build_ps(ch, depth - 1, p_bad)
        items.append("%s: %s" % (k, _build_ps(ch, depth - 1, p_bad)))
    return "{" + ", ".join(items) + "}"


def _gram_ps_case(ints):
    ch = _Chooser(ints)
    twist = ch.pick(["", "", "", "", "", "long", "dunder", "plain", "space"])
    p_bad = ch.pick([1, 0, 0, 2, 4])
    s = _build_ps(ch, 1 + ch.below(4), p_bad)
    if twist == "long":
        s = "[" + s + ", 'a'" * ((1810 - len(s)) // 5 + 1) + "]"
    elif twist == "dunder":
        s = "[" + s + ", 'q__w']"
    elif twist == "plain":
        s = ch.pick(PS_PLAIN)
    elif twist == "space":
        s = " " + s
    return {"kind": "gram", "target": "ps", "src": s}


# ---------------------------------------------------------------------------- Hypothesis: arithmetic differential

ARITH_NAMES = ["qx", "qy", "qz", "qw", "t", "dt", "qa:qb", "qa:", ":qb", "qp:flow", "qa:qb:qp"]
ARITH_NUMS = ["1", "0", "2", "3", "10", "365", "0.5", "1e-15", "2.", "1.0", "0.0", "100.0", "1e3", ".25", "7"]
VALUES = [0.0, 1.0, 0.0, -0.0, 2.0, -1.0, 0.5, 3.0, 0.0, 1e-15, 10.0, 100.0, -2.5, 0.25, 1e-300, 7.0]
CMP = ["<", "<=", ">", ">=", "==", "!="]
BIN_FMT = ["(%s %s %s)", "(%s%s%s)", "%s %s %s", "%s%s%s"]
value = st.floats(min_value=-100, max_value=100, allow_nan=False, allow_infinity=False, allow_subnormal=False)


def _build_num(ch, depth):
    if depth <= 0 or ch.below(5) == 0:
        r = ch.below(8)
        if r < 5:
            return ch.pick(ARITH_NAMES)
        if r < 7:
            return ch.pick(ARITH_NUMS)
        return "pi"
    r = ch.below(16)
    sub = lambda: _build_num(ch, depth - 1)  # noqa: E731
    if r < 7:
        op = ch.pick(["/", "+", "*", "-", "/", "**", "/"])
        return ch.pick(BIN_FMT) % (sub(), op, sub())
    if r == 7:
        return "(%s)**%s" % (sub(), ch.pick(["2", "3", "0.5", "-1", "-2", "1.5", "0", "1"]))
    if r == 8:
        return ch.pick(["-(%s)", "-%s", "+%s", "(-%s)"]) % sub()
    if r in (9, 10):
        return "%s(%s)" % (ch.pick(FUNC1), sub())
    if r in (11, 12):
        return "%s(%s)" % (ch.pick(["max", "min"]), ", ".join(sub() for _ in range(1 + ch.below(3))))
    if r == 13:
        return "sdiv(%s, %s)" % (sub(), sub())
    a, op, b, c = sub(), ch.pick(CMP), sub(), sub()
    return ("((%s %s %s)*(%s))" % (a, op, b, c)) if ch.below(2) else ("((%s)*(%s %s %s))" % (c, a, op, b))


def _arith_case(drawn):
    ints, floats = drawn
    ch = _Chooser(ints)
    mode = ch.pick(["mixed", "arrays", "scalars", "model", "mixed"])
    n = ch.pick([3, 1, 2, 5])
    scalar = ch.pick(["np", "py", "np", "int-if-whole"])
    depth = 1 + ch.below(4)
    if ch.below(6) == 5:
        src = "%s %s %s" % (_build_num(ch, depth - 1), ch.pick(CMP), _build_num(ch, depth - 1))
    else:
        src = _build_num(ch, depth)
    names = sorted(set(ARITH_NAMES) & set(_names_in(src)))
    pool = VALUES + list(floats)
    env = {}
    for nm in names:
        if mode == "scalars":
            arr = False
        elif mode == "arrays":
            arr = True
        elif mode == "model":
            arr = nm != "dt"
        else:
            arr = ch.below(2) == 1
        # two draws out of three come from the special values (zeros are frequent)
        vals = [(ch.pick(VALUES) if ch.below(3) else ch.pick(pool)) for _ in range(n if arr else 1)]
        env[nm] = vals if arr else vals[0]
    return {"kind": "arith", "src": src, "env": env, "scalar": scalar}


def _names_in(src):
    py, _ = X.mangle_selectors(src)
    try:
        tree = ast.parse(py, mode="eval")
    except SyntaxError:
        return []
    return [n.id.replace("___", ":") for n in ast.walk(tree) if isinstance(n, ast.Name)]


_INTS = st.binary(min_size=96, max_size=96).map(list)  # fixed length: every choice is drawn (a short list decodes to trivial strings); one draw is cheap


def gram_pf():
    return _INTS.map(_gram_pf_case)


def gram_ps():
    return _INTS.map(_gram_ps_case)


def arith_cases():
    return st.tuples(_INTS, st.lists(value, min_size=5, max_size=5)).map(_arith_case)


# ---------------------------------------------------------------------------- Hypothesis: histories (state carried from one call to the next)

MUTATIONS = ["clear", "pop-first", "pop-last", "append", "reverse", "sort", "drop-even", "drop-t-dt", "rename-first"]
SHARE_FMT = ["(%s) + qy", "2*(%s)", "max(%s, 0)", "(%s)/dt", "(%s) - t", "-(%s)", "(%s)", "%s + 0"]
HIST_MODEL_PROFILE = {
    "p_function": 1.0,
    "max_pops": 2,
    "max_steps": 6,
    "min_steps": 2,
    "max_ord": 3,
    "max_junction_motifs": 1,
    "max_timed_motifs": 0,
    "p_transfer": 0.2,
    "p_output_pars": 0.8,
    "p_interaction": 0.2,
    "p_time_varying": 0.1,
    "extreme": 0.0,
}


def _hist_ops(ch, nstrings, with_build):
    """a sequence of operations on the strings of the case; every history ends by parsing every string once more (added by the check)"""
    ops = [["parse", ch.below(nstrings)]] if ch.below(4) else []
    nslots = len(ops)
    built = False
    for _ in range(2 + ch.below(6)):
        r = ch.below(9)
        if with_build and (r == 8 or (not built and r >= 6)):
            ops.append(["build"])
            built = True
        elif r < 3 or nslots == 0:
            ops.append(["parse", ch.below(nstrings)])
            nslots += 1
        elif r < 6:
            ops.append(["mutate", ch.below(nslots), ch.pick(MUTATIONS)])
        else:
            ops.append(["call", ch.below(nslots)])
    if with_build and not built:
        ops.insert(ch.below(len(ops) + 1), ["build"])
    return ops


def _subexpressions(src, ch, limit):
    """source text of some proper sub-expressions of an allowed string (selector spelling restored)"""
    v = X.validate_function(src)
    if v.status != "allowed" or v.py_src is None:
        return []
    nodes = [n for n in ast.walk(v.tree.body) if n is not v.tree.body and isinstance(n, (ast.BinOp, ast.Call, ast.UnaryOp, ast.Compare, ast.Name))]
    out = []
    for _ in range(min(limit, len(nodes))):
        seg = ast.get_source_segment(v.py_src, ch.pick(nodes))
        if seg:
            out.append(seg.replace("___", ":"))
    return out


def _hist_plain_case(ints):
    ch = _Chooser(ints)
    base = [_build_num(ch, 1 + ch.below(3)) for _ in range(1 + ch.below(2))]
    strings = list(base)
    for b in base:
        if ch.below(2):
            strings.append(ch.pick(SHARE_FMT) % b)
        strings.extend(_subexpressions(b, ch, ch.below(2)))
    if ch.below(3) == 0:
        strings.append(ch.pick(["t", "dt", "t + dt", "qx", "sin(2*pi*(t-2000))", "min(1, qx*dt)/dt"]))
    strings = sorted(set(strings), key=strings.index)
    return {"kind": "hist", "strings": strings, "ops": _hist_ops(ch, len(strings), False)}


def _hist_model_case(drawn):
    spec, ints = drawn
    ch = _Chooser(ints)
    fns = [p["fn"] for p in spec["pars"] if p.get("fn")]
    fns = sorted(set(fns), key=fns.index)
    strings = list(fns)
    for f in fns[:6]:
        if ch.below(2):
            strings.append(ch.pick(SHARE_FMT) % f)
        strings.extend(_subexpressions(f, ch, ch.below(3)))
    if len(fns) >= 2 and ch.below(2):
        strings.append("(%s) + (%s)" % (ch.pick(fns), ch.pick(fns)))
    strings = [x for x in sorted(set(strings), key=strings.index) if len(x) < 1500] or ["t"]
    return {"kind": "hist", "strings": strings, "ops": _hist_ops(ch, len(strings), True), "spec": spec}


def hist_plain():
    return _INTS.map(_hist_plain_case)


def hist_model():
    from vlib import gen_model

    return st.tuples(gen_model.model_specs(HIST_MODEL_PROFILE), _INTS).map(_hist_model_case)


_FLOATS5 = st.lists(value, min_size=5, max_size=5)
_MODEL_SPECS = {}


@st.composite
def mixed_cases(draw):
    """the part of the case space is selected by the last two drawn bytes (st.one_of does not weight its branches evenly):
    per 240: 1 model history (builds and runs a generated model, ~0.1 s), 20 parse/mutate/call histories, 73 grammar strings for
    parse_function, 36 plot strings, 110 arithmetic cases"""
    ints = draw(_INTS)
    floats = draw(_FLOATS5)  # drawn for every case: branches that draw different amounts are not selected evenly by Hypothesis
    sel = (ints[-1] * 256 + ints[-2]) % 240
    if sel == 0:
        if "s" not in _MODEL_SPECS:
            from vlib import gen_model

            _MODEL_SPECS["s"] = gen_model.model_specs(HIST_MODEL_PROFILE)
        return _hist_model_case((draw(_MODEL_SPECS["s"]), ints))
    if sel <= 20:
        return _hist_plain_case(ints)
    if sel <= 93:
        return _gram_pf_case(ints)
    if sel <= 129:
        return _gram_ps_case(ints)
    return _arith_case((ints, floats))


def strategy(tier):
    return mixed_cases()


# ---------------------------------------------------------------------------- oracles


def _atomica():
    import atomica  # noqa
    from atomica import function_parser, utils

    return function_parser, utils


def _short(src, n=300):
    return src if len(src) <= n else src[:n] + "...(%d chars)" % len(src)


def check_pf_string(src, keep=None):
    """accept / reject / dependency oracle for parse_function. Returns (verdict, fcn or None, labels). Never calls fcn.
    keep: optional dict that receives the raw return value under "res" (the history checks hold on to the returned objects)."""
    fp, _ = _atomica()
    v = X.validate_function(src)
    try:
        res = fp.parse_function(src)
        accepted, exc = True, None
    except Exception as e:  # noqa - any exception is a rejection
        accepted, exc, res = False, e, None
    if keep is not None:
        keep["res"] = res
    labels = ["pf:%s" % v.status + (":%s" % v.node if v.node else "")]
    if v.status == "forbidden":
        labels.append("pf:forbidden-depth:%d" % min(v.depth, 5))
        if accepted:
            others = sorted(set(p[1] for p in v.problems if p[0] == "forbidden"))
            raise Violation(ID, "accepts/" + v.node, "parse_function(%r) returned although the string contains %s at depth %d (%s); all disallowed nodes: %s" % (_short(src), v.node, v.depth, v.reason, others))
        return v, None, labels
    if v.status == "unparseable":
        if accepted and ":" not in src:
            raise Violation(ID, "accepts/not-an-expression", "parse_function(%r) returned although Python cannot parse the string (%s)" % (_short(src), v.reason))
        return v, None, labels
    if v.status == "unspecified":
        labels.append("pf:unspecified-%s" % ("accepted" if accepted else "rejected"))
        return v, None, labels
    # allowed
    if not accepted:
        raise Violation(ID, "rejects-valid/" + type(exc).__name__, "parse_function(%r) raised %s: %s for a string inside the documented language (features %s)" % (_short(src), type(exc).__name__, str(exc)[:300], sorted(v.features)))
    if not (isinstance(res, tuple) and len(res) == 2 and callable(res[0])):
        raise Violation(ID, "return-shape", "parse_function(%r) returned %r" % (_short(src), res))
    fcn, deps = res
    got = set(deps)
    if got != v.names or not all(isinstance(d, str) for d in deps):
        missing, extra = sorted(v.names - got), sorted(got - v.names)
        kind = "missing-selector" if any("___" in m for m in missing) else ("missing" if missing else "extra")
        raise Violation(ID, "deps/" + kind, "parse_function(%r) reports dependencies %r; free names are %r (missing %s, extra %s)" % (_short(src), sorted(got), sorted(v.names), missing, extra))
    return v, fcn, labels


class _Would(object):
    def __repr__(self):
        return "<would be evaluated>"


_WOULD = _Would()
_GUARD = {"allow": False, "armed": False, "hits": 0, "active": None}


def _install_guard(utils):
    """make the name eval seen by atomica.utils a recorder, so nothing the validator rejects is ever evaluated

    The recorder only intercepts while the harness is inside check_ps_string ("armed"); any other caller in
    the process gets the ordinary eval with its own frame's namespaces.
    """
    if _GUARD["active"] is not None:
        return _GUARD["active"]
    import builtins

    def guarded_eval(code, *a, **k):
        if not _GUARD["armed"]:
            if a or k:
                return builtins.eval(code, *a, **k)
            fr = sys._getframe(1)
            return builtins.eval(code, fr.f_globals, fr.f_locals)
        _GUARD["hits"] += 1
        if _GUARD["allow"]:
            return builtins.eval(code, {"__builtins__": {}}, {})
        return _WOULD

    utils.eval = guarded_eval
    _GUARD["allow"], _GUARD["armed"] = False, True
    try:
        r = utils.evaluate_plot_string("['a']")
    except Exception:
        r = None
    finally:
        _GUARD["armed"] = False
    _GUARD["active"] = r is _WOULD
    return _GUARD["active"]


def check_ps_string(src, harmless):
    """oracle for evaluate_plot_string. `harmless` = the string comes from the harness vocabulary (safe even if evaluated)."""
    _, utils = _atomica()
    active = _install_guard(utils)
    if not active and not harmless:
        return ["ps:skipped-guard-inactive"]
    v = X.validate_plot_string(src)
    labels = ["ps:%s" % v.status + (":%s" % v.node if v.node else "")]
    _GUARD["allow"], _GUARD["armed"] = v.status == "allowed", True
    try:
        try:
            out = utils.evaluate_plot_string(src)
            accepted, exc = True, None
        except Exception as e:  # noqa
            accepted, exc, out = False, e, None
    finally:
        _GUARD["allow"], _GUARD["armed"] = False, False
    if v.status == "verbatim":
        if not accepted or out != src:
            raise Violation(ID, "plot/verbatim", "evaluate_plot_string(%r) -> %r / %r; a string without brackets must be returned unchanged" % (_short(src), out, exc))
    elif v.status == "forbidden":
        labels.append("ps:forbidden-depth:%d" % min(v.depth, 5))
        if accepted:
            raise Violation(ID, "plot/accepts/" + v.node, "evaluate_plot_string(%r) did not raise although the string contains %s at depth %d" % (_short(src), v.node, v.depth))
    elif v.status == "unparseable":
        if accepted:
            raise Violation(ID, "plot/accepts/not-an-expression", "evaluate_plot_string(%r) returned %r" % (_short(src), out))
    elif v.status == "allowed":
        try:
            ref = ast.literal_eval(src)
            ref_ok = True
        except Exception:
            ref_ok = False
        if ref_ok:
            if not accepted:
                raise Violation(ID, "plot/rejects-valid/" + type(exc).__name__, "evaluate_plot_string(%r) raised %s: %s" % (_short(src), type(exc).__name__, str(exc)[:200]))
            if out is _WOULD or out != ref or type(out) is not type(ref):
                raise Violation(ID, "plot/value", "evaluate_plot_string(%r) -> %r, literal value %r" % (_short(src), out, ref))
        else:
            labels.append("ps:allowed-but-not-a-literal")  # e.g. unhashable dict key
    return labels


def _check_string_case(case):
    src = case["src"]
    labels = ["kind:%s:%s" % (case["kind"], case["target"])]
    if case["kind"] == "struct":
        labels.append("struct:%s:%s" % (case["target"], case.get("node")))
        labels.append("struct:%s:ctx-depth:%d" % (case["target"], len(case.get("ctx", []))))
    if case["target"] == "pf":
        v, fcn, labs = check_pf_string(src)
        nontrivial = v.status == "forbidden" and v.depth >= 2
        if v.status == "allowed" and fcn is not None:
            labs += _evaluate_fixed_env(src, v, fcn)
    else:
        labs = check_ps_string(src, harmless=not case.get("from_fuzzer"))
        v = X.validate_plot_string(src)
        nontrivial = v.status == "forbidden" and v.depth >= 2
    return {"nontrivial": nontrivial, "labels": labels + labs}


_FIXED = [1.5, 0.0, 2.0, -3.0, 0.5, 7.0, 0.25, 4.0, 10.0, -1.0, 3.0]


def _fixed_env(names, arrays):
    env = {}
    for i, nm in enumerate(sorted(names)):
        base = _FIXED[i % len(_FIXED)]
        env[nm] = [base, 0.0, base + 1.0] if arrays else base
    return env


def _evaluate_fixed_env(src, v, fcn):
    """struct / gram strings the validator allows are also evaluated on two fixed environments"""
    labs = []
    for arrays in (False, True):
        try:
            _compare(src, v, fcn, _fixed_env(v.names, arrays), "np")
        except Discard:
            labs.append("pf:allowed-not-evaluable")
            break
    return labs


def _compare(src, v, fcn, env, scalar_kind):
    """call fcn on env and compare with the reference; returns info dict"""
    env_np = {}
    for k, val in env.items():
        env_np[k.replace(":", "___")] = np.array(val, dtype=float) if isinstance(val, list) else float(val)
    as_int = {k for k, val in env_np.items() if scalar_kind == "int-if-whole" and not isinstance(val, np.ndarray) and val.is_integer() and abs(val) < 1e6}
    try:
        ref, valid, err, is_truth = X.evaluate(src, {k: (int(val) if k in as_int else val) for k, val in env_np.items()})
    except X.NotAllowed as e:
        raise Discard("outside-evaluable-subset")
    has_array = any(isinstance(env_np[k], np.ndarray) for k in v.names)
    if not valid.any():
        return {"defined": 0, "has_array": has_array}
    args = {}
    for k in v.names:
        val = env_np[k]
        if isinstance(val, np.ndarray):
            args[k] = val.copy()
        elif scalar_kind == "py":
            args[k] = float(val)
        elif k in as_int:
            args[k] = int(val)
        else:
            args[k] = np.float64(val)
    try:
        with np.errstate(all="ignore"):
            got = fcn(**args)
    except Exception as e:  # noqa
        raise Violation(ID, "arith/raises-" + type(e).__name__, "%r with %r raised %s: %s; reference value %r" % (_short(src), _show(args), type(e).__name__, str(e)[:200], ref.tolist()))
    for k, val in args.items():
        if isinstance(val, np.ndarray) and not np.array_equal(val, env_np[k], equal_nan=True):
            raise Violation(ID, "arith/mutates-input", "%r changed its argument %s from %r to %r" % (_short(src), k, env_np[k].tolist(), val.tolist()))
    try:
        g = np.asarray(got)
        if g.dtype == object or g.dtype.kind not in "fiub":
            raise TypeError("dtype %s" % g.dtype)
    except Exception as e:  # noqa
        raise Violation(ID, "arith/result-type", "%r with %r returned %r" % (_short(src), _show(args), got))
    if g.shape != ref.shape:
        raise Violation(ID, "arith/shape", "%r with %r returned shape %s, expected %s (value %r)" % (_short(src), _show(args), g.shape, ref.shape, g.tolist()))
    if is_truth:
        if g.dtype.kind != "b":
            raise Violation(ID, "arith/result-type", "%r: comparison returned dtype %s" % (_short(src), g.dtype))
        bad = valid & (g != ref)
    else:
        gf = g.astype(float)
        scale = np.maximum(1.0, np.abs(ref))
        cond_ok = err <= 1e-9 * scale
        valid = valid & cond_ok
        with np.errstate(all="ignore"):
            bad = valid & ~(np.abs(gf - ref) <= TOL * scale + err)
    if bad.any():
        i = int(np.argmax(bad))
        raise Violation(ID, "arith/value", "%r with %r: element %d is %r, ordinary arithmetic gives %r (all: got %r, reference %r, defined %r)" % (_short(src), _show(args), i, g.ravel()[i].item(), ref.ravel()[i].item(), g.tolist(), ref.tolist(), valid.tolist()))
    return {"defined": int(valid.sum()), "has_array": has_array}


def _show(args):
    return {k: (v.tolist() if isinstance(v, np.ndarray) else v) for k, v in args.items()}


def _mutate(deps, how):
    """what a caller may do with the list it was handed"""
    if not isinstance(deps, list):
        return
    if how == "clear":
        del deps[:]
    elif how == "pop-first" and deps:
        deps.pop(0)
    elif how == "pop-last" and deps:
        deps.pop()
    elif how == "append":
        deps.append("zz_not_a_dependency")
    elif how == "reverse":
        deps.reverse()
    elif how == "sort":
        deps.sort()
    elif how == "drop-even":
        del deps[::2]
    elif how == "drop-t-dt":
        for special in ("t", "dt"):
            while special in deps:
                deps.remove(special)
    elif how == "rename-first" and deps:
        deps[0] = "zz_" + str(deps[0])


def _check_hist(case):
    """histories: whatever happened before in the process (other parses, callers editing the list they were given, calling the
    returned functions, model builds that parse the same strings), every parse reports exactly the free names and the right values"""
    strings, ops = case["strings"], case["ops"]
    labels = ["kind:hist:" + ("model" if case.get("spec") else "plain")]
    slots = []  # (string index, verdict, fcn, deps list) of every parse so far
    parsed_before, disturbed, done = set(), False, []
    reparsed_after_disturbance = False
    model_fns = set(p["fn"] for p in case["spec"]["pars"] if p.get("fn")) if case.get("spec") else set()

    def parse(i, final=False):
        nonlocal reparsed_after_disturbance
        src = strings[i]
        keep = {}
        history = disturbed or i in parsed_before
        try:
            v, fcn, labs = check_pf_string(src, keep)
            if v.status == "allowed" and fcn is not None:
                _evaluate_fixed_env(src, v, fcn)
        except Violation as e:
            if not history:
                raise
            raise Violation(ID, "history/" + e.bucket, "after %s: %s" % (json.dumps(done), e.detail))
        if history and disturbed and i in parsed_before:
            reparsed_after_disturbance = True
        parsed_before.add(i)
        res = keep.get("res")
        deps = res[1] if isinstance(res, tuple) and len(res) == 2 else None
        if not final:
            slots.append((i, v, fcn, deps))

    for op in ops:
        if op[0] == "parse":
            parse(op[1] % len(strings))
        elif op[0] == "mutate" and slots:
            i, v, fcn, deps = slots[op[1] % len(slots)]
            if v.status == "allowed":
                _mutate(deps, op[2])
                disturbed = True
                labels.append("hist:mutate:" + op[2])
        elif op[0] == "call" and slots:
            i, v, fcn, deps = slots[op[1] % len(slots)]
            if v.status == "allowed" and fcn is not None:
                try:
                    _evaluate_fixed_env(strings[i], v, fcn)
                except Violation as e:
                    raise Violation(ID, "history/" + e.bucket, "function returned earlier for %r, called after %s: %s" % (_short(strings[i]), json.dumps(done), e.detail))
                labels.append("hist:call")
        elif op[0] == "build":
            if not case.get("spec"):
                raise HarnessError("C19 history with a build step but no model spec")
            from vlib import simcase

            try:
                simcase.run_spec(case["spec"], check_domain=False)
            except Discard as d:
                raise Discard("hist: model could not be built/run: " + d.reason[:80])
            disturbed = True
            parsed_before.update(i for i, x in enumerate(strings) if x in model_fns)  # the build parsed them
            labels.append("hist:build")
        done.append(op)
    done.append(["parse-all"])
    for i in range(len(strings)):
        parse(i, final=True)
    if any(("t" in X.validate_function(x).names or "dt" in X.validate_function(x).names) for x in strings):
        labels.append("hist:uses-t-or-dt")
    return {"nontrivial": reparsed_after_disturbance, "labels": labels}


def _check_arith(case):
    src, env = case["src"], case["env"]
    v, fcn, labels = check_pf_string(src)
    if v.status != "allowed":
        raise HarnessError("C19 arithmetic generator produced a string outside the allowed language: %r -> %r" % (src, v))
    labels = ["kind:arith", "arith:scalar-kind:" + case.get("scalar", "np")]
    info = _compare(src, v, fcn, env, case.get("scalar", "np"))
    for f in sorted(v.features):
        if f in ("div", "pow", "compare", "selector") or f.startswith("fn:"):
            labels.append("arith:" + f)
    labels.append("arith:arrays" if info["has_array"] else "arith:scalars-only")
    if not info["defined"]:
        labels.append("arith:undefined-everywhere")
    if "div" in v.features or "fn:sdiv" in v.features:
        zn = _zero_division_profile(v, env)
        labels.extend(zn)
    nontrivial = ("div" in v.features) and info["has_array"] and info["defined"] > 0
    return {"nontrivial": nontrivial, "labels": labels}


def _zero_division_profile(v, env):
    """labels telling whether some division in the case had a zero numerator / denominator (coverage evidence only)"""
    env_np = {k.replace(":", "___"): (np.array(val, dtype=float) if isinstance(val, list) else float(val)) for k, val in env.items()}
    labs = set()
    for node in ast.walk(v.tree):
        pair = None
        if isinstance(node, ast.BinOp) and isinstance(node.op, ast.Div):
            pair = (node.left, node.right)
        elif isinstance(node, ast.Call) and isinstance(node.func, ast.Name) and node.func.id == "sdiv" and len(node.args) == 2:
            pair = tuple(node.args)
        if pair is None:
            continue
        try:
            with np.errstate(all="ignore"):
                a, b = X._ev(pair[0], env_np), X._ev(pair[1], env_np)
        except (X.NotAllowed, KeyError):
            continue
        az, bz = np.broadcast_arrays(np.asarray(a.v) == 0, np.asarray(b.v) == 0)
        if (az & bz).any():
            labs.add("arith:div:0/0")
        if (az & ~bz).any():
            labs.add("arith:div:0/y")
        if (~az & bz).any():
            labs.add("arith:div:x/0(masked)")
    return sorted(labs)


# ---------------------------------------------------------------------------- atheris campaigns (thorough tier)


def _atheris_available():
    deps = os.path.join(VERIF, ".deps")
    r = subprocess.run([sys.executable, "-c", "import sys; sys.path.append(%r); import atheris" % deps], capture_output=True)
    return r.returncode == 0


def _scratch():
    d = os.environ.get("VERIF_SCRATCH") or os.path.join(VERIF, ".scratch", "C19-manual")
    os.makedirs(d, exist_ok=True)
    return d


def _check_atheris(case):
    from vlib.runner import load_known, match_known

    work = os.path.join(_scratch(), "atheris-%s" % case["campaign"])
    corpus = os.path.join(work, "corpus")
    os.makedirs(corpus, exist_ok=True)
    out = os.path.join(work, "findings.json")
    cmd = [sys.executable, os.path.join(VERIF, "tools", "fuzz_c19.py"), "--campaign", case["campaign"], "--out", out, "--work", work, "-max_total_time=%d" % case["seconds"], "-seed=%d" % case["seed"], corpus]
    env = dict(os.environ)
    env["PYTHONPATH"] = os.path.join(VERIF, ".deps") + os.pathsep + env.get("PYTHONPATH", "")
    t0 = time.time()
    r = subprocess.run(cmd, env=env, capture_output=True, text=True, cwd=VERIF, timeout=case["seconds"] + 600)
    wall = time.time() - t0
    if not os.path.exists(out):
        summary = {"campaign": case["campaign"], "status": "did-not-run", "rc": r.returncode, "stderr_tail": r.stderr[-1500:]}
        _write_summary(summary)
        return {"nontrivial": False, "labels": ["atheris:%s:did-not-run" % case["campaign"]], "inconclusive": {"atheris-did-not-run": 1}}
    with open(out) as f:
        res = json.load(f)
    import re

    m = re.search(r"Done (\d+) runs in", r.stderr or "")
    if m:
        res["executions"] = max(res["executions"], int(m.group(1)))  # the findings file is refreshed once a second; libFuzzer's own count is exact
    summary = {"campaign": case["campaign"], "status": "ok", "rc": r.returncode, "executions": res["executions"], "wall_s": round(wall, 1), "executions_by_status": res["status_counts"], "findings": sorted(res["findings"]), "corpus_files": len(os.listdir(corpus)), "crash": res.get("crash")}
    _write_summary(summary)
    labels = ["atheris:%s:campaign" % case["campaign"], "atheris:%s:execs>=%d" % (case["campaign"], 10 ** (len(str(max(res["executions"], 1))) - 1))]
    if res.get("crash"):
        raise HarnessError("atheris target crashed outside the oracle: %s" % res["crash"])
    known = load_known(ID)
    new = None
    for bucket, item in sorted(res["findings"].items()):
        viol = Violation(ID, bucket, "found by atheris (%s corpus): %s" % (case["campaign"], item["detail"]))
        if match_known(known, viol) is not None:
            labels.append("atheris:known:" + bucket)
            continue
        _write_fuzz_replay(bucket, item)
        if new is None:
            new = viol
    if new is not None:
        raise new
    return {"nontrivial": res["executions"] > 0, "labels": labels}


def _write_fuzz_replay(bucket, item):
    base = os.environ.get("VERIF_OUT_DIR", VERIF)
    rdir = os.path.join(base, "replays", ID)
    os.makedirs(rdir, exist_ok=True)
    case = {"kind": "gram", "target": item["target"], "src": item["src"], "from_fuzzer": True}
    h = hashlib.sha1(json.dumps(case, sort_keys=True).encode()).hexdigest()[:16]
    with open(os.path.join(rdir, "fuzz_%s.json" % h), "w") as f:
        json.dump({"property": ID, "bucket": bucket, "detail": item["detail"][:2000], "case": case}, f, indent=1)


def _write_summary(summary):
    with open(os.path.join(_scratch(), "atheris-summary-%s.json" % summary["campaign"]), "w") as f:
        json.dump(summary, f)


# ---------------------------------------------------------------------------- entry points


def check(case):
    kind = case.get("kind")
    if kind in ("struct", "gram"):
        return _check_string_case(case)
    if kind == "arith":
        return _check_arith(case)
    if kind == "hist":
        return _check_hist(case)
    if kind == "atheris":
        return _check_atheris(case)
    raise HarnessError("unknown C19 case kind %r" % kind)


def evidence_extra(tier):
    frags = fragment_list()
    classes = _node_classes()
    maxd = 3 if tier == "thorough" else 2
    extra = {
        "exhaustive_scope": "EXHAUSTIVE refers to the structural enumeration only: %d fragments covering all %d non-deprecated ast.expr / operator / unaryop / cmpop / boolop / expr_context classes of Python %s, "
        "each at the root and under every chain of 1..%d of the %d allowed parse_function contexts (and 0..2 of the %d list/dict contexts of evaluate_plot_string); the gram / arith / atheris parts are sampled"
        % (len(frags), len(classes), sys.version.split()[0], maxd, len(PF_CONTEXTS), len(PS_CONTEXTS)),
        "node_classes_enumerated": sorted(classes),
        "deprecated_aliases_not_enumerated": sorted(DEPRECATED_ALIASES),
        "max_nesting_depth": maxd + 1,
    }
    if tier == "thorough":
        camp = []
        d = os.path.join(VERIF, ".scratch", "%s-%d" % (ID, os.getpid()))
        if os.path.isdir(d):
            for fn in sorted(os.listdir(d)):
                if fn.startswith("atheris-summary-"):
                    with open(os.path.join(d, fn)) as f:
                        camp.append(json.load(f))
        extra["atheris"] = camp if camp else ("atheris not importable: campaigns skipped" if not _atheris_available() else "no campaign summary found")
    else:
        extra["atheris"] = "not run in the quick tier"
    return extra
