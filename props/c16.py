"""C16 - round trips preserve content and behaviour; parameter sets / program sets behave as their visible data.

kinds (field 'kind' of a case):
  rt-books      databook, program book and calibration written by atomica and read back: content projections equal (1e-14),
                simulation agrees (1e-9), a second round trip is exact (projection) and bit-identical (simulation)
  rt-framework  ProjectFramework.to_spreadsheet -> ProjectFramework: tables/transitions/cascades equal, the original databook
                is still accepted, simulation agrees, second trip exact
  binary        Project.save/load, sc.saveobj/loadobj of parset, progset and Result: content exact, behaviour bit-identical
  stateful      up to 4 library operations on (databook, parset, progset); after every step the live objects must simulate
                like the objects rebuilt from their own exported spreadsheets, and have the same content
  calib         load_calibration of an edited calibration file: unknown entries skipped, missing entries keep their values
  lib           (static) the library frameworks / databooks / program books
"""
import copy

import numpy as np
from hypothesis import strategies as st

from vlib import gen_model, build, simcase, canon
from vlib import c16_helpers as H
from vlib.runner import Violation, Discard, HarnessError, load_known, match_known

ID = "C16"
RULE = (
    "cases = generated ModelSpecs (1-3 populations, transfers, interactions, sparse/dense/weekly/daily time axes with values in neighbouring columns, assumptions, assumption+years, "
    "uncertainties; population and program names that contain each other) with 1-4 generated programs (targets, spend/unit cost/capacity/saturation/coverage series, outcomes with "
    "coverage interactions and explicit impact interactions between arbitrary subsets, coverage overwrites) x kind in {rt-books, rt-framework, binary, "
    "stateful (<=4 operations from copy/add-remove population/add-remove program/add-remove parameter/add-remove transfer/zero-uncertainty sample/reconcile/load "
    "calibration/entering an uncertainty, constant or year values where the table had no such column - directly, after a first write, or on objects re-read from their own "
    "spreadsheets), calib (edited calibration files)} plus the library files as static cases; oracle = explicit content projections (rtol 1e-14, exact on the second "
    "trip), paired simulations (1e-9; bitwise for binary files and second trips), live object vs object rebuilt from its own export after every operation (simulation and direct evaluation of every program effect at joint coverages 1/0.6/0.3); "
    "non-trivial = (round trips) the objects contain an assumption, a sparse series and an uncertainty, (stateful) >= 1 editing operation was applied before the "
    "round trip, (calib) the file has an unknown or a missing entry; distinct = distinct case hash"
)
ASSUMPTIONS = [
    "every year of a time series is a member of its table's time axis (documented precondition of TimeDependentValuesEntry / TimeDependentConnections; values outside the axis are not written)",
    "a program set keeps at least one program and a databook at least one population (an empty program book cannot be read back: no currency)",
    "'simulations agree to 1e-9' is read as |a-b| <= 1e-9*max(1, largest magnitude in the run): last-bit input differences (16 stored digits) and different summation orders (re-read tables are ordered differently) are amplified by cancellation in stiff models with up to 1e10 people; 80% of the cases use numbers that a spreadsheet stores exactly, so that content comparisons are exact there",
    "when two runs that should agree do not, a control experiment moves every parameter-set value by one unit in the last place; if that alone changes the result beyond the tolerance the model amplifies rounding noise and the comparison is counted as inconclusive (about 1 case in 2000), not as a violation",
    "the 'export' of a ParameterSet is its databook (ProjectData.to_spreadsheet) plus its calibration_spreadsheet(); of a ProgramSet its to_spreadsheet()",
    "reconcile is made reproducible by passing randseed/maxiters to sciris.asd (the atomica API does not expose them); only the reconciled set vs its own export is compared",
    "zero-uncertainty sampling is exercised on objects whose uncertainties are all 0 or empty; sampling twice is a documented refusal",
    "calibration files: 'unknown' = a parameter/transfer/interaction name, source population or population column that the ParameterSet does not contain; rows that give a population for an ordinary parameter are malformed, not unknown, and are not generated",
    "single-program outcomes of one effect have pairwise distinct distances from the baseline: with exact ties the 'best' program of a combination is decided by the insertion order of Covout.progs, which the program book does not record (observed: 0.5 vs 0.0 after a round trip of baseline 0.25, outcomes 0.5/0.0); reported, not counted",
    "single population type only (gen_model does not generate several types)",
]
BUDGET = {"quick": 640, "thorough": 2560}  # thorough = 4x quick: a depth that was run to completion, quiet, at seed 1 (deterministic given the seed)
TIME_CAP = {"quick": 50, "thorough": 1500}
RTOL_CONTENT = 1e-14
RTOL_SIM = 1e-9

KINDS = ["rt-books", "rt-books", "rt-framework", "binary", "stateful", "stateful", "stateful", "stateful", "calib"]
SIG_RT = [None, 0.0, "pos", "pos"]
SIG_ZERO = [None, 0.0]
# (parameter sets keep the default interpolation method: the per-parameter method is a private, discouraged attribute that no spreadsheet stores,
# so it is not "visible data" in the sense of C16)
PROFILE = {"p_stepped_interpolation": 0.0, "max_steps": 24, "max_ord": 3, "extreme": 0.1, "p_transfer": 0.6, "p_interaction": 0.4, "p_yfactor": 0.4, "p_timed_yfactor": 0.2}
LIB_QUICK = ["tb_simple", "udt", "usdt", "hypertension", "hiv", "diabetes", "cervicalcancer", "service", "dt", "udt_dyn", "hiv_dyn", "tb_simple_dyn", "hypertension_dyn"]  # everything that loads here except tb (8 s)
LIB_THOROUGH = ["tb_simple", "udt", "usdt", "hypertension", "hiv", "tb", "diabetes", "cervicalcancer", "service", "dt", "udt_dyn", "hiv_dyn", "tb_simple_dyn", "hypertension_dyn"]


# --------------------------------------------------------------------------- strategy


def _round15(x):
    if isinstance(x, float):
        return float("%.15g" % x)
    if isinstance(x, list):
        return [_round15(v) for v in x]
    if isinstance(x, dict):
        return {k: _round15(v) for k, v in x.items()}
    return x


OP_KINDS = ["edit", "edit", "edit", "remove_program", "remove_program", "reconcile", "remove_pop", "add_pop", "add_program", "remove_par", "add_par", "calib", "sample", "copy", "reconcile", "add_transfer", "remove_transfer"]


@st.composite
def _op(draw, rnd):
    k = rnd.choice(OP_KINDS)  # Hypothesis-controlled Random: uniform, whereas sampled_from favours the first entries in small runs
    op = {"op": k, "i": draw(st.integers(0, 5))}
    if k in ("copy", "sample"):
        op["what"] = draw(st.sampled_from(["ps", "pg"] + (["data"] if k == "copy" else [])))
    elif k == "calib":
        op["edits"] = draw(_calib_edits())
    elif k == "add_pop":
        op["fill"] = draw(st.sampled_from([True, True, True, False]))
        op["target"] = draw(st.booleans())
    elif k == "add_program":
        op["fill"] = draw(st.sampled_from([True, True, True, False]))
        op["spend"] = H.number(draw, 0.0, 1e4)
        op["cost"] = H.number(draw, 0.5, 100.0)
        op["outcome"] = draw(st.one_of(st.none(), st.floats(0.05, 1.0)))
        op["pops"] = draw(st.lists(st.integers(0, 3), min_size=1, max_size=2))
    elif k == "add_par":
        op["covout"] = draw(st.one_of(st.none(), st.floats(0.05, 1.0)))
    elif k == "reconcile":
        op["bounds"] = {b: draw(st.sampled_from([0.0, 0.0, 0.2, 0.5])) for b in ("unit_cost", "baseline", "capacity", "outcome")}
        if not any(op["bounds"].values()):
            op["bounds"][draw(st.sampled_from(["baseline", "outcome", "unit_cost"]))] = 0.3
        op["seed"] = draw(st.integers(0, 3))
        op["iters"] = draw(st.sampled_from([5, 20, 40]))
    elif k == "add_transfer":
        op["value"] = H.number(draw, 0.0, 0.5)
        op["units"] = draw(st.sampled_from(["rate", "number", "duration"]))
    elif k == "edit":
        # enter content that needs an optional column (uncertainty / constant / year values), directly, after the objects were
        # written once, or on objects that were read from their own spreadsheets (optionally with writer-chosen columns)
        op["target"] = rnd.choice(["data", "data", "data", "transfer", "prog"])
        op["what"] = rnd.choice(["sigma", "assumption", "assumption", "years"])
        op["via"] = rnd.choice(["direct", "after-write", "after-reload", "after-reload", "after-auto-columns-reload"])
        op["value"] = draw(st.sampled_from([0.5, 0.25, 0.75, 1.0, 0.125]))
    return op


@st.composite
def _calib_edits(draw):
    return {
        "drop": draw(st.lists(st.integers(0, 40), max_size=4, unique=True)),
        "blank": draw(st.lists(st.tuples(st.integers(0, 40), st.integers(0, 5)), max_size=4)),
        "set": draw(st.lists(st.tuples(st.integers(0, 40), st.integers(0, 5), st.sampled_from([0.5, 2.0, 1.25, 0.1, 3.0])), max_size=5)),
        "unknown_rows": draw(st.lists(st.tuples(st.sampled_from(["first", "first", "last", "mid"]), st.sampled_from(["par", "par", "transfer-src", "tdc"])), max_size=3)),
        "unknown_col": draw(st.booleans()),
    }


@st.composite
def cases(draw, tier):
    rnd = draw(st.randoms(use_true_random=False))
    kind = rnd.choice(KINDS)
    prof = dict(PROFILE)
    if tier == "thorough":
        prof.update(max_steps=40, max_ord=4)
    spec = draw(gen_model.model_specs(prof))
    zero_sigma = kind == "stateful"
    sig = SIG_ZERO if zero_sigma else SIG_RT
    fine = []
    if rnd.random() < 0.35:
        # weekly / daily / 0.01-0.02 year columns (neighbouring years closer than 1e-5 * year)
        step = rnd.choice([1 / 52, 1 / 365, 0.01, 0.02, 0.005])
        t0 = spec["settings"]["start"] + rnd.choice([0.0, -1.0, 0.5])
        fine = [t0 + k * step for k in range(rnd.choice([3, 5, 8]))]
    feats = H.decorate_data(draw, spec, sig, dense=draw(st.booleans()), fine_years=fine)
    nested = rnd.random() < 0.5
    H.add_programs(draw, spec, sig, min_progs=2 if kind == "stateful" else 1, nested_names=nested, fine_years=fine if rnd.random() < 0.5 else ())
    if rnd.random() < 0.5:
        H.rename_pops(spec, H.NESTED_POP_NAMES)
    exact = draw(st.sampled_from([True, True, True, True, False]))
    if exact:
        spec["data"] = _round15(spec["data"])
        if spec.get("progs"):
            spec["progs"] = _round15(spec["progs"])
    case = {"kind": kind, "spec": spec, "exact": exact}
    if kind == "stateful":
        n_ops = draw(st.sampled_from([1, 2, 2, 3, 3, 4, 4]))
        case["ops"] = [draw(_op(rnd)) for _ in range(n_ops)]
    elif kind == "calib":
        case["edits"] = draw(_calib_edits())
        if not (case["edits"]["drop"] or case["edits"]["unknown_rows"] or case["edits"]["unknown_col"]):
            case["edits"]["unknown_rows"] = [("first", "par")]
    elif kind == "rt-books":
        case["init"] = draw(st.sampled_from([False, False, False, True]))
    return case


def strategy(tier):
    return cases(tier)


def static_cases(tier):
    for name in LIB_QUICK if tier == "quick" else LIB_THOROUGH:
        yield {"kind": "lib", "name": name}


# --------------------------------------------------------------------------- plumbing


class V:
    """violations of one case; the first one that is not a listed known finding is raised at the end"""

    def __init__(self):
        self.items = []

    def add(self, bucket, detail):
        self.items.append(Violation(ID, bucket, str(detail)[:1800]))

    def flush(self):
        if not self.items:
            return
        known = load_known(ID)
        for v in self.items:
            if match_known(known, v) is None:
                raise v
        raise self.items[0]


def _exc(e):
    return "%s@%s" % (type(e).__name__, simcase.atomica_frame(e))


DELIBERATE = ("Exception", "AssertionError", "InvalidDatabook", "InvalidProgramBook", "InvalidFramework", "ModelError", "NotFoundError", "BadInitialization", "UnresolvableConstraint", "FailedConstraint", "InvalidInitialConditions")


def _deliberate(e):
    """atomica refusing an input on purpose (plain Exception / assertion with a message / its own exception classes), as
    opposed to a crash (UnboundLocalError, AttributeError, KeyError, ValueError from list.remove, ...)"""
    return type(e).__name__ in DELIBERATE


def _build(spec):
    simcase.quiet()
    try:
        b = build.build_all(spec)
        b["settings"] = b["P"].settings
        for p in (spec.get("progs") or {}).get("progs", []):
            if p.get("cov"):
                build._fill_ts(b["progset"].programs[p["name"]].coverage, p["cov"])
        res = H.simulate(b["settings"], b["F"], b["ps"], b["progset"], b["instructions"])
    except HarnessError:
        raise
    except Exception as e:
        raise Discard("generated model not accepted/runnable: %s (decided by C18)" % _exc(e))
    arr = H.arrays(res)
    big = max((float(np.nanmax(np.abs(a))) for a in arr.values() if a.size and np.isfinite(a).any()), default=0.0)
    if not all(np.isfinite(a).all() for a in arr.values()) or big > 1e100:
        raise Discard("non-finite or overflowing run (decided by C02)")
    return b, res, arr


def _content(v, what, a, b, rtol, prefix):
    """compare two projections; returns True if bit-identical"""
    d = canon.pdiff(a, b, rtol)
    if d:
        v.add("%s/%s/%s" % (prefix, what, H.first_field(d[0][0])), "%s: original vs re-read differ: %r" % (what, d[:4]))
        return False
    return not canon.pdiff(a, b, 0.0)


def _cmp(arr_a, arr_b, exact=None):
    """None or a description of the first difference beyond 1e-9 relative to the largest magnitude in the run.
    (Element-wise 1e-9 is too strict even for bit-identical content: a re-read book orders its tables differently, sums are
    taken in another order, and a stiff model with 1e9 people turns the last-bit difference into 1e-7 people in a small compartment.)"""
    if set(arr_a) != set(arr_b):
        return ("keys", sorted(set(arr_a) ^ set(arr_b), key=repr)[:3], None, None)
    scale = 1.0
    for a in list(arr_a.values()) + list(arr_b.values()):
        if a.size:
            f = np.abs(a[np.isfinite(a)])
            if f.size:
                scale = max(scale, float(f.max()))
    for k in sorted(arr_a, key=repr):
        x, y = arr_a[k], arr_b[k]
        if x.shape != y.shape:
            return (k, "shape", x.shape, y.shape)
        with np.errstate(invalid="ignore"):
            bad = ~(np.abs(x - y) <= RTOL_SIM * scale) & ~(np.isnan(x) & np.isnan(y)) & ~(x == y)
        if bad.any():
            i = tuple(int(j) for j in np.argwhere(bad)[0])
            return (k, i, float(x[i]), float(y[i]), "scale %g" % scale)
    return None


def _ill_conditioned(stg, F, ps, pg, ins):
    """control experiment, run only when two simulations that should agree do not: move every value of the parameter set by
    one unit in the last place and simulate again. If that alone moves the result by more than the tolerance, the model
    amplifies rounding noise (explosive feedback, x**0.25 of a cancellation residue, ...) and a 1e-9 agreement of runs whose inputs
    differ in the 16th digit / whose sums are taken in another order is not decidable: the comparison is counted as inconclusive."""
    import sciris as sc

    try:
        base = H.arrays(H.simulate(stg, F, ps, pg, ins))
        for direction in (np.inf, -np.inf):
            q = sc.dcp(ps)
            for par in q.all_pars():
                for ts in par.ts.values():
                    ts.vals = [float(np.nextafter(x, direction)) for x in ts.vals]
                    if ts.assumption is not None:
                        ts.assumption = float(np.nextafter(ts.assumption, direction))
            if q.initialization is not None:
                q.initialization.values = {k: np.nextafter(np.asarray(x, dtype=float), direction) for k, x in q.initialization.values.items()}
            if _cmp(base, H.arrays(H.simulate(stg, F, q, pg, ins))):
                return True
        if pg is not None:
            # the same for the program set: every number that a spreadsheet cell cannot hold exactly (16 significant digits) is
            # moved by its rounding error in the opposite direction (e.g. an outcome that reaches exactly 1.0 under floor())
            def mirror(x):
                x = float(x)
                return x - (float("%.16G" % x) - x) if np.isfinite(x) else x

            g = sc.dcp(pg)
            for prog in g.programs.values():
                for ts in (prog.spend_data, prog.unit_cost, prog.capacity_constraint, prog.saturation, prog.coverage):
                    ts.vals = [mirror(x) for x in ts.vals]
                    if ts.assumption is not None:
                        ts.assumption = mirror(ts.assumption)
            for cv in g.covouts.values():
                old_base = cv.baseline
                cv.baseline = mirror(cv.baseline)
                for k in cv.progs:
                    cv.progs[k] = mirror(cv.progs[k])
                for k in cv._interactions:
                    cv._interactions[k] += old_base - cv.baseline
                cv.update_outcomes()
            if _cmp(base, H.arrays(H.simulate(stg, F, ps, g, ins))):
                return True
    except Exception:
        return False
    return False


def _ill_conditioned_framework(stg, F, D, spec, pg, ins):
    """control experiment for the framework round trip: every number of the in-memory framework that a spreadsheet cell cannot hold
    exactly (16 significant digits, e.g. the timescale 1/365) is moved by the same amount in the opposite direction; if that alone
    moves the trajectory beyond the tolerance (floor() of a compartment size, comparisons, 1e9 people) the comparison with the
    re-read framework is not decidable at 1e-9 and is counted as inconclusive"""
    import atomica as at
    import sciris as sc

    def run(Fx):
        ps = at.ParameterSet(Fx, D, "control")
        build.apply_factors(spec, ps)
        return H.arrays(H.simulate(stg, Fx, ps, pg, ins))

    try:
        F1 = sc.dcp(F)
        moved = 0
        for df in (F1.comps, F1.characs, F1.pars, F1.interactions):
            for col in df.columns:
                if df[col].dtype.kind != "f":
                    continue
                for idx, x in df[col].items():
                    if x == x and np.isfinite(x) and float("%.16G" % x) != x:
                        df.at[idx, col] = x - (float("%.16G" % x) - x)
                        moved += 1
        if not moved:
            return False
        return bool(_cmp(run(F), run(F1)))
    except Exception:
        return False


def _labels(case, extra=()):
    labs = ["kind:" + case["kind"]]
    if "exact" in case:
        labs.append("numbers:16-digit-exact" if case["exact"] else "numbers:full-precision")
    labs += ["data:" + f for f in sorted(H.data_features(case["spec"]))]
    pg = case["spec"].get("progs") or {}
    if any(p["name"] in H.NESTED_PROG_NAMES for p in pg.get("progs", [])):
        labs.append("names:nested-programs")
        if any(len(c["progs"]) >= 3 and c.get("imp") for c in pg.get("covouts", [])):
            labs.append("effects:3-programs-with-interactions")
    if any((p if isinstance(p, str) else p["name"]) in H.NESTED_POP_NAMES.values() for p in case["spec"]["pops"]):
        labs.append("names:nested-populations")
    if (case["spec"].get("instr") or {}).get("coverage"):
        labs.append("instructions:coverage-overwrites")
    labs += list(extra)
    return labs


def _rich(case):
    f = H.data_features(case["spec"])
    return bool(f & {"assumption", "assumption+years"}) and "sparse-series" in f and "uncertainty" in f


# --------------------------------------------------------------------------- rt-books


def check_rt_books(case):
    b, res0, arr0 = _build(case["spec"])
    F, D, ps, pg, ins, stg = b["F"], b["D"], b["ps"], b["progset"], b["instructions"], b["settings"]
    v = V()
    labels = []
    inconclusive = 0
    if case.get("init"):
        ps.set_initialization(res0, year=float(res0.t[min(len(res0.t) - 1, 2)]))
        try:
            res0 = H.simulate(stg, F, ps, pg, ins)
            arr0 = H.arrays(res0)
            labels.append("calibration:initialization")
        except Exception as e:
            raise Discard("run with a saved initialization failed: %s" % _exc(e))
    try:
        D2 = H.rt_data(D, F)
    except Exception as e:
        v.add("rt-books/databook/raises/" + type(e).__name__, "(%s) " % _exc(e) + "databook write->read raised %r" % e)
        v.flush()
    same = _content(v, "databook", H.proj_data(D), H.proj_data(D2), RTOL_CONTENT, "rt-books/content")
    pg2 = None
    if pg is not None:
        try:
            pg2 = H.rt_progset(pg, F, D2)
            same &= _content(v, "progbook", H.proj_progset(pg), H.proj_progset(pg2), RTOL_CONTENT, "rt-books/content")
        except Exception as e:
            v.add("rt-books/progbook/raises/" + type(e).__name__, "(%s) " % _exc(e) + "program book write->read raised %r" % e)
    try:
        ps2 = H.rt_parset(ps, F, D2)
        same &= _content(v, "calibration", H.proj_calibration(ps), H.proj_calibration(ps2), RTOL_CONTENT, "rt-books/content")
    except Exception as e:
        v.add("rt-books/calibration/raises/" + type(e).__name__, "(%s) " % _exc(e) + "calibration write->read raised %r" % e)
        v.flush()
    if v.items:
        v.flush()
    if pg is not None:
        pd_ = H.probe_diff(H.covout_probe(pg), H.covout_probe(pg2))
        if pd_:
            v.add("rt-books/behaviour/outcome-probe", "program effects of the re-read book evaluate differently (effect, coverage pattern, original, re-read): %r" % pd_[:3])
    try:
        arr1 = H.arrays(H.simulate(stg, F, ps2, pg2, ins))
    except Exception as e:
        v.add("rt-books/behaviour/reread-not-runnable/" + type(e).__name__, "(%s) " % _exc(e) + "original runs, re-read books raise %r" % e)
        v.flush()
    c = _cmp(arr0, arr1, same)
    if c and _ill_conditioned(stg, F, ps, pg, ins):
        labels.append("inconclusive:ill-conditioned-model")
        inconclusive = 1
    elif c:
        v.add("rt-books/behaviour/first-trip", "simulation of re-read books differs (content %s): %r" % ("bit-identical" if same else "equal to 1e-14", c))
    # second trip: exact
    try:
        D3 = H.rt_data(D2, F)
        pg3 = H.rt_progset(pg2, F, D3) if pg2 is not None else None
        ps3 = H.rt_parset(ps2, F, D3)
    except Exception as e:
        v.add("rt-books/second-trip/raises/" + type(e).__name__, "(%s) " % _exc(e) + "second write->read raised %r" % e)
        v.flush()
    _content(v, "databook", H.proj_data(D2), H.proj_data(D3), 0.0, "rt-books/second-trip")
    if pg2 is not None:
        _content(v, "progbook", H.proj_progset(pg2), H.proj_progset(pg3), 0.0, "rt-books/second-trip")
    _content(v, "calibration", H.proj_calibration(ps2), H.proj_calibration(ps3), 0.0, "rt-books/second-trip")
    arr2 = H.arrays(H.simulate(stg, F, ps3, pg3, ins))
    c = canon.compare_results(arr1, arr2, rtol=0.0)
    if c:
        v.add("rt-books/second-trip/behaviour", "second round trip is not bit-identical: %r" % (c,))
    v.flush()
    return {"nontrivial": _rich(case) and not inconclusive, "labels": _labels(case, labels + (["content:bit-identical"] if same else ["content:1e-14"])), "inconclusive": {"ill-conditioned-model": inconclusive} if inconclusive else {}}


# --------------------------------------------------------------------------- rt-framework


def check_rt_framework(case):
    import atomica as at

    b, res0, arr0 = _build(case["spec"])
    F, D, ps, pg, ins, stg = b["F"], b["D"], b["ps"], b["progset"], b["instructions"], b["settings"]
    v = V()
    inconclusive = 0
    try:
        F2 = H.rt_framework(F)
    except Exception as e:
        v.add("rt-framework/raises/" + type(e).__name__, "(%s) " % _exc(e) + "framework write->read raised %r" % e)
        v.flush()
    same = _content(v, "framework", H.proj_framework(F), H.proj_framework(F2), RTOL_CONTENT, "rt-framework/content")
    units = {q: (F.get_databook_units(q), F2.get_databook_units(q)) for q in D.tdve}
    bad = {q: u for q, u in units.items() if u[0] != u[1]}
    if bad:
        v.add("rt-framework/databook-units-changed", "databook units of the re-read framework differ: %r" % bad)
    try:
        F3 = H.rt_framework(F2)
        _content(v, "framework", H.proj_framework(F2), H.proj_framework(F3), 0.0, "rt-framework/second-trip")
    except Exception as e:
        v.add("rt-framework/second-trip/raises/" + type(e).__name__, "(%s) " % _exc(e) + "second framework write->read raised %r" % e)
    if not bad:
        try:
            D.validate(F2)
            ps2 = at.ParameterSet(F2, D, ps.name)
            build.apply_factors(case["spec"], ps2)
            pg2 = H.rt_progset(pg, F2, D) if pg is not None else None
            arr1 = H.arrays(H.simulate(stg, F2, ps2, pg2, ins))
            c = _cmp(arr0, arr1, same)
            if c and (_ill_conditioned(stg, F, ps, pg, ins) or _ill_conditioned_framework(stg, F, D, case["spec"], pg, ins)):
                inconclusive = 1
            elif c:
                v.add("rt-framework/behaviour", "simulation with the re-read framework differs (content %s): %r" % ("bit-identical" if same else "1e-14", c))
        except Exception as e:
            v.add("rt-framework/behaviour/reread-not-usable/" + type(e).__name__, "(%s) " % _exc(e) + "original framework runs; with the re-read framework: %r" % e)
    v.flush()
    ts = {p.get("ts") for p in case["spec"]["pars"]} - {None, 1.0}
    labs = ["framework:timescales" if ts else "framework:no-timescale", "content:bit-identical" if same else "content:1e-14"] + (["inconclusive:ill-conditioned-model"] if inconclusive else [])
    return {"nontrivial": not inconclusive, "labels": _labels(case, labs), "inconclusive": {"ill-conditioned-model": 1} if inconclusive else {}}


# --------------------------------------------------------------------------- binary


def check_binary(case):
    import os
    import atomica as at
    import sciris as sc

    b, res0, arr0 = _build(case["spec"])
    P, F, D, ps, pg, ins, stg = b["P"], b["F"], b["D"], b["ps"], b["progset"], b["instructions"], b["settings"]
    v = V()
    with H.Scratch() as d:
        if pg is not None:
            P.progsets.append(pg)
        try:
            fn = P.save(filename="p.prj", folder=d)
            P2 = at.Project.load(fn)
        except Exception as e:
            v.add("binary/project/raises/" + type(e).__name__, "(%s) " % _exc(e) + "Project.save/load raised %r" % e)
            v.flush()
        ps2 = P2.parsets[ps.name]
        pg2 = P2.progsets[pg.name] if pg is not None else None
        try:
            _content(v, "framework", H.proj_framework(F), H.proj_framework(P2.framework), 0.0, "binary/content")
            _content(v, "databook", H.proj_data(D), H.proj_data(P2.data), 0.0, "binary/content")
            _content(v, "calibration", H.proj_calibration(ps), H.proj_calibration(ps2), 0.0, "binary/content")
            _content(v, "parset-values", H.proj_parset_values(ps), H.proj_parset_values(ps2), 0.0, "binary/content")
            if pg is not None:
                _content(v, "progbook", H.proj_progset(pg), H.proj_progset(pg2), 0.0, "binary/content")
        except Exception as e:
            v.add("binary/content/loaded-object-broken/" + type(e).__name__, "(%s) reading the content of the loaded project raised %r" % (_exc(e), e))
        if tuple(P2.settings.tvec) != tuple(stg.tvec):
            v.add("binary/content/settings", "time vector changed")
        try:
            arr1 = H.arrays(H.simulate(P2.settings, P2.framework, ps2, pg2, ins))
            c = canon.compare_results(arr0, arr1, rtol=0.0)
            if c:
                v.add("binary/project/behaviour", "loaded project does not simulate bit-identically: %r" % (c,))
        except Exception as e:
            v.add("binary/project/not-runnable/" + type(e).__name__, "(%s) " % _exc(e) + "loaded project raises %r" % e)
        # result and single objects
        try:
            fr = os.path.join(d, "r.obj")
            sc.saveobj(fr, res0)
            res1 = sc.loadobj(fr)
            c = canon.compare_results(arr0, H.arrays(res1), rtol=0.0)
            if c:
                v.add("binary/result/arrays", "loaded Result differs: %r" % (c,))
            c = canon.compare_results(arr0, H.arrays(res0), rtol=0.0)
            if c:
                v.add("binary/result/original-changed-by-saving", "%r" % (c,))
            fo = os.path.join(d, "o.obj")
            sc.saveobj(fo, [ps, pg, D])
            ps3, pg3, D3 = sc.loadobj(fo)
            arr3 = H.arrays(H.simulate(stg, F, ps3, pg3, ins))
            c = canon.compare_results(arr0, arr3, rtol=0.0)
            if c:
                v.add("binary/objects/behaviour", "saved parset/progset do not simulate bit-identically: %r" % (c,))
            # the loaded databook still writes the same spreadsheet content
            _content(v, "databook", H.proj_data(H.rt_data(D, F)), H.proj_data(H.rt_data(D3, F)), 0.0, "binary/objects/export")
        except Violation:
            raise
        except Exception as e:
            v.add("binary/objects/raises/" + type(e).__name__, "(%s) " % _exc(e) + "saving/loading raised %r" % e)
    v.flush()
    return {"nontrivial": _rich(case), "labels": _labels(case)}


# --------------------------------------------------------------------------- calibration files


def _edited_calibration(ps, edits, v=None):
    """returns (spreadsheet, expected) where expected = {(par, src): {'meta'|pop: value}} for the cells the file defines"""
    df = H.calibration_frame(ps)
    cols = [c for c in df.columns if c not in ("par", "pop")]
    n = len(df)
    df = df.copy()
    for c in cols:
        df[c] = df[c].astype(float)
    for r, c, val in edits.get("set", []):
        if n and cols:
            rr, cc = r % n, cols[c % len(cols)]
            if not np.isnan(df.at[rr, cc]):
                df.at[rr, cc] = val
    for r, c in edits.get("blank", []):
        if n and cols:
            df.at[r % n, cols[c % len(cols)]] = np.nan
    drop = sorted({r % n for r in edits.get("drop", [])}) if n else []
    if len(drop) >= n:
        drop = drop[:-1]
    df = df.drop(index=drop).reset_index(drop=True)
    expected = {}
    for _, row in df.iterrows():
        key = (row["par"], None if canon.is_empty(row["pop"]) else row["pop"])
        expected[key] = {c: float(row[c]) for c in cols if not np.isnan(row[c])}
    tdc = list(ps.transfers.keys()) + list(ps.interactions.keys())
    import pandas as pd

    n_unknown = 0
    for pos, what in edits.get("unknown_rows", []):
        n_unknown += 1
        if what == "par" or not tdc:
            new = {"par": "zz_unknown%d" % n_unknown, "pop": np.nan}
        elif what == "transfer-src":
            new = {"par": tdc[0], "pop": "zz_nopop%d" % n_unknown}
        else:
            new = {"par": "zz_tdc%d" % n_unknown, "pop": ps.pop_names[0]}
        for c in cols:
            new[c] = 4.0
        row = pd.DataFrame([new])
        k = 0 if pos == "first" else len(df) if pos == "last" else len(df) // 2
        df = pd.concat([df.iloc[:k], row, df.iloc[k:]], ignore_index=True)
    if edits.get("unknown_col"):
        df["zz_pop"] = 5.0
    df = df.astype({"par": object, "pop": object})
    return H.frame_to_spreadsheet(df), expected, {"dropped": len(drop), "unknown": n_unknown + (1 if edits.get("unknown_col") else 0), "first_unknown": bool(edits.get("unknown_rows")) and edits["unknown_rows"][0][0] == "first"}


def _load_edited(ps_file, ps_target, edits, v, prefix):
    """load an edited copy of ps_file's calibration into ps_target (modified in place); checks skip/keep semantics"""
    ss, expected, info = _edited_calibration(ps_file, edits)
    before = H.proj_calibration(ps_target)
    try:
        ps_target.load_calibration(ss)
    except Exception as e:
        v.add("%s/raises/%s" % (prefix, type(e).__name__), "load_calibration raised %r (file: %d rows dropped, %d unknown entries, first row unknown: %s)" % (e, info["dropped"], info["unknown"], info["first_unknown"]))
        return info, False
    after = H.proj_calibration(ps_target)
    want = copy.deepcopy(before)
    for key, cells in expected.items():
        if key not in want["y"]:
            continue
        for c, val in cells.items():
            if c == "meta_y_factor":
                want["meta"][key] = val
            elif c in want["y"][key]:
                want["y"][key][c] = val
    bad = {"file-value-not-loaded": [], "missing-entry-not-kept": []}
    for key in want["y"]:
        cells = dict(want["y"][key])
        cells["meta_y_factor"] = want["meta"][key]
        got = dict(after["y"].get(key, {}))
        got["meta_y_factor"] = after["meta"].get(key)
        for c, val in cells.items():
            if got.get(c) != val:
                bad["file-value-not-loaded" if c in expected.get(key, {}) else "missing-entry-not-kept"].append((key, c, "expected", val, "got", got.get(c)))
    for kind, lst in bad.items():
        if lst:
            v.add("%s/%s" % (prefix, kind), "after load_calibration: %r" % lst[:4])
    return info, True


def check_calib(case):
    import atomica as at

    b, res0, arr0 = _build(case["spec"])
    F, D, ps = b["F"], b["D"], b["ps"]
    v = V()
    target = at.ParameterSet(F, D, "target")
    for par in target.all_pars():
        par.meta_y_factor = 9.0
        for k in par.y_factor:
            par.y_factor[k] = 7.0
    info, ok = _load_edited(ps, target, case["edits"], v, "calib")
    if ok:
        # an untouched own file is loaded exactly
        t2 = at.ParameterSet(F, D, "t2")
        t2.load_calibration(ps.calibration_spreadsheet())
        _content(v, "calibration", H.proj_calibration(ps), H.proj_calibration(t2), 0.0, "calib/own-file")
    v.flush()
    labs = ["calib:rows-dropped" if info["dropped"] else "calib:no-row-dropped", "calib:unknown-entries" if info["unknown"] else "calib:no-unknown", "calib:first-row-unknown" if info["first_unknown"] else "calib:first-row-known"]
    if ps.transfers:
        labs.append("calib:transfers")
    return {"nontrivial": bool(info["dropped"] or info["unknown"]), "labels": _labels(case, labs)}


# --------------------------------------------------------------------------- stateful


class State:
    def __init__(self, b):
        self.F, self.D, self.ps, self.pg, self.ins, self.stg, self.P = b["F"], b["D"], b["ps"], b["progset"], b["instructions"], b["settings"], b["P"]
        self.sampled = set()

    def clone(self):
        import sciris as sc

        s = copy.copy(self)
        s.D, s.ps, s.pg = sc.dcp(self.D), sc.dcp(self.ps), sc.dcp(self.pg)
        s.sampled = set(self.sampled)
        return s


class Skip(Exception):
    pass


def _new_parset(s, old_ps):
    """parameter set for the edited databook; the calibration is carried over with the library's own save/load"""
    import atomica as at

    ps = at.ParameterSet(s.F, s.D, old_ps.name)
    ps.load_calibration(old_ps.calibration_spreadsheet())
    return ps


def apply_op(s, op, v):
    """apply one operation to the (cloned) state in place; raises Skip if the operation is outside the domain here"""
    import atomica as at
    import sciris as sc

    k, i = op["op"], op.get("i", 0)
    pops = list(s.D.pops.keys())
    progs = list(s.pg.programs.keys())
    if k == "copy":
        if op["what"] == "ps":
            s.ps = s.ps.copy("copy of " + s.ps.name)
        elif op["what"] == "pg":
            s.pg = s.pg.copy("copy of " + str(s.pg.name))
        else:
            s.D = sc.dcp(s.D)
    elif k == "sample":
        if op["what"] in s.sampled:
            raise Skip("sampling twice is refused by design")
        # every uncertainty of a stateful case is 0 or empty: the sampled copy must have the same values
        if op["what"] == "ps":
            before = H.proj_parset_values(s.ps)
            s.ps = s.ps.sample()
            d = canon.pdiff(before, H.proj_parset_values(s.ps), 1e-12)
        else:
            before = H.proj_progset(s.pg)
            s.pg = s.pg.sample()
            d = canon.pdiff(before, H.proj_progset(s.pg), 1e-12, atol=1e-12)  # (interaction outcomes are kept relative to the baseline: absolute precision)
        if d:
            v.add("stateful/zero-uncertainty-sample-changes-values/" + op["what"], "sample() of an object without uncertainty changed %r" % d[:3])
        s.sampled.add(op["what"])
    elif k == "calib":
        src = sc.dcp(s.ps)
        _load_edited(src, s.ps, op["edits"], v, "calib")
    elif k == "add_pop":
        like = pops[i % len(pops)]
        name = [n for n in (like + "x", "px", "py", "pz", "pw") if n not in pops]  # (a name that contains an existing name)
        if not name:
            raise Skip("no free population name")
        name = name[0]
        s.D.add_pop(name, "Pop " + name)
        s.pg.add_pop(name, "Pop " + name)
        if op.get("fill"):
            for tdve in s.D.tdve.values():
                if name in tdve.ts and like in tdve.ts:
                    tdve.ts[name] = tdve.ts[like].copy()
            for tdc in s.D.interpops:
                if (like, like) in tdc.ts:
                    tdc.ts[(name, name)] = tdc.ts[(like, like)].copy()
            if op.get("target") and progs:
                s.pg.programs[progs[i % len(progs)]].target_pops.append(name)
        s.ps = _new_parset(s, s.ps)
    elif k == "remove_pop":
        if len(pops) < 2:
            raise Skip("only one population")
        name = pops[i % len(pops)]
        s.D.remove_pop(name)
        s.pg.remove_pop(name)
        s.ps = _new_parset(s, s.ps)
    elif k == "add_program":
        name = [n for n in (progs[i % len(progs)] + "n", "Pn", "Pm", "Pk") if n not in progs]  # (a name that contains an existing name)
        name = name[0]
        s.pg.add_program(name, "Prog " + name)
        if op.get("fill"):
            prog = s.pg.programs[name]
            prog.target_pops = sorted({pops[j % len(pops)] for j in op["pops"]})
            comps = [c for c, spec in s.pg.comps.items() if not spec.get("non_targetable")]
            prog.target_comps = [comps[i % len(comps)]]
            prog.spend_data.insert(None, op["spend"])
            prog.unit_cost.insert(None, op["cost"])
            if op.get("outcome") is not None and len(s.pg.covouts):
                cv = s.pg.covouts[i % len(s.pg.covouts)]
                cv.progs[name] = float(op["outcome"])
                cv.update_outcomes()  # documented: call whenever outcomes change
    elif k == "remove_program":
        if len(progs) < 2:
            raise Skip("a program set keeps at least one program")
        s.pg.remove_program(progs[i % len(progs)])
        if s.ins is not None and progs[i % len(progs)] in s.ins.coverage:
            s.ins = sc.dcp(s.ins)  # instructions must not refer to a program that no longer exists
            del s.ins.coverage[progs[i % len(progs)]]
    elif k == "remove_par":
        pars = list(s.pg.pars.keys())
        if not pars:
            raise Skip("no parameter left")
        s.pg.remove_par(pars[i % len(pars)])
    elif k == "add_par":
        tgt = [n for n in s.F.pars.index if s.F.pars.at[n, "targetable"] == "y"]
        missing = [n for n in tgt if n not in s.pg.pars]
        cand = missing or tgt
        if not cand:
            raise Skip("no targetable parameter")
        name = cand[i % len(cand)]
        s.pg.add_par(name, s.F.pars.at[name, "display name"])
        if op.get("covout") is not None and progs:
            pop = pops[i % len(pops)]
            if (name, pop) not in s.pg.covouts:
                s.pg.covouts[(name, pop)] = at.Covout(par=name, pop=pop, progs={progs[i % len(progs)]: float(op["covout"])}, baseline=float(op["covout"]) / 2)
    elif k == "reconcile":
        tvec = s.stg.tvec
        year = float(tvec[min(len(tvec) - 2, 1 + i)]) if len(tvec) > 2 else float(tvec[0])
        s.P.framework, s.P.data = s.F, s.D
        try:
            s.D.validate(s.F)
            s.pg.validate()
        except Exception:
            raise Skip("objects are not valid inputs for a simulation")
        bd = op["bounds"]
        orig = sc.asd

        def asd(*a, **kw):
            kw["randseed"] = op.get("seed", 0)
            kw["maxiters"] = op.get("iters", 20)
            kw["maxtime"] = 30
            return orig(*a, **kw)

        sc.asd = asd
        try:
            s.pg = at.reconcile(project=s.P, parset=s.ps, progset=s.pg, reconciliation_year=year, max_time=30, unit_cost_bounds=bd["unit_cost"], baseline_bounds=bd["baseline"], capacity_bounds=bd["capacity"], outcome_bounds=bd["outcome"])[0]
        except ValueError as e:
            if "length of the input vector cannot be zero" in str(e):
                raise Skip("nothing to reconcile with these bounds")
            raise
        finally:
            sc.asd = orig
    elif k == "add_transfer":
        if len(pops) < 2:
            raise Skip("transfers need two populations")
        names = [t.code_name for t in s.D.transfers]
        name = [n for n in ((names[0] + "b") if names else "trx", "trx", "try", "trz") if n not in names]
        tdc = s.D.add_transfer(name[0], "Transfer " + name[0])
        a, b_ = pops[i % len(pops)], pops[(i + 1) % len(pops)]
        ts = at.TimeSeries(units=build.UNITS[op["units"]])
        ts.insert(None, max(op["value"], 0.05) if op["units"] == "duration" else op["value"])
        tdc.ts[(a, b_)] = ts
        s.ps = _new_parset(s, s.ps)
    elif k == "remove_transfer":
        names = [t.code_name for t in s.D.transfers]
        if not names:
            raise Skip("no transfer")
        s.D.remove_transfer(names[i % len(names)])
        s.ps = _new_parset(s, s.ps)
    elif k == "edit":
        via = op["via"]
        if via == "after-write":
            s.D.to_spreadsheet(), s.pg.to_spreadsheet(), s.ps.calibration_spreadsheet()
        elif via in ("after-reload", "after-auto-columns-reload"):
            if via == "after-auto-columns-reload":
                H.set_auto_columns(s.D)
            try:
                s.D = H.rt_data(s.D, s.F)
                s.pg = H.rt_progset(s.pg, s.F, s.D)
                s.ps = H.rt_parset(s.ps, s.F, s.D)
            except Exception as e:
                if _deliberate(e):
                    raise Skip("objects cannot be reloaded from their spreadsheets (%s)" % type(e).__name__)
                raise
        cands = H.edit_candidates(s.D, s.pg, s.F, op["target"], op["what"])
        if not cands:
            raise Skip("no row where this content can be entered")
        n_intro = sum(1 for c in cands if c[3])
        label, ts, years, intro = cands[i % (n_intro or len(cands))]
        value = 0.0 if op["what"] == "sigma" else op["value"]  # (stateful cases keep every uncertainty at 0 for the sample operation)
        if not H.apply_edit(ts, years, op["what"], value):
            raise Skip("table has no year columns")
        op["_intro"] = intro
        if op["target"] != "prog":
            s.ps = _new_parset(s, s.ps)
    else:
        raise HarnessError("unknown op %r" % k)


EDITING = {"edit", "add_pop", "remove_pop", "add_program", "remove_program", "remove_par", "add_par", "reconcile", "calib", "add_transfer", "remove_transfer", "sample"}


def _try(f):
    try:
        return f(), None
    except HarnessError:
        raise
    except Exception as e:
        return None, e


def check_state(s, v, after, exact_inputs):
    """live objects vs objects rebuilt from their own exports; returns label"""

    def run_live():
        # the documented workflow validates a databook / program set before it is used for a simulation
        # (Project.load_databook -> ProjectData.validate, Project.load_progbook -> ProgramSet.validate)
        s.D.validate(s.F)
        s.pg.validate()
        return H.arrays(H.simulate(s.stg, s.F, s.ps, s.pg, s.ins))

    live, e1 = _try(run_live)

    def rebuild():
        D2 = H.rt_data(s.D, s.F)
        ps2 = H.rt_parset(s.ps, s.F, D2)
        pg2 = H.rt_progset(s.pg, s.F, D2)
        pg2.validate()
        return D2, ps2, pg2

    reb, e2 = _try(rebuild)
    arr2, e3 = (None, None)
    if reb is not None:
        arr2, e3 = _try(lambda: H.arrays(H.simulate(s.stg, s.F, reb[1], reb[2], s.ins)))
    e_exp = e2 or e3
    if e1 is not None and not _deliberate(e1):
        # a refusal (validation error) is a legitimate way of being un-simulatable; a crash of the live object is not
        v.add("stateful/after-%s/behaviour" % after, "live objects crash with %r (%s); their own export: %s" % (e1, _exc(e1), "simulates" if e_exp is None else repr(e_exp)))
        return "diverged"
    if e1 is not None and e_exp is not None:
        return "both-unusable(live:%s/export:%s)" % (type(e1).__name__, type(e_exp).__name__)
    if e1 is not None:
        v.add("stateful/after-%s/behaviour" % after, "live objects raise %r (%s) while the objects rebuilt from their exported spreadsheets simulate" % (e1, _exc(e1)))
        return "diverged"
    if e_exp is not None:
        stage = "export-or-read" if e2 is not None else "simulate"
        v.add("stateful/after-%s/behaviour" % after, "live objects simulate; their own export fails at %s: %r (%s)" % (stage, e_exp, _exc(e_exp)))
        return "diverged"
    D2, ps2, pg2 = reb
    n0 = len(v.items)
    same = _content(v, "databook", H.proj_data(s.D), H.proj_data(D2), RTOL_CONTENT, "stateful/after-%s/content" % after)
    same &= _content(v, "progbook", H.proj_progset(s.pg), H.proj_progset(pg2), RTOL_CONTENT, "stateful/after-%s/content" % after)
    same &= _content(v, "calibration", H.proj_calibration(s.ps), H.proj_calibration(ps2), RTOL_CONTENT, "stateful/after-%s/content" % after)
    if len(v.items) > n0:
        return "diverged"
    pd_ = H.probe_diff(H.covout_probe(s.pg), H.covout_probe(pg2))
    if pd_:
        v.add("stateful/after-%s/behaviour" % after, "same visible content but program effects evaluate differently (effect, coverage pattern, live, rebuilt from export): %r" % pd_[:3])
        return "diverged"
    c = _cmp(live, arr2, same)
    if c and _ill_conditioned(s.stg, s.F, s.ps, s.pg, s.ins):
        return "inconclusive:ill-conditioned-model"
    if c:
        culprit = "both"
        a_ps, _ = _try(lambda: H.arrays(H.simulate(s.stg, s.F, ps2, s.pg, s.ins)))
        a_pg, _ = _try(lambda: H.arrays(H.simulate(s.stg, s.F, s.ps, pg2, s.ins)))
        if a_pg is not None and _cmp(live, a_pg, same) and not (a_ps is not None and _cmp(live, a_ps, same)):
            culprit = "progset"
        elif a_ps is not None and _cmp(live, a_ps, same) and not (a_pg is not None and _cmp(live, a_pg, same)):
            culprit = "parset"
        v.add("stateful/after-%s/behaviour" % after, "same visible content (%s) but the live %s simulates differently from the one rebuilt from its export: %r" % ("bit-identical" if same else "1e-14", culprit, c))
        return "diverged"
    return "agree"


def check_stateful(case):
    b, res0, arr0 = _build(case["spec"])
    if b["progset"] is None:
        raise Discard("no program set")
    s = State(b)
    v = V()
    labels = []
    r = check_state(s, v, "build", case["exact"])
    v.flush()
    if r.startswith("inconclusive"):
        return {"nontrivial": False, "labels": _labels(case, ["state:" + r]), "inconclusive": {"ill-conditioned-model": 1}}
    n_edit = 0
    for op in case["ops"]:
        name = op["op"] + ("-" + op["what"] if "what" in op else "")
        t = s.clone()
        try:
            apply_op(t, op, v)
        except Skip as e:
            labels.append("op-skipped:" + name)
            continue
        except HarnessError:
            raise
        except Exception as e:
            if _deliberate(e):
                labels.append("op-refused:" + name)
                continue
            v.add("stateful/op-crashes/%s/%s" % (name, type(e).__name__), "operation %r on a valid object raised %r at %s" % (op, e, _exc(e)))
            v.flush()
        v.flush()
        s = t
        labels.append("op:" + name)
        if op["op"] == "edit":
            labels.append("edit:%s/%s/%s%s" % (op["target"], op["what"], op["via"], "/new-column" if op.pop("_intro", False) else ""))
        if op["op"] in EDITING:
            n_edit += 1
        r = check_state(s, v, name, case["exact"])
        labels.append("state:" + r)
        v.flush()
        if r.startswith("inconclusive"):
            break
    inc = sum(1 for l in labels if l.startswith("state:inconclusive"))
    return {"nontrivial": n_edit >= 1 and not inc, "labels": _labels(case, sorted(set(labels)) + ["ops:%d" % len(case["ops"])]), "inconclusive": {"ill-conditioned-model": inc} if inc else {}}


# --------------------------------------------------------------------------- library


def check_lib(case):
    import atomica as at

    simcase.quiet()
    name = case["name"]
    v = V()
    labels = ["lib:" + name]
    F = at.ProjectFramework(at.LIBRARY_PATH / ("%s_framework.xlsx" % name))
    F2 = H.rt_framework(F)
    _content(v, "framework", H.proj_framework(F), H.proj_framework(F2), RTOL_CONTENT, "lib/content")
    D = at.ProjectData.from_spreadsheet(at.LIBRARY_PATH / ("%s_databook.xlsx" % name), F)
    D.validate(F)
    D2 = H.rt_data(D, F)
    same = _content(v, "databook", H.proj_data(D), H.proj_data(D2), RTOL_CONTENT, "lib/content")
    D3 = H.rt_data(D2, F)
    _content(v, "databook", H.proj_data(D2), H.proj_data(D3), 0.0, "lib/second-trip")
    units = {q: (F.get_databook_units(q), F2.get_databook_units(q)) for q in D.tdve}
    bad = {q: u for q, u in units.items() if u[0] != u[1]}
    if bad:
        v.add("rt-framework/databook-units-changed", "library %s: databook units of the re-read framework differ: %r" % (name, bad))
    pg = pg2 = None
    try:
        pg = at.ProgramSet.from_spreadsheet(at.LIBRARY_PATH / ("%s_progbook.xlsx" % name), framework=F, data=D)
    except FileNotFoundError:
        labels.append("lib:no-progbook")
    if pg is not None:
        pg2 = H.rt_progset(pg, F, D2)
        same &= _content(v, "progbook", H.proj_progset(pg), H.proj_progset(pg2), RTOL_CONTENT, "lib/content")
        pg3 = H.rt_progset(pg2, F, D3)
        _content(v, "progbook", H.proj_progset(pg2), H.proj_progset(pg3), 0.0, "lib/second-trip")
    # content entered after loading (the files have no 'Uncertainty' column, many tables no 'Constant' column), with and without a write in between
    import sciris as sc

    for pre_write in (False, True):
        De, pge = sc.dcp(D), sc.dcp(pg)
        if pre_write:
            De.to_spreadsheet()
            if pge is not None:
                pge.to_spreadsheet()
        n_ed = 0
        for target in ("data", "transfer", "prog"):
            if target == "prog" and pge is None:
                continue
            for what in ("sigma", "assumption", "years"):
                cands = H.edit_candidates(De, pge, F, target, what)
                for label, ts, years, intro in cands[:2]:
                    n_ed += bool(H.apply_edit(ts, years, what, 0.125 if what == "sigma" else (ts.vals[0] if ts.vals else ts.assumption)))
        try:
            De2 = H.rt_data(De, F)
            _content(v, "databook", H.proj_data(De), H.proj_data(De2), RTOL_CONTENT, "lib/edited-after-load%s/content" % ("-and-write" if pre_write else ""))
            if pge is not None:
                _content(v, "progbook", H.proj_progset(pge), H.proj_progset(H.rt_progset(pge, F, De2)), RTOL_CONTENT, "lib/edited-after-load%s/content" % ("-and-write" if pre_write else ""))
        except Exception as e:
            v.add("lib/edited-after-load/raises/" + type(e).__name__, "(%s) library %s: after entering uncertainties / constants / year values the books cannot be written and read back: %r" % (_exc(e), name, e))
        labels.append("lib:edits-after-load")
    # behaviour on a short horizon
    stg = at.ProjectSettings(sim_start=2000, sim_end=2006, sim_dt=0.25)
    ps, ps2 = at.ParameterSet(F, D, "default"), at.ParameterSet(F, D2, "default")
    ins = at.ProgramInstructions(start_year=2002) if pg is not None else None
    arr0 = H.arrays(H.simulate(stg, F, ps, pg, ins))
    arr1 = H.arrays(H.simulate(stg, F, ps2, pg2, ins))
    c = _cmp(arr0, arr1, same)
    if c and not _ill_conditioned(stg, F, ps, pg, ins):
        v.add("lib/behaviour", "library %s: simulation of re-read books differs: %r" % (name, c))
    v.flush()
    return {"nontrivial": True, "labels": labels}


CHECKS = {"rt-books": check_rt_books, "rt-framework": check_rt_framework, "binary": check_binary, "stateful": check_stateful, "calib": check_calib, "lib": check_lib}


def check(case):
    return CHECKS[case["kind"]](case)
