"""C18 - input files are accepted and runnable, or rejected with the dedicated error.

(a) acceptance chain: generated valid framework -> own openpyxl writer -> ProjectFramework(file) -> blank databook -> read back ->
    filled with the spec's numbers -> written -> Project(framework, databook file) -> run_sim.  Any exception is a violation.
(b) mutation catalogue (vlib/c18_catalogue.py): single-rule mutations of generated and library framework / databook / program book
    workbooks with a known verdict.  'accept' => loads (frameworks: the chain still runs); 'reject' => dedicated error class at the
    reader entry points, dedicated class or the library's assert / raise Exception(message) convention at the semantic stage.
"""
import os
import copy
import zlib
import traceback

from hypothesis import strategies as st

from vlib import gen_model, build, xlsx_writer as xw, c18_catalogue as cat
from vlib.runner import Violation, Discard, HarnessError, case_hash

ID = "C18"
RULE = (
    "cases = (chain) generated ModelSpecs through the file path: own xlsx writer -> ProjectFramework -> blank databook -> read back -> filled -> "
    "Project -> run_sim; (mut) catalogue entry x site x base file, base = workbook of a generated spec (framework by the own writer, databook / "
    "program book by atomica's writers) or a library file; oracle = verdict of the entry (accept: loads and, for frameworks, the chain runs; "
    "reject: InvalidFramework/InvalidCascade, InvalidDatabook, InvalidProgramBook at the reader, dedicated class or assert/Exception(message) "
    "raised in atomica at the semantic stage; silent acceptance and interpreter/third-party errors are violations); non-trivial = chain case, or "
    "mutated workbook differs from its base; distinct = (base, entry, site)"
)
ASSUMPTIONS = [
    "the databook is given the union of all years carrying data in the spec (a databook file can only hold values in its year columns)",
    "the dedicated class is demanded at the three reader entry points only; ProjectData.validate / ParameterSet / Project load / ProgramSet.validate follow the library's own assert / raise Exception(message) convention",
    "entries whose catalogue stage is 'parse' state a rule of the file reader itself and must be refused by the reader, not later",
    "mutations are applied with openpyxl in values mode (cached formula results replace the formulas of databooks and program books)",
    "generated program-book bases mark up to two rate/probability transition parameters targetable and hold two programs with constant spending",
    "runs whose initial conditions are refused with the dedicated BadInitialization error are outside the domain (counted; C07 decides them)",
    "generated databook bases carry one extra unit-less databook parameter (like 'contacts' in the library SIR framework)",
    "the library tb program book (about a minute per read) is only checked unchanged, not mutated; malaria (framework only, 139 parameters) is only checked unchanged in the enumerated tier",
]
BUDGET = {"quick": 1500, "thorough": 6000}  # thorough = 4x quick: a depth that was run to completion, quiet, at seed 1 (deterministic given the seed)
TIME_CAP = {"quick": 60, "thorough": 1500}

LIB_DIR = None  # resolved lazily from the atomica package under test
QUICK_LIBS = ["tb_simple", "udt", "hypertension", "hiv", "sir", "usdt", "dt", "sir_vaccine", "combined", "udt_dyn", "hypertension_dyn", "tb_simple_dyn"]
ALL_LIB_FRAMEWORKS = ["cervicalcancer", "combined", "diabetes", "dt", "hiv", "hiv_dyn", "hypertension", "hypertension_dyn", "malaria", "service", "sir", "sir_vaccine", "tb", "tb_simple", "tb_simple_dyn", "udt", "udt_dyn", "usdt"]
SITE_RANGE = 48
HEAVY = {("tb", "progbook")}  # reading the tb program book takes about a minute per case: identity only

# a small fixed valid model (used by replay files and as an enumerated base): source, sink, junction, timed compartment, two populations, transfer
SMALL_SPEC = {
    "comps": [
        {"name": "c0", "kind": "ord", "db": True},
        {"name": "c1", "kind": "ord", "db": True},
        {"name": "t0a", "kind": "ord", "db": True},
        {"name": "src", "kind": "src", "db": False},
        {"name": "snk", "kind": "sink", "db": False},
        {"name": "j0", "kind": "junc", "db": False},
    ],
    "characs": [{"name": "x0", "inc": ["c0", "c1", "t0a"], "den": None, "db": False}, {"name": "x1", "inc": ["c1"], "den": None, "db": False}],
    "pars": [
        {"name": "k0", "fmt": "rate", "ts": None, "fn": None, "db": True, "min": None, "max": None, "tgt": False, "timed": False, "deriv": False},
        {"name": "k1", "fmt": "number", "ts": None, "fn": None, "db": True, "min": None, "max": None, "tgt": False, "timed": False, "deriv": False},
        {"name": "k2", "fmt": "probability", "ts": None, "fn": None, "db": True, "min": 0.0, "max": 5.0, "tgt": False, "timed": False, "deriv": False},
        {"name": "k3", "fmt": "rate", "ts": None, "fn": "(k0 * 0.5)", "db": False, "min": None, "max": None, "tgt": False, "timed": False, "deriv": False},
        {"name": "k4", "fmt": "proportion", "ts": None, "fn": None, "db": True, "min": None, "max": None, "tgt": False, "timed": False, "deriv": False},
        {"name": "k5", "fmt": "proportion", "ts": None, "fn": None, "db": True, "min": None, "max": None, "tgt": False, "timed": False, "deriv": False},
        {"name": "k6", "fmt": "duration", "ts": None, "fn": None, "db": True, "min": None, "max": None, "tgt": False, "timed": True, "deriv": False},
        {"name": "k7", "fmt": "rate", "ts": 1 / 52, "fn": None, "db": True, "min": None, "max": None, "tgt": False, "timed": False, "deriv": False},
        {"name": "k8", "fmt": None, "ts": None, "fn": "SRC_POP_AVG(k0, w0)", "db": False, "min": None, "max": None, "tgt": False, "timed": False, "deriv": False},
    ],
    "links": [["c0", "c1", ["k0"]], ["src", "c0", ["k1"]], ["c1", "snk", ["k2"]], ["c0", "j0", ["k3"]], ["j0", "c1", ["k4"]], ["j0", "c0", ["k5"]], ["c1", "t0a", ["k7"]], ["t0a", "c0", ["k6"]]],
    "inter": [{"name": "w0"}],
    "cascades": [{"name": "main", "stages": [["S x0", ["x0"]], ["S x1", ["x1"]]]}],
    "settings": {"start": 2000.0, "end": 2003.0, "dt": 0.25},
    "pops": ["pa", "pb"],
    "data": {
        "years": [2000.0, 2001.0],
        "q": {
            "c0": {"pa": {"a": 100.0}, "pb": {"t": [2000.0], "v": [50.0]}},
            "c1": {"pa": {"a": 10.0}, "pb": {"a": 0.0}},
            "t0a": {"pa": {"a": 5.0}, "pb": {"a": 0.0}},
            "k0": {"pa": {"a": 0.2}, "pb": {"t": [2000.0, 2001.0], "v": [0.1, 0.3]}},
            "k1": {"pa": {"a": 3.0}, "pb": {"a": 1.0}},
            "k2": {"pa": {"a": 0.05}, "pb": {"a": 0.05}},
            "k4": {"pa": {"a": 0.6}, "pb": {"a": 1.0}},
            "k5": {"pa": {"a": 0.4}, "pb": {"a": 0.0}},
            "k6": {"pa": {"a": 1.0}, "pb": {"a": 0.5}},
            "k7": {"pa": {"a": 0.3}, "pb": {"a": 0.3}},
        },
        "yf": {},
        "myf": {},
        "tr": [{"name": "tr0", "e": {"pa>pb": {"a": 0.1, "u": "rate"}}}, {"name": "tr1", "e": {"pb>pa": {"a": 2.0, "u": "number"}}}],
        "iw": {"w0": {"pa>pb": {"a": 1.0}, "pb>pb": {"a": 0.5}}},
    },
    "labels": ["fixed:small-spec"],
}


# the smallest valid model: one compartment, no transitions, one unit-less databook parameter (the Format column of its workbook is entirely empty)
TINY_SPEC = {
    "comps": [{"name": "c0", "kind": "ord", "db": True}],
    "characs": [],
    "pars": [{"name": "u0", "fmt": None, "ts": None, "fn": None, "db": True, "min": None, "max": None, "tgt": False, "timed": False, "deriv": False}],
    "links": [],
    "inter": [],
    "cascades": [],
    "settings": {"start": 2000.0, "end": 2002.0, "dt": 0.5},
    "pops": ["pa"],
    "data": {"years": [2000.0], "q": {"c0": {"pa": {"a": 10.0}}, "u0": {"pa": {"a": 3.0}}}, "yf": {}, "myf": {}, "tr": [], "iw": {}},
    "labels": ["fixed:tiny-spec"],
}

# --------------------------------------------------------------------------------------------------- plumbing


def _at():
    import logging
    import atomica as at

    at.logger.setLevel(logging.CRITICAL)
    return at


def _lib_path(name, kind):
    at = _at()
    return os.path.join(os.path.dirname(at.__file__), "library", "%s_%s.xlsx" % (name, kind))


def _atomica_root():
    return os.path.dirname(_at().__file__) + os.sep


def _frames(e):
    """[(module, function, line text, lineno)] of the atomica frames along the exception chain, outermost first"""
    root = _atomica_root()
    out = []
    seen = set()
    while e is not None and id(e) not in seen:
        seen.add(id(e))
        cur = []
        for fr in traceback.extract_tb(e.__traceback__):
            if fr.filename.startswith(root):
                cur.append((os.path.splitext(os.path.basename(fr.filename))[0], fr.name, (fr.line or "").strip(), fr.lineno))
        out = out + cur
        e = e.__cause__
    return out


def _innermost(e):
    fr = _frames(e)
    return fr[-1] if fr else ("?", "?", "", 0)


def _where(e, with_line=True):
    mod, fn, line, _ = _innermost(e)
    s = "%s.%s" % (mod, fn)
    if with_line:
        s += "@%08x" % (zlib.crc32(line.encode()) & 0xFFFFFFFF)
    return s


def _raised_in_atomica(e):
    tb = traceback.extract_tb(e.__traceback__)
    return bool(tb) and tb[-1].filename.startswith(_atomica_root())


def _describe(e):
    mod, fn, line, no = _innermost(e)
    return "%s: %s  [innermost atomica frame %s.%s line %d: %s]" % (type(e).__name__, str(e)[:300].replace("\n", " "), mod, fn, no, line[:120])


def _dedicated(e, target):
    at = _at()
    from atomica.cascade import InvalidCascade

    cls = {"framework": (at.InvalidFramework, InvalidCascade), "databook": (at.InvalidDatabook,), "progbook": (at.InvalidProgramBook,)}[target]
    return isinstance(e, cls) and bool(str(e).strip())


def _conventional(e):
    """semantic stage: dedicated / atomica-defined class, or assert / raise Exception(message) raised by atomica code"""
    if not str(e).strip():
        return False
    if type(e).__module__.split(".")[0] == "atomica":
        return True
    return type(e) in (AssertionError, Exception) and _raised_in_atomica(e)


def _internal_bucket(target, e):
    fr = _frames(e)
    if target == "framework" and fr and fr[-1][0] == "function_parser" and fr[-1][1] == "parse_function":
        # one root cause: ProjectFramework._validate_parameters calls parse_function without translating its errors
        return "framework/function-parser-error-not-wrapped"
    return "%s/%s/%s" % (target, type(e).__name__, _where(e))


def _stage_bucket(stage, e):
    return "%s/%s/%s" % (stage, type(e).__name__, _where(e, with_line=False))


def with_all_years(spec):
    """copy of the spec whose databook years include every year that carries data"""
    spec = copy.deepcopy(spec)
    d = spec["data"]
    ys = set(d["years"])
    for bypop in d["q"].values():
        for e in bypop.values():
            ys.update(e.get("t", []))
    for tr in d.get("tr", []):
        for e in tr["e"].values():
            ys.update(e.get("t", []))
    for entries in (d.get("iw") or {}).values():
        for e in entries.values():
            if isinstance(e, dict):
                ys.update(e.get("t", []))
    d["years"] = sorted(float(y) for y in ys)
    return spec


def _pops_arg(spec):
    types = spec.get("pop_types") or ["default"]
    pops = {}
    for p in spec["pops"]:
        if isinstance(p, str):
            pops[p] = {"label": "Pop " + p, "type": types[0]}
        else:
            pops[p["name"]] = {"label": "Pop " + p["name"], "type": p.get("type", types[0])}
    transfers = {tr["name"]: {"label": "Transfer " + tr["name"], "type": tr.get("type", types[0])} for tr in spec["data"].get("tr", [])}
    return pops, transfers


def fill_data(D, spec):
    """enter the spec's numbers into a (blank, read back) ProjectData - mirrors build.make_data"""
    at = _at()
    data = spec["data"]
    for q, bypop in data["q"].items():
        if q not in D.tdve:
            raise HarnessError("spec has data for %s which is not a databook quantity" % q)
        for pop, d in bypop.items():
            build._fill_ts(D.tdve[q].ts[pop], d)
    for tr in data.get("tr", []):
        tdc = [x for x in D.transfers if x.code_name == tr["name"]][0]
        for key, e in tr["e"].items():
            a, b = key.split(">")
            ts = at.TimeSeries(units=build.UNITS[e["u"]])
            build._fill_ts(ts, e)
            tdc.ts[(a, b)] = ts
    for name, entries in (data.get("iw") or {}).items():
        tdc = [x for x in D.interpops if x.code_name == name][0]
        for key, e in entries.items():
            a, b = key.split(">")
            ts = at.TimeSeries(units="N.A.")
            build._fill_ts(ts, e if isinstance(e, dict) else {"a": e})
            tdc.ts[(a, b)] = ts
    return D


class _Stage:
    """run one stage of the chain: an exception becomes a violation bucketed by stage + exception type + innermost atomica frame"""

    def __init__(self, stage, context=""):
        self.stage, self.context = stage, context

    def __enter__(self):
        return self

    def __exit__(self, et, e, tb):
        if e is None or isinstance(e, (Violation, Discard, HarnessError, KeyboardInterrupt)) or not isinstance(e, Exception):
            return False
        if type(e).__name__ == "BadInitialization" and self.stage == "run":
            # the dedicated refusal of initial conditions that cannot be reproduced (e.g. characteristic 1e10 vs member 1e10 - 50 within the
            # solver's tolerance): whether such numbers must be accepted is decided by C07, here the case is outside the domain
            raise Discard("initial conditions refused with BadInitialization (decided by C07)") from e
        raise Violation(ID, _stage_bucket(self.stage, e), "%s stage '%s': %s" % (self.context, self.stage, _describe(e))) from e


def _canon_table(df, cols):
    import pandas as pd

    out = {}
    for idx, row in df.iterrows():
        d = {}
        for c in cols:
            v = row[c] if c in df.columns else None
            if v is None or (not isinstance(v, str) and pd.isna(v)):
                v = None
            elif isinstance(v, (int, float)) and not isinstance(v, bool):
                v = float("%.13g" % v)  # an .xlsx file stores numbers with 15-16 significant digits
            d[c] = v
        out[str(idx)] = d
    return out


COMP_COLS = ["display name", "is source", "is sink", "is junction", "databook page", "default value", "population type", "setup weight", "duration group"]
PAR_COLS = ["display name", "format", "function", "databook page", "minimum value", "maximum value", "timescale", "targetable", "timed", "is derivative", "population type"]


def compare_with_table_path(F, spec):
    F2 = build.make_framework(spec)
    for what, a, b in (
        ("compartments", _canon_table(F.comps, COMP_COLS), _canon_table(F2.comps, COMP_COLS)),
        ("parameters", _canon_table(F.pars, PAR_COLS), _canon_table(F2.pars, PAR_COLS)),
        ("characteristics", _canon_table(F.characs, ["components", "denominator", "setup weight"]), _canon_table(F2.characs, ["components", "denominator", "setup weight"])),
        ("transitions", {k: sorted(map(list, v)) for k, v in F.transitions.items() if v}, {k: sorted(map(list, v)) for k, v in F2.transitions.items() if v}),
    ):
        if a != b:
            diff = [k for k in set(a) | set(b) if a.get(k) != b.get(k)][:3]
            raise Violation(ID, "framework-load/file-path-differs-from-table-path/" + what, "%s differ between the framework read from the .xlsx file and the same tables validated directly: %r" % (what, {k: (a.get(k), b.get(k)) for k in diff}))


def outputs(res):
    """everything a run computed: {(population, kind, name...): array}"""
    import numpy as np

    out = {}
    for pop in res.model.pops:
        for c in pop.comps:
            out[(pop.name, "comp", c.name)] = np.asarray(c.vals, dtype=float)
        for c in pop.characs:
            out[(pop.name, "charac", c.name)] = np.asarray(c.vals, dtype=float)
        for par in pop.pars:
            out[(pop.name, "par", par.name)] = np.asarray(par.vals, dtype=float)
        n = {}
        for l in pop.links:
            k = (pop.name, "link", l.source.name, l.dest.pop.name, l.dest.name, l.parameter.name if l.parameter is not None else "anon")
            n[k] = n.get(k, 0) + 1
            out[k + (n[k],)] = np.asarray(l.vals, dtype=float)
    return out


def compare_runs(entry, target, base_out, out, ctx):
    """an accepted input must give a run that is finite wherever the run of the unmutated file is finite; when the edit does not change
    the meaning of the file (entry.same) the results must be the same"""
    import numpy as np

    labels = ["outcome:finite-where-base-finite"]
    for k, b in base_out.items():
        m = out.get(k)
        if m is None or m.shape != b.shape:
            if entry.same:
                raise Violation(ID, "%s/accepted-with-different-results/%s" % (target, entry.id), "%s: output %r of the unmutated file is missing or has another length after a meaning-preserving edit" % (ctx, k))
            continue
        bad = np.isfinite(b) & ~np.isfinite(m)
        if bad.any() and not entry.same and int(np.argmax(bad)) > 0:
            # an accepted edit that legitimately changes the model (a sheet of optional content removed, another valid value) may make the
            # dynamics ill-posed later in the run (a junction left without outflow proportions, x/0 in a function): that is a property of
            # the new model, not of the acceptance step.  Only missing inputs - non-finite values at the FIRST time point - are judged here.
            labels.append("outcome:not-finite-later-in-run(model changed by the edit)")
            continue
        if bad.any():
            i = int(np.argmax(bad))
            raise Violation(ID, "%s/accepted-but-run-not-finite/%s" % (target, entry.id), "%s: the file is accepted but the run is not finite: %r is %r at time index %d where the unmutated file gives %r (%d non-finite values in this series)" % (ctx, k, float(m[i]), i, float(b[i]), int(bad.sum())))
        if entry.same and not np.allclose(b, m, rtol=1e-9, atol=1e-12, equal_nan=True):
            i = int(np.nanargmax(np.abs(np.where(np.isfinite(b) & np.isfinite(m), b - m, 0.0))))
            raise Violation(ID, "%s/accepted-with-different-results/%s" % (target, entry.id), "%s: the edit does not change the meaning of the file (%s) but %r differs: %r vs %r at time index %d" % (ctx, entry.rule[:160], k, float(m[i]), float(b[i]), i))
    if entry.same:
        labels.append("outcome:same-results-as-base")
    return labels


ORDERS = ["reread", "prefill", "same-object"]
VALUES = ["as-spec", "constant", "years"]


def with_values(spec, how):
    """the same numbers entered the other way: every compartment / characteristic / parameter series as a constant, or as year values"""
    if how == "as-spec":
        return spec
    spec = copy.deepcopy(spec)
    timed = {p["name"] for p in spec["pars"] if p.get("timed")}
    y0 = float(spec["data"]["years"][0])
    for q, bypop in spec["data"]["q"].items():
        for pop, d in bypop.items():
            if how == "constant" and d.get("t"):
                bypop[pop] = {"a": d["v"][0]}
            elif how == "years" and d.get("a") is not None and not d.get("t") and q not in timed:  # (the table of a timed parameter has no year columns)
                bypop[pop] = {"t": [y0], "v": [d["a"]]}
            if d.get("s") is not None:
                bypop[pop]["s"] = d["s"]
    return spec


def run_chain(spec, F=None, context="", from_file=False, compare=False, all_row=0, order="reread", values="as-spec"):
    """stages after (and including, when F is None) the framework load. returns (labels, result).
    order: 'reread' = write the blank databook, read it back, fill the copy that was read; 'prefill' = fill the new in-memory object before it is
    written for the first time; 'same-object' = write the blank databook (and check it reads back), then fill the SAME object and write it again"""
    at = _at()
    import numpy as np

    labels = ["order:" + order, "values:" + values]
    spec = with_values(with_all_years(spec), values)
    path = None
    try:
        if F is None:
            try:
                blob = xw.framework_bytes(build.framework_tables(spec))
            except Exception as e:
                raise HarnessError("own framework writer failed: %r" % e)
            with _Stage("framework-load", context):
                if from_file:
                    path = xw.save_bytes(blob, "c18_%s_%d.xlsx" % (case_hash(spec), os.getpid()))
                    F = at.ProjectFramework(path)
                    labels.append("framework:from-file-path")
                else:
                    F = at.ProjectFramework(xw.spreadsheet(blob))
                    labels.append("framework:from-spreadsheet-object")
            if compare:
                compare_with_table_path(F, spec)
                labels.append("framework:compared-with-table-path")
        pops, transfers = _pops_arg(spec)
        with _Stage("databook-new", context):
            D0 = at.ProjectData.new(F, np.array(spec["data"]["years"], dtype=float), pops=pops, transfers=transfers)
        if order == "prefill":
            with _Stage("databook-new", context):
                D1 = at.ProjectData.new(F, np.array(spec["data"]["years"], dtype=float), pops=pops, transfers=transfers)
        with _Stage("databook-write", context):
            ss0 = D0.to_spreadsheet()
        with _Stage("databook-read", context):
            Dr = at.ProjectData.from_spreadsheet(ss0, F)
        if order == "reread":
            D1 = Dr
        elif order == "same-object":
            D1 = D0
        fill_data(D1, spec)
        if all_row and D1.tdve:
            # a quantity may be entered as an 'All' row standing in for a population without a row of its own (data.py:504-510, parameters.py:408-414)
            keys = sorted(D1.tdve.keys())
            tdve = D1.tdve[keys[all_row % len(keys)]]
            if len(tdve.ts) and "All" not in tdve.ts and "all" not in tdve.ts:
                first = list(tdve.ts.keys())[0]
                tdve.ts["All"] = tdve.ts.pop(first)
                labels.append("databook:all-row")
        with _Stage("databook-write-filled", context):
            ss1 = D1.to_spreadsheet()
        with _Stage("project-load", context):
            P = at.Project(framework=F, databook=ss1, do_run=False)
        s = spec["settings"]
        with _Stage("run", context):
            P.settings.update_time_vector(start=s["start"], end=s["end"], dt=s["dt"])
            ps = P.parsets[0]
            build.apply_factors(spec, ps)
            res = P.run_sim(ps, result_name="c18")
    finally:
        if path and os.path.exists(path):
            os.remove(path)
    return labels, res


# --------------------------------------------------------------------------------------------------- bases

_LIB_CACHE = {}


def _read(path):
    with open(path, "rb") as f:
        return f.read()


def lib_base(name):
    """library files of one model: bytes + loaded objects (cached per process). A library file that does not load is itself a finding."""
    if name in _LIB_CACHE:
        return _LIB_CACHE[name]
    at = _at()
    b = {"name": name, "fw_blob": _read(_lib_path(name, "framework")), "db_blob": None, "pb_blob": None, "F": None, "D": None, "F_error": None}
    for kind, key in (("databook", "db_blob"), ("progbook", "pb_blob")):
        p = _lib_path(name, kind)
        if os.path.exists(p):
            b[key] = _read(p)
    try:
        b["F"] = at.ProjectFramework(xw.spreadsheet(b["fw_blob"]))
    except Exception as e:
        b["F_error"] = e
    _LIB_CACHE[name] = b
    return b


def _lib_F(b, target):
    if b["F"] is None:
        e = b["F_error"]
        raise Violation(ID, _internal_bucket("framework", e) if not _dedicated(e, "framework") else "framework/valid-file-rejected/%s/%s" % (type(e).__name__, _where(e)), "library framework %s_framework.xlsx (a valid file shipped with the package) does not load: %s" % (b["name"], _describe(e)))
    return b["F"]


def _lib_run(b):
    """outputs of the unchanged library model (framework + databook as shipped), cached"""
    at = _at()
    if b.get("out") is None:
        with _Stage("library-run", "library %s" % b["name"]):
            P = at.Project(framework=_lib_F(b, "framework"), databook=xw.spreadsheet(b["db_blob"]), do_run=False)
            b["out"] = outputs(P.run_sim(P.parsets[0], result_name="c18"))
    return b["out"]


def _lib_D(b):
    at = _at()
    if b["D"] is None:
        with _Stage("library-databook-load", "library %s" % b["name"]):
            D = at.ProjectData.from_spreadsheet(xw.spreadsheet(b["db_blob"]), b["F"])
            D.validate(b["F"])
        b["D"] = D
    return b["D"]


def db_spec(spec):
    """generated databook base: the spec plus one unit-less databook parameter"""
    spec = with_all_years(spec)
    if not any(p["name"] == "u0" for p in spec["pars"]):
        spec["pars"].append({"name": "u0", "fmt": None, "ts": None, "fn": None, "db": True, "min": None, "max": None, "tgt": False, "timed": False, "deriv": False})
        spec["data"]["q"]["u0"] = {(p if isinstance(p, str) else p["name"]): {"a": 3.0} for p in spec["pops"]}
    return spec


def pb_spec(spec):
    spec = with_all_years(spec)
    linked = set()
    for a, b, what in spec["links"]:
        if what != ">":
            linked.update(what)
    n = 0
    for p in spec["pars"]:
        if n < 2 and p["name"] in linked and p.get("fmt") in ("rate", "probability") and not p.get("timed"):
            p["tgt"] = True
            n += 1
    return spec


def gen_progset(spec, F, D):
    at = _at()
    import numpy as np

    years = np.array(spec["data"]["years"], dtype=float)
    pg = at.ProgramSet.new(tvec=years, progs={"pg0": "Prog pg0", "pg1": "Prog pg1"}, framework=F, data=D)
    for i, prog in enumerate(pg.programs.values()):
        prog.target_pops = list(pg.pops.keys())
        prog.target_comps = [c for c, s in pg.comps.items() if not s.get("non_targetable")][: 2 + i]
        prog.spend_data.insert(float(years[0]), 1000.0 * (i + 1))
        prog.unit_cost.insert(float(years[0]), 10.0)
        prog.capacity_constraint.insert(float(years[0]), 500.0)
        prog.saturation.insert(None, 0.9)
        prog.coverage.insert(float(years[-1]), 0.5)
    for par in pg.pars:
        for pop, ps in pg.pops.items():
            if ps["type"] == pg.pars[par]["type"]:
                pg.covouts[(par, pop)] = at.Covout(par=par, pop=pop, progs={"pg0": 0.2, "pg1": 0.3}, cov_interaction="additive", baseline=0.1)
    return pg


def make_base(case):
    """-> dict(kind, wb (fresh openpyxl workbook of the file to mutate), F, D, spec)"""
    at = _at()
    target = case["target"]
    base = case["base"]
    if "lib" in base:
        b = lib_base(base["lib"])
        if target == "framework":
            return {"lib": b, "wb": xw.load_values(b["fw_blob"]), "spec": None}
        F = _lib_F(b, target)
        if target == "databook":
            if b["db_blob"] is None:
                raise Discard("library model has no databook")
            return {"lib": b, "wb": xw.load_values(b["db_blob"]), "F": F, "spec": None}
        if b["pb_blob"] is None or b["db_blob"] is None:
            raise Discard("library model has no program book")
        return {"lib": b, "wb": xw.load_values(b["pb_blob"]), "F": F, "D": _lib_D(b), "spec": None}
    spec = base["gen"]
    if target == "framework":
        spec = with_all_years(spec)
        try:
            wb = xw.framework_workbook(build.framework_tables(spec))
        except Exception as e:
            raise HarnessError("own framework writer failed: %r" % e)
        return {"wb": wb, "spec": spec}
    spec = db_spec(spec) if target == "databook" else pb_spec(spec)
    with _Stage("base-framework", "generated base"):
        F = build.make_framework(spec)
    with _Stage("base-databook", "generated base"):
        D = build.make_data(spec, F)
    if target == "databook":
        with _Stage("databook-write-filled", "generated base"):
            blob = D.to_spreadsheet().blob
        return {"wb": xw.load_values(blob), "F": F, "spec": spec, "blob0": blob}
    with _Stage("base-progset", "generated base"):
        D.validate(F)
        pg = gen_progset(spec, F, D)
        blob = pg.to_spreadsheet().blob
    return {"wb": xw.load_values(blob), "F": F, "D": D, "spec": spec}


# --------------------------------------------------------------------------------------------------- oracle


def _reject_or_violation(entry, target, e, stage, ctx):
    """an exception was raised for the mutated file"""
    lab = "outcome:rejected-at-%s:%s" % (stage, type(e).__name__)
    if entry.verdict == "accept":
        bucket = "%s/valid-file-rejected/%s/%s" % (target, type(e).__name__, _where(e)) if (_dedicated(e, target) or _conventional(e)) else _internal_bucket(target, e)
        raise Violation(ID, bucket, "%s: the edit is harmless (%s) but the file is refused at stage '%s': %s" % (ctx, entry.rule, stage, _describe(e))) from e
    ok = _dedicated(e, target) if stage == "reader" else (_dedicated(e, target) or _conventional(e))
    if ok:
        return [lab]
    if _conventional(e) and stage == "reader" and not _internal_bucket(target, e).endswith("not-wrapped"):
        bucket = "%s/wrong-error-class/%s/%s" % (target, type(e).__name__, _where(e))
        what = "refused by the reader with %s instead of the dedicated class" % type(e).__name__
    else:
        bucket = _internal_bucket(target, e)
        what = "fails with an internal error instead of the dedicated error"
    raise Violation(ID, bucket, "%s: broken rule = %s; %s: %s" % (ctx, entry.rule, what, _describe(e))) from e


def _silent(entry, target, ctx, how="silently accepted"):
    raise Violation(ID, "%s/%s/%s" % (target, how.replace(" ", "-"), entry.id), "%s: the file breaks a documented rule (%s) but is %s" % (ctx, entry.rule, how))


def eval_framework(entry, blob, base, ctx):
    at = _at()
    try:
        F = at.ProjectFramework(xw.spreadsheet(blob))
    except Exception as e:
        return _reject_or_violation(entry, "framework", e, "reader", ctx)
    if entry.verdict == "reject":
        _silent(entry, "framework", ctx)
    labels = ["outcome:accepted"]
    if base.get("spec") is not None:
        _, res = run_chain(base["spec"], F=F, context=ctx + " (accepted edit, chain)")
        labels.append("outcome:chain-ran")
        _, res0 = run_chain(base["spec"], context=ctx + " (unmutated base)")
        labels += compare_runs(entry, "framework", outputs(res0), outputs(res), ctx)
    else:
        import numpy as np

        b = base["lib"]
        pops = {"pop_%d" % i: {"label": "Population %d" % i, "type": t} for i, t in enumerate(F.pop_types.keys())}
        with _Stage("databook-new", ctx):
            D0 = at.ProjectData.new(F, np.arange(2000.0, 2003.0), pops=pops, transfers=0)
        with _Stage("databook-write", ctx):
            ss0 = D0.to_spreadsheet()
        with _Stage("databook-read", ctx):
            at.ProjectData.from_spreadsheet(ss0, F)
        if b["db_blob"] is not None and b["name"] in QUICK_LIBS:
            with _Stage("project-load", ctx):
                P = at.Project(framework=F, databook=xw.spreadsheet(b["db_blob"]), do_run=False)
            with _Stage("run", ctx):
                res = P.run_sim(P.parsets[0], result_name="c18")
            labels.append("outcome:chain-ran")
            labels += compare_runs(entry, "framework", _lib_run(b), outputs(res), ctx)
    return labels


def eval_databook(entry, blob, base, ctx):
    at = _at()
    F = base["F"]
    ss = xw.spreadsheet(blob)
    try:
        D = at.ProjectData.from_spreadsheet(ss, F)
    except Exception as e:
        return _reject_or_violation(entry, "databook", e, "reader", ctx)
    try:
        D.validate(F)
        P = at.Project(framework=F, databook=xw.spreadsheet(blob), do_run=False)
    except Exception as e:
        labs = _reject_or_violation(entry, "databook", e, "semantic", ctx)
        if entry.stage == "parse":
            _silent(entry, "databook", ctx, "accepted by the reader")
        return labs
    if entry.verdict == "reject":
        _silent(entry, "databook", ctx)
    labels = ["outcome:accepted"]
    spec = base.get("spec")
    with _Stage("run", ctx + " (accepted edit)"):
        if spec is not None:
            s = spec["settings"]
            P.settings.update_time_vector(start=s["start"], end=s["end"], dt=s["dt"])
        res = P.run_sim(P.parsets[0], result_name="c18")
    if spec is not None:
        with _Stage("run", ctx + " (unmutated base)"):
            P0 = at.Project(framework=F, databook=xw.spreadsheet(base["blob0"]), do_run=False)
            P0.settings.update_time_vector(start=s["start"], end=s["end"], dt=s["dt"])
            base_out = outputs(P0.run_sim(P0.parsets[0], result_name="c18"))
    else:
        base_out = _lib_run(base["lib"])
    labels += compare_runs(entry, "databook", base_out, outputs(res), ctx)
    return labels


def eval_progbook(entry, blob, base, ctx):
    at = _at()
    try:
        pg = at.ProgramSet.from_spreadsheet(spreadsheet=xw.spreadsheet(blob), framework=base["F"], data=base["D"])
    except Exception as e:
        return _reject_or_violation(entry, "progbook", e, "reader", ctx)
    try:
        pg.validate()
    except Exception as e:
        labs = _reject_or_violation(entry, "progbook", e, "semantic", ctx)
        if entry.stage == "parse":
            _silent(entry, "progbook", ctx, "accepted by the reader")
        return labs
    if entry.verdict == "reject":
        _silent(entry, "progbook", ctx)
    return ["outcome:accepted"]


VIEWS = {"framework": lambda base: cat.FwView(base["wb"]), "databook": lambda base: cat.DbView(base["wb"], base["F"]), "progbook": lambda base: cat.PbView(base["wb"], base["F"], base["D"])}
EVAL = {"framework": eval_framework, "databook": eval_databook, "progbook": eval_progbook}


def site_counts(base_key, target):
    """{entry id: number of sites} of all entries of one target in one base (used by the enumerated tier)"""
    try:
        base = make_base({"base": base_key, "target": target})
        view = VIEWS[target](base)
    except (Violation, Discard):
        return {}
    return {e.id: len(e.sites(view)) for e in cat.entries_for(target)}


def check_mut(case):
    entry = cat.ENTRIES.get(case["entry"])
    if entry is None:
        raise HarnessError("unknown catalogue entry %r" % case["entry"])
    target = entry.target
    case = dict(case, target=target)
    bname = "lib:" + case["base"]["lib"] if "lib" in case["base"] else "gen"
    labels = ["mode:mut", "target:" + target, "entry:" + entry.id, "verdict:" + entry.verdict, "base:" + bname]
    base = make_base(case)
    try:
        view = VIEWS[target](base)
        sites = entry.sites(view)
    except Exception as e:
        raise HarnessError("catalogue entry %s: sites() failed on base %s: %r\n%s" % (entry.id, bname, e, traceback.format_exc()))
    if not sites:
        raise Discard("entry has no site in this base (%s)" % entry.id.split(".")[0])
    site = sites[case["site"] % len(sites)]
    before = xw.dump(base["wb"])
    try:
        entry.apply(view, site)
    except Exception as e:
        raise HarnessError("catalogue entry %s: apply(%r) failed on base %s: %r\n%s" % (entry.id, site, bname, e, traceback.format_exc()))
    changed = xw.dump(base["wb"]) != before
    if not changed and entry.verdict == "reject":
        raise HarnessError("catalogue entry %s at site %r left base %s unchanged" % (entry.id, site, bname))
    blob = xw.workbook_bytes(base["wb"])
    ctx = "entry %s (verdict %s) at site %r of base %s" % (entry.id, entry.verdict, site, bname)
    labels += EVAL[target](entry, blob, base, ctx)
    return {"nontrivial": changed, "labels": labels}


def check(case):
    _at()
    if case.get("mode") == "chain":
        spec = case["spec"]
        h = int(case_hash(spec), 16)
        order = case.get("order") or ORDERS[(h // 11) % 3]
        values = case.get("values") or VALUES[(h // 13) % 3]
        if order not in ORDERS or values not in VALUES:
            raise HarnessError("unknown chain order / values %r %r" % (order, values))
        labels, _ = run_chain(spec, from_file=(h % 3 == 0), compare=(h % 4 == 0), all_row=(1 + h // 7 if h % 5 == 0 else 0), order=order, values=values, context="valid generated framework (databook %s, values %s)" % (order, values))
        return {"nontrivial": True, "labels": ["mode:chain"] + labels + [l for l in spec.get("labels", []) if l.startswith(("has:", "junction:res", "timed:group", "par:function", "par:agg", "pops:"))]}
    return check_mut(case)


# --------------------------------------------------------------------------------------------------- strategy


def _features(spec):
    kinds = {c["kind"] for c in spec["comps"]}
    return {
        "src": "src" in kinds,
        "sink": "sink" in kinds,
        "junc": "junc" in kinds,
        "timed": any(p.get("timed") for p in spec["pars"]),
        "characs": bool(spec.get("characs")),
        "cascade": bool(spec.get("cascades")),
        "inter": bool(spec.get("inter")),
        "transfer": bool(spec["data"].get("tr")),
        "two_tdc": len(spec["data"].get("tr", [])) + len(spec.get("inter", [])) >= 2,
        "prop": any(p.get("fmt") == "proportion" for p in spec["pars"]),
        "pars2": len([p for p in spec["pars"] if not p.get("timed")]) >= 2,
        "tgt": any(p.get("fmt") in ("rate", "probability") and not p.get("timed") for p in spec["pars"]),
    }


NEEDS = {
    "fw.inflow_to_source": ["src"],
    "fw.source_outflow_wrong_unit": ["src"],
    "fw.outflow_from_sink": ["sink"],
    "fw.source_in_databook": [],
    "fw.junction_outflow_wrong_unit": ["prop"],
    "fw.proportion_with_timescale": ["prop"],
    "fw.timed_not_duration": ["timed"],
    "fw.timed_targetable": ["timed"],
    "fw.timed_derivative": ["timed"],
    "fw.undefined_in_characteristic": ["characs"],
    "fw.undefined_in_cascade": ["cascade"],
    "fw.cascade_name_collision": ["cascade"],
    "fw.interaction_outside_aggregation": ["inter"],
    "fw.cyclic_functions": ["pars2"],
    "fw.transition_par_depends_on_flow": ["pars2"],
    "db.duplicate_transfer_name": ["transfer", "two_tdc"],
    "db.unknown_population_in_transfer": ["transfer"],
    "db.transfer_without_data": ["transfer"],
    "db.transfer_without_units": ["transfer"],
    "db.delete_transfers_sheet": ["transfer"],
    "db.transfer_matrix_says_no_but_row_has_data": ["transfer"],
    "db.interaction_matrix_says_no_but_row_has_data": ["inter"],
    "db.unknown_population_in_interaction": ["inter"],
    "db.interaction_without_data": ["inter"],
    "db.delete_interactions_sheet": ["inter"],
    "db.missing_table_with_default": ["never"],
    "pb.unknown_parameter_in_effects": ["tgt"],
    "pb.unknown_program_in_effects": ["tgt"],
    "pb.unknown_population_in_effects": ["tgt"],
    "pb.missing_baseline": ["tgt"],
    "pb.text_in_outcome_cell": ["tgt"],
}
GEN_PROFILE = {"p_stepped_interpolation": 0.0, "p_transfer": 0.6, "p_interaction": 0.4, "max_steps": 12, "p_source": 0.6, "p_sink": 0.7}


@st.composite
def cases(draw, tier):
    kind = draw(st.sampled_from(["chain"] * 4 + ["fw"] * 8 + ["db"] * 3 + ["pb"] + ["lib"] * 2))
    if kind == "chain":
        prof = {"p_stepped_interpolation": 0.0} if tier == "quick" else {"p_stepped_interpolation": 0.0, "max_ord": 6, "max_pops": 4}
        return {"mode": "chain", "spec": draw(gen_model.model_specs(prof)), "order": draw(st.sampled_from(ORDERS)), "values": draw(st.sampled_from(VALUES))}
    site = draw(st.integers(0, SITE_RANGE - 1))
    if kind == "lib":
        target = draw(st.sampled_from(["framework", "framework", "databook", "progbook"]))
        names = QUICK_LIBS if tier == "quick" else ALL_LIB_FRAMEWORKS
        if target != "framework":
            names = [n for n in names if os.path.exists(_lib_path(n, target[:4] + "book")) and (n, target) not in HEAVY]
        name = draw(st.sampled_from(names))
        ids = [e.id for e in cat.entries_for(target)]
        k = draw(st.integers(0, 10**6))
        return {"mode": "mut", "base": {"lib": name}, "entry": ids[(k * 7919 + site) % len(ids)], "site": (site + k) % SITE_RANGE}
    target = {"fw": "framework", "db": "databook", "pb": "progbook"}[kind]
    spec = draw(gen_model.model_specs(GEN_PROFILE))
    f = _features(spec)
    ids = [e.id for e in cat.entries_for(target) if all(f.get(n, False) for n in NEEDS.get(e.id, [])) and not e.id.endswith(".identity")]
    # Hypothesis favours the first elements of a list; rotating the choice by a digest of the drawn spec spreads the cases evenly over the catalogue
    rot = int(case_hash(spec), 16)
    k = draw(st.integers(0, len(ids) - 1))
    return {"mode": "mut", "base": {"gen": spec}, "entry": ids[(k + rot) % len(ids)], "site": (site + rot // 1000) % SITE_RANGE}


def strategy(tier):
    return cases(tier)


# --------------------------------------------------------------------------------------------------- enumerated cases


def _fixed_specs(n):
    """n generated specs, reproducibly (derandomised Hypothesis run)"""
    from hypothesis import given, settings, HealthCheck, Phase

    out = []

    @settings(max_examples=n, database=None, deadline=None, derandomize=True, suppress_health_check=list(HealthCheck), phases=[Phase.generate])
    @given(gen_model.model_specs(GEN_PROFILE))
    def collect(spec):
        if len(out) < n:
            out.append(spec)

    collect()
    return out


def static_cases(tier):
    _at()
    # every library file must load unchanged (identity entries): deterministic in every tier
    libs = QUICK_LIBS if tier == "quick" else ALL_LIB_FRAMEWORKS
    for name in libs:
        yield {"mode": "mut", "base": {"lib": name}, "entry": "fw.identity", "site": 0}
    for name in libs:
        if os.path.exists(_lib_path(name, "databook")):
            yield {"mode": "mut", "base": {"lib": name}, "entry": "db.identity", "site": 0}
        if os.path.exists(_lib_path(name, "progbook")):
            yield {"mode": "mut", "base": {"lib": name}, "entry": "pb.identity", "site": 0}
    for order in ORDERS:
        for values in VALUES:
            yield {"mode": "chain", "spec": SMALL_SPEC, "order": order, "values": values}
    yield {"mode": "chain", "spec": TINY_SPEC, "order": "reread", "values": "as-spec"}
    # rules that are stated name by name (reserved names): every site on the small fixed model, in every run
    if tier != "thorough":
        for target in ("framework", "databook"):
            ex = [e for e in cat.entries_for(target) if e.exhaustive]
            counts = site_counts({"gen": SMALL_SPEC}, target) if ex else {}
            for e in ex:
                for k in range(2, counts.get(e.id, 0)):  # (sites 0 and 1 are part of the loop below)
                    yield {"mode": "mut", "base": {"gen": SMALL_SPEC}, "entry": e.id, "site": k}
        # every catalogue entry once on the small fixed model, so that each rule is exercised in every run whatever the seed
        for e in cat.ENTRIES.values():
            if not e.id.endswith(".identity"):
                for k in (0, 1):
                    yield {"mode": "mut", "base": {"gen": SMALL_SPEC}, "entry": e.id, "site": k}
        return
    cap_lib, cap_gen = 10, 3
    bases = [({"lib": n}, cap_lib) for n in ALL_LIB_FRAMEWORKS if n != "malaria"] + [({"gen": SMALL_SPEC}, cap_lib)] + [({"gen": s}, cap_gen) for s in _fixed_specs(20)]
    for base, cap in bases:
        for target in ("framework", "databook", "progbook"):
            if "lib" in base and target != "framework" and (not os.path.exists(_lib_path(base["lib"], target[:4] + "book")) or (base["lib"], target) in HEAVY):
                continue
            for eid, n in site_counts(base, target).items():
                if eid.endswith(".identity"):
                    continue
                for k in range(n if (cat.ENTRIES[eid].exhaustive and base.get("gen") is SMALL_SPEC) else min(n, cap)):
                    yield {"mode": "mut", "base": base, "entry": eid, "site": k}


def evidence_extra(tier):
    by_target = {}
    for e in cat.ENTRIES.values():
        by_target.setdefault(e.target + ":" + e.verdict, []).append(e.id)
    return {"catalogue": {k: sorted(v) for k, v in sorted(by_target.items())}, "catalogue_size": len(cat.ENTRIES)}
