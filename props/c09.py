"""C09 - interventions have no effect before they start."""
import copy
import math
import numpy as np
from hypothesis import strategies as st
from vlib import gen_model, simcase, build, canon
from vlib.runner import Violation, Discard, HarnessError

ID = "C09"
RULE = (
    "metamorphic pairs on generated ModelSpecs: 'prog-start' (programs starting at Y vs no programs; after a stop year data-driven targeted parameters equal the no-program run), "
    "'series-change' (spending / capacity / coverage series with a change dated Y that also states the value in force before Y vs the series without the change), 'scenario' (parameter "
    "scenario whose first point is Y, linear or stepped, on data parameters, function parameters, transfers and interactions vs baseline), 'extend' (later end year); Y on and off the "
    "grid, all dt classes; oracle: every compartment, flow, characteristic and parameter strictly before Y agrees between the two runs to 1e-12 relative (prefix for 'extend'); "
    "non-trivial = Y > start + dt and the intervention changes some output at t >= Y; distinct = case hash"
)
ASSUMPTIONS = [
    "agreement is asserted to 1e-12 relative rather than bitwise: with programs attached atomica evaluates function parameters step by step instead of vectorised, and numpy's scalar and SIMD paths may differ in the last bit",
    "runs discarded as in C01 (ill-posed junctions, float overflow)",
]
BUDGET = {"quick": 2000, "thorough": 8000}  # thorough = 4x quick: a depth that was run to completion, quiet, at seed 1 (deterministic given the seed)
TIME_CAP = {"quick": 75, "thorough": 1500}
PROFILE = {"p_programs": 0.75, "max_steps": 14, "min_steps": 4, "extreme": 0.05, "p_function": 0.4, "p_timed": 0.3, "p_junction": 0.4, "p_interaction": 0.5, "p_output_pars": 0.5}


@st.composite
def cases(draw, prof):
    spec = draw(gen_model.model_specs(prof))
    s0, dt = spec["settings"]["start"], spec["settings"]["dt"]
    nsteps = max(1, int(round((spec["settings"]["end"] - s0) / dt)))
    kinds = ["scenario", "extend"]
    if spec.get("progs"):
        kinds += ["prog-start", "prog-start", "series-change", "series-change"]
    kind = draw(st.sampled_from(kinds))
    k0 = draw(st.integers(1, nsteps))
    off = draw(st.sampled_from([0.0, 0.0, 0.4 * dt, -0.3 * dt]))
    if k0 == nsteps and off > 0:
        off = 0.0
    Y = s0 + k0 * dt + off
    case = {"spec": spec, "kind": kind, "Y": Y}
    if kind == "prog-start":
        spec["instr"]["start"] = Y
        for key in ("alloc", "capacity", "coverage"):
            for q, e in spec["instr"][key].items():
                e["t"] = [Y]
                e["v"] = e["v"][:1]
        if spec["instr"].get("stop") is not None:
            spec["instr"]["stop"] = Y + draw(st.integers(0, nsteps)) * dt + draw(st.sampled_from([0.0, 0.3 * dt]))
        case["derived_instructions"] = draw(st.integers(0, 3)) == 0
    elif kind == "series-change":
        q = draw(st.sampled_from([p["name"] for p in spec["progs"]["progs"]]))
        what = draw(st.sampled_from(["alloc", "alloc", "capacity", "coverage"]))
        ist = s0 - draw(st.sampled_from([0.0, 1.0]))
        if k0 >= 2 and draw(st.integers(0, 2)) == 0:
            # the first entry lies AFTER the program start (but before Y): until then its value is in force (constant extrapolation)
            ist = s0 + draw(st.integers(1, k0 - 1)) * dt
            case["first_entry_after_start"] = True
        spec["instr"]["start"] = draw(st.sampled_from([s0, s0, s0 + dt]))
        spec["instr"]["stop"] = None
        v0 = draw(st.floats(0.0, 1.0)) * {"alloc": 5000.0, "capacity": 2000.0, "coverage": 1.0}[what]
        v1 = draw(st.floats(0.0, 1.0)) * {"alloc": 5000.0, "capacity": 2000.0, "coverage": 1.0}[what]
        spec["instr"][what][q] = {"t": [ist], "v": [v0]}
        case.update(prog=q, what=what, v1=v1)
    elif kind == "scenario":
        cands = [("par", p["name"]) for p in spec["pars"] if not p["timed"] and not (p.get("fn") or "").startswith(("SRC_", "TGT_"))]
        cands += [("transfer", tr["name"], k) for tr in spec["data"]["tr"] for k in tr["e"]]
        cands += [("inter", w, k) for w, e in spec["data"]["iw"].items() for k in e]
        tgt = draw(st.sampled_from(cands))
        npts = draw(st.integers(1, 3))
        ts = sorted(set([Y + i * draw(st.sampled_from([dt, 2.5 * dt, 1.0])) for i in range(npts)]))
        ys = [draw(st.sampled_from([0.0, 0.1, 0.5, 1.0, 3.0, 20.0])) for _ in ts]
        if len(ts) > 1 and draw(st.integers(0, 2)) == 0:
            order = draw(st.permutations(list(range(len(ts)))))  # overwrite points listed in any order: the first point in TIME is Y
            ts, ys = [ts[i] for i in order], [ys[i] for i in order]
        pops = draw(st.lists(st.sampled_from(spec["pops"]), unique=True, min_size=1)) if tgt[0] == "par" else None
        case.update(target=list(tgt), pops=pops, t=ts, y=ys, interp=draw(st.sampled_from(["linear", "previous"])))
    else:
        case["extra_steps"] = draw(st.integers(1, 10))
        case["Y"] = None
    return case


def strategy(tier):
    prof = dict(PROFILE)
    if tier == "thorough":
        prof.update(max_steps=40, max_ord=6, max_pops=4)
    return cases(prof)


def compare_before(resA, resB, Y, what):
    tA, tB = np.asarray(resA.t, dtype=float), np.asarray(resB.t, dtype=float)
    n = int(np.sum(tA < Y)) if Y is not None else min(len(tA), len(tB))
    n = min(n, len(tA), len(tB))
    if n == 0:
        return 0
    if not np.array_equal(tA[:n], tB[:n]):
        if np.max(np.abs(tA[:n] - tB[:n])) > 1e-9:
            raise Violation(ID, what + "/time-grid", "time grids differ before Y: %r vs %r" % (tA[:n].tolist()[:5], tB[:n].tolist()[:5]))
    a, b = canon.result_arrays(resA), canon.result_arrays(resB)
    a = {k: (v[..., :n]) for k, v in a.items()}
    b = {k: (v[..., :n]) for k, v in b.items()}
    d = canon.compare_results(a, b, rtol=1e-12, pop_scale=True)
    if d is not None:
        k, i, x, y = d
        raise Violation(ID, "%s/%s" % (what, k[0] if isinstance(k, tuple) else k), "%s differs before the intervention year %r at index %r (t=%r): with intervention %r, without %r" % (k, Y, i, tA[i] if isinstance(i, int) else None, x, y))
    return n


def differs_after(resA, resB, Y):
    tA = np.asarray(resA.t, dtype=float)
    n0 = int(np.sum(tA < Y))
    a, b = canon.result_arrays(resA), canon.result_arrays(resB)
    for k in a:
        if k in b and a[k].shape == b[k].shape and a[k].shape[-1] > n0:
            if not np.array_equal(a[k][..., n0:], b[k][..., n0:], equal_nan=True):
                return True
    return False


def check(case):
    import atomica as at

    spec, kind, Y = case["spec"], case["kind"], case["Y"]
    simcase.quiet()
    labels = ["kind:" + kind]
    s0, dt = spec["settings"]["start"], spec["settings"]["dt"]
    try:
        b = build.build_all(spec)
    except HarnessError:
        raise
    except Exception as e:
        raise Discard("atomica raised %s at %s while building (decided by C18)" % (type(e).__name__, simcase.atomica_frame(e)))
    if kind == "prog-start":
        bA = dict(b)
        if case.get("derived_instructions") and bA.get("instructions") is not None:
            # the instructions that are run were DERIVED from the given ones through the library's own helper (budget x 1): same start
            # and stop years, same series
            bA["instructions"] = bA["instructions"].scale_alloc(1.0)
            labels.append("instructions:scale_alloc(1)")
        _, resA = simcase.run_spec(spec, b=bA)
        b0 = dict(b)
        b0["progset"], b0["instructions"] = None, None
        _, resB = simcase.run_spec(spec, b=b0)
        compare_before(resA, resB, Y, "program-start")
        stop = spec["instr"].get("stop")
        if stop is not None:
            t = np.asarray(resA.t, dtype=float)
            targeted = {(c["par"], c["pop"]) for c in spec["progs"]["covouts"]}
            fn = {p["name"]: p.get("fn") for p in spec["pars"]}
            for popA, popB in zip(resA.model.pops, resB.model.pops):
                for pA, pB in zip(popA.pars, popB.pars):
                    if (pA.name, popA.name) in targeted and not fn.get(pA.name):
                        va, vb = np.asarray(pA.vals, dtype=float), np.asarray(pB.vals, dtype=float)
                        after = t > stop
                        if after.any():
                            labels.append("after-stop-checked")
                            if not np.allclose(va[after], vb[after], rtol=1e-12, atol=0, equal_nan=True):
                                i = int(np.nonzero(after & ~np.isclose(va, vb, rtol=1e-12, atol=0, equal_nan=True))[0][0])
                                raise Violation(ID, "after-stop/targeted-data-parameter", "%s/%s at t=%r (after stop year %r): %r with programs, %r without" % (popA.name, pA.name, t[i], stop, va[i], vb[i]))
        changed = differs_after(resA, resB, Y)
    elif kind == "series-change":
        _, resB = simcase.run_spec(spec, b=dict(b))
        spec2 = copy.deepcopy(spec)
        e = spec2["instr"][case["what"]][case["prog"]]
        e["t"] = [e["t"][0], Y]
        e["v"] = [e["v"][0], case["v1"]]
        b2 = dict(b)
        b2["progset"], b2["instructions"] = build.make_progset(spec2, b["F"], b["D"])
        _, resA = simcase.run_spec(spec2, b=b2)
        compare_before(resA, resB, Y, "series-change/" + case["what"])
        changed = differs_after(resA, resB, Y)
        labels.append("series:" + case["what"])
        if case.get("first_entry_after_start"):
            labels.append("series:first-entry-after-program-start")
    elif kind == "scenario":
        _, resB = simcase.run_spec(spec, b=dict(b))
        tgt = case["target"]
        sv = {}
        if tgt[0] == "par":
            sv[tgt[1]] = {pop: {"t": list(case["t"]), "y": list(case["y"])} for pop in case["pops"]}
        else:
            sv[tgt[1]] = {tuple(tgt[2].split(">")): {"t": list(case["t"]), "y": list(case["y"])}}
        try:
            ps2 = at.ParameterScenario(name="scen", scenario_values=sv, interpolation=case["interp"]).get_parset(b["ps"], b["P"])
        except Exception as e:
            raise Discard("atomica raised %s at %s while applying the scenario" % (type(e).__name__, simcase.atomica_frame(e)))
        b2 = dict(b)
        b2["ps"] = ps2
        _, resA = simcase.run_spec(spec, b=b2)
        Ys = min(case["t"])
        compare_before(resA, resB, Ys, "scenario/" + tgt[0])
        changed = differs_after(resA, resB, Ys)
        labels += ["scenario-on:" + tgt[0], "interp:" + case["interp"]]
        if tgt[0] == "par":
            p = [x for x in spec["pars"] if x["name"] == tgt[1]][0]
            labels.append("scenario-par:" + ("function" if p.get("fn") else "data"))
        Y = Ys
    else:
        _, resB = simcase.run_spec(spec, b=dict(b))
        P2 = copy.deepcopy(b["P"])
        end2 = spec["settings"]["end"] + case["extra_steps"] * dt
        P2.settings.update_time_vector(end=end2)
        b2 = dict(b)
        b2["P"] = P2
        _, resA = simcase.run_spec(spec, b=b2)
        if len(resA.t) <= len(resB.t):
            raise Violation(ID, "extend/not-longer", "extending the end year from %r to %r did not lengthen the run (%d vs %d points)" % (spec["settings"]["end"], end2, len(resB.t), len(resA.t)))
        compare_before(resA, resB, None, "extend")
        changed = True
        Y = s0 + 2 * dt
    nontrivial = bool(changed) and (Y > s0 + dt)
    return {"nontrivial": nontrivial, "labels": labels + (["changed-after-Y"] if changed else ["no-visible-effect"])}
