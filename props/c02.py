"""C02 - stocks and flows stay non-negative, finite, never over-drawn; common rescale factor; negative parameter => zero flow."""
import numpy as np
from hypothesis import strategies as st
from vlib import gen_model, simcase, oracles, replay, libcase
from vlib.build import link_key
from vlib.runner import Violation, Discard

ID = "C02"
RULE = (
    "cases = perturbed library projects (y-factors up to x100 on any parameter) and generated ModelSpecs with extreme value classes forced on (rates far above 1/dt, tiny durations, number transitions above the source size, "
    "empty compartments, parameter functions that go negative, sizes up to 1e10); oracle = all stocks/flows finite and >= 0, outflow <= stock, and by one-step "
    "replay from atomica's own state: in every compartment (per elapsed-time bin for timed ones) whose requested fractions sum above 1 the recorded flows equal "
    "stock*f_i/sum(f) (so ratios are preserved and the compartment is exactly emptied), a negative parameter gives exactly 0 on all its links; "
    "non-trivial = a rescale, an empty-source number transition or a negative-parameter event occurred; distinct = spec hash"
)
ASSUMPTIONS = [
    "domain as C01 (ill-posed junctions discarded); float overflow above 1e100 through explosive feedback discarded",
    "per-bin amounts of ordinary links out of timed compartments are not recorded by atomica; their totals are compared with the per-bin rule instead",
]
BUDGET = {"quick": 3000, "thorough": 12000}  # thorough = 4x quick: a depth that was run to completion, quiet, at seed 1 (deterministic given the seed)
TIME_CAP = {"quick": 75, "thorough": 1500}
PROFILE = {"extreme": 0.4, "allow_negative_functions": True, "p_function": 0.5, "p_limits": 0.15, "max_steps": 25, "p_deriv": 0.1, "p_agg_transition": 0.1, "p_programs": 0.3, "p_second_type": 0.15}


def strategy(tier):
    prof = dict(PROFILE)
    if tier == "thorough":
        prof.update(max_steps=80, max_ord=6, max_pops=4)
    m = gen_model.model_specs(prof)
    return st.one_of(m, m, m, m, m, libcase.lib_cases(20 if tier == "quick" else 80, quick=(tier == "quick")))


def check(spec):
    b, res = simcase.run_any(spec)
    oracles.sign_and_overdraw(res, ID)
    rp = replay.Replay(res)
    feats = set()
    T = len(res.t)
    for ti in range(T):
        pred, pbins, info = rp.predict_links(ti)
        for kind, par in info["events"]:
            feats.add(kind)
            if kind == "negative-parameter":
                for l in par.links:
                    if rp.lv[l][ti] != 0:
                        raise Violation(ID, "negative-parameter-nonzero-flow", "parameter %s/%s = %r at index %d but link %s carries %r" % (par.pop.name, par.name, rp.pv[par][ti], ti, link_key(l), rp.lv[l][ti]))
        for c in info["rescaled"] + info["rescaled_bins"]:
            feats.add("rescale-timed" if c in info["rescaled_bins"] else "rescale")
            x = float(rp.cv[c][ti])
            if not all(np.isfinite(pred[l]) for l in c.outlinks):
                feats.add("fraction-overflow")  # amount/denormal stock overflows in the reference too: only the emptied condition is checked
                tot = sum(float(rp.lv[l][ti]) for l in c.outlinks)
                if not replay.close(tot, x):
                    raise Violation(ID, "rescale-not-emptied", "%s/%s index %d: requests exceed the stock %r but total outflow is %r" % (c.pop.name, c.name, ti, x, tot))
                continue
            for l in c.outlinks:
                a, p = float(rp.lv[l][ti]), pred[l]
                if abs(a - p) > 1e-9 * max(1.0, x):
                    raise Violation(ID, "rescale-ratio/%s" % type(c).__name__, "%s/%s index %d (size %r): link %s recorded %r, common-factor rule gives %r" % (c.pop.name, c.name, ti, x, link_key(l), a, p))
                if l in pbins and hasattr(l, "_vals"):
                    rb = np.asarray(l._vals[:, ti], dtype=float)
                    if rb.shape != pbins[l].shape or np.any(np.abs(rb - pbins[l]) > 1e-9 * max(1.0, x)):
                        raise Violation(ID, "rescale-ratio/per-bin", "%s/%s index %d: time-preserving link %s bins %r expected %r" % (c.pop.name, c.name, ti, link_key(l), rb.tolist(), pbins[l].tolist()))
            if c in info["rescaled"]:
                tot = sum(float(rp.lv[l][ti]) for l in c.outlinks)
                if not replay.close(tot, x):
                    raise Violation(ID, "rescale-not-emptied", "%s/%s index %d: requests exceed the stock %r but total outflow is %r" % (c.pop.name, c.name, ti, x, tot))
    return {"nontrivial": bool(feats), "labels": simcase.labels_of(spec) + ["event:" + f for f in sorted(feats)]}
