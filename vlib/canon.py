"""Canonical structural form of arbitrary atomica objects (DESIGN.md 1.6).

canon(obj) walks __dict__/__slots__, dict/odict, list/tuple, numpy arrays (dtype+shape+bytes, NaN-aware), DataFrames,
TimeSeries, datetimes and returns a nested hashable value; `skip` removes declared metadata.  Used for "inputs unchanged",
"copy equals original" and result digests.  Pickle bytes are never used for equality.

Projection helpers (C16): pdiff(a, b, rtol) compares two *projections* (plain nested dict / tuple / list / set / scalars);
floats are compared with a relative tolerance and None == NaN == "" (an empty spreadsheet cell); dict order is irrelevant.
"""
import numpy as np
import pandas as pd
import datetime
import hashlib
import uuid
import math

SKIP = frozenset({"uid", "created", "modified", "version", "gitinfo", "_book", "_formats", "_references"})


def canon(o, skip=SKIP, _seen=None, _keep=None):
    if _seen is None:
        _seen = {}
        _keep = []
    if o is None or isinstance(o, (bool, int, str, bytes)):
        return o
    if isinstance(o, float):
        return "nan" if math.isnan(o) else repr(o)
    if isinstance(o, (np.floating, np.integer, np.bool_)):
        return canon(o.item(), skip, _seen, _keep)
    if isinstance(o, np.ndarray):
        if o.dtype == object:
            return ("objarr", tuple(canon(x, skip, _seen, _keep) for x in o.ravel().tolist()), o.shape)
        return ("arr", str(o.dtype), o.shape, hashlib.sha1(np.ascontiguousarray(o).tobytes()).hexdigest())
    if isinstance(o, (datetime.datetime, datetime.date, uuid.UUID)):
        return ("t", str(o))
    oid = id(o)
    if oid in _seen:
        return ("ref", _seen[oid])
    _seen[oid] = len(_seen)
    _keep.append(o)  # pin: ids of temporaries must not be recycled during the walk

    def sub(x):
        return canon(x, skip, _seen, _keep)

    if isinstance(o, pd.DataFrame):
        idx, cols, vals = list(o.index), list(o.columns), o.to_numpy(dtype=object)
        _keep.extend([idx, cols, vals])
        return ("df", sub(idx), sub(cols), sub(vals), sub(o.index.name))
    if isinstance(o, pd.Series):
        idx, vals = list(o.index), o.to_numpy(dtype=object)
        _keep.extend([idx, vals])
        return ("ser", sub(idx), sub(vals))
    if isinstance(o, pd.Index):
        lst = list(o)
        _keep.append(lst)
        return ("index", sub(lst))
    if isinstance(o, dict):
        return ("dict", type(o).__name__, tuple((sub(k), sub(v)) for k, v in o.items()))
    if isinstance(o, (list, tuple)):
        return (type(o).__name__, tuple(sub(x) for x in o))
    if isinstance(o, (set, frozenset)):
        return ("set", tuple(sorted(repr(sub(x)) for x in o)))
    if hasattr(o, "__slots__") and not hasattr(o, "__dict__"):
        return ("obj", type(o).__name__, tuple((k, sub(getattr(o, k, None))) for k in o.__slots__ if k not in skip))
    if hasattr(o, "__dict__"):
        return ("obj", type(o).__name__, tuple((k, sub(v)) for k, v in sorted(o.__dict__.items()) if k not in skip))
    if callable(o):
        return ("callable", getattr(o, "__name__", repr(type(o))))
    return ("repr", repr(o))


def digest(o, skip=SKIP):
    return hashlib.sha1(repr(canon(o, skip)).encode()).hexdigest()


def diff(a, b, path="root", out=None, limit=10):
    """first differences between two canonical forms (for violation messages)"""
    if out is None:
        out = []
    if len(out) >= limit:
        return out
    if type(a) != type(b) or (not isinstance(a, tuple) and a != b):
        out.append((path, a if not isinstance(a, tuple) else "...", b if not isinstance(b, tuple) else "..."))
        return out
    if isinstance(a, tuple):
        if len(a) != len(b):
            out.append((path, "len", len(a), len(b)))
            return out
        for i, (x, y) in enumerate(zip(a, b)):
            p = path + "/" + (str(x[0]) if isinstance(x, tuple) and len(x) == 2 and isinstance(x[0], str) else str(i))
            diff(x, y, p, out, limit)
    return out


def result_arrays(res):
    """{key: array} for every compartment, characteristic, parameter and link of a Result; links keyed without their random names"""
    out = {}
    for pop in res.model.pops:
        for c in pop.comps:
            out[("comp", pop.name, c.name)] = np.array(c.vals, dtype=float)
            if hasattr(c, "_vals") and getattr(c, "_vals", None) is not None and np.ndim(c._vals) == 2:
                out[("bins", pop.name, c.name)] = np.array(c._vals, dtype=float)
        for x in pop.characs:
            out[("charac", pop.name, x.name)] = np.array(x.vals, dtype=float)
        for p in pop.pars:
            out[("par", pop.name, p.name)] = np.array(p.vals, dtype=float)
        seen = {}
        for l in pop.links:
            k = ("link", l.source.pop.name, l.source.name, l.dest.pop.name, l.dest.name, l.parameter.name if l.parameter is not None else "anon")
            seen[k] = seen.get(k, 0) + 1
            out[k + (seen[k],)] = np.array(l.vals, dtype=float)
    return out


def result_digest(res):
    arrs = result_arrays(res)
    h = hashlib.sha1()
    h.update(np.ascontiguousarray(np.asarray(res.t, dtype=float)).tobytes())
    for k in sorted(arrs, key=repr):
        h.update(repr(k).encode())
        h.update(str(arrs[k].shape).encode())
        h.update(np.ascontiguousarray(arrs[k]).tobytes())
    return h.hexdigest()


def compare_results(a, b, rtol=0.0, i0a=0, i0b=0, pop_scale=False):
    """compare two {key: array} dicts from result_arrays; rtol=0 => bitwise (NaN == NaN). returns None or (key, index, x, y).
    pop_scale=True: stocks, flows and characteristics are compared relative to the largest stock of their population (a small
    compartment next to a huge one is the remainder of huge flows and exact only relative to those)"""
    popmax = {}
    if pop_scale and rtol:
        for k_, v_ in a.items():
            if k_[0] == "comp" and v_.size:
                with np.errstate(invalid="ignore"):
                    m_ = np.nanmax(np.abs(np.where(np.isfinite(v_), v_, 0.0)))
                popmax[k_[1]] = max(popmax.get(k_[1], 0.0), float(m_))
    if set(a) != set(b):
        only = sorted(set(a) ^ set(b), key=repr)[:3]
        return ("keys", only, None, None)
    for k in sorted(a, key=repr):
        x = a[k][..., i0a:] if a[k].ndim else a[k]
        y = b[k][..., i0b:] if b[k].ndim else b[k]
        n = min(x.shape[-1], y.shape[-1])
        x, y = x[..., :n], y[..., :n]
        if x.shape != y.shape:
            return (k, "shape", x.shape, y.shape)
        nx, ny = np.isnan(x), np.isnan(y)
        if not np.array_equal(nx, ny):
            i = int(np.argwhere(nx != ny)[0][-1])
            return (k, i, x[..., i].tolist(), y[..., i].tolist())
        if rtol == 0:
            neq = (x != y) & ~nx
        else:
            with np.errstate(invalid="ignore"):
                S_ = popmax.get(k[1], 0.0) if (isinstance(k, tuple) and len(k) > 1 and k[0] in ("comp", "bins", "charac", "link")) else 0.0
                neq = (np.abs(x - y) > rtol * np.maximum(max(1.0, S_), np.maximum(np.abs(x), np.abs(y)))) & ~nx
                neq |= np.isinf(x) != np.isinf(y)
        if neq.any():
            i = int(np.argwhere(neq)[0][-1])
            return (k, i, x[..., i].tolist(), y[..., i].tolist())
    return None


# --------------------------------------------------------------------------- projections


def is_empty(x):
    """what an empty spreadsheet cell may turn into: None, NaN, pandas NA, empty string"""
    if x is None:
        return True
    if isinstance(x, str):
        return x.strip() == ""
    try:
        return bool(x != x)
    except Exception:
        try:
            return bool(pd.isna(x))
        except Exception:
            return False


def norm_scalar(x):
    """normalise a table cell: empty -> None, numpy scalar -> python, numbers -> float, strings stripped"""
    if is_empty(x):
        return None
    if isinstance(x, (np.floating, np.integer)):
        x = x.item()
    if isinstance(x, np.bool_):
        return bool(x)
    if isinstance(x, bool):
        return x
    if isinstance(x, (int, float)):
        return float(x)
    if isinstance(x, str):
        return x.strip()
    return x


def num_close(a, b, rtol, atol=0.0):
    if a == b:
        return True
    if a != a and b != b:
        return True
    if rtol <= 0 and atol <= 0:
        return False
    return abs(a - b) <= max(rtol * max(abs(a), abs(b)), atol)


def pdiff(a, b, rtol=0.0, path="", out=None, limit=8, atol=0.0):
    """differences between two projections; returns list of (path, a, b). Dict key order is irrelevant."""
    if out is None:
        out = []
    if len(out) >= limit:
        return out
    if isinstance(a, dict) and isinstance(b, dict):
        for k in sorted(set(a) | set(b), key=repr):
            if k not in a:
                out.append((path + "/" + str(k), "<absent>", _short(b[k])))
            elif k not in b:
                out.append((path + "/" + str(k), _short(a[k]), "<absent>"))
            else:
                pdiff(a[k], b[k], rtol, path + "/" + str(k), out, limit, atol)
            if len(out) >= limit:
                break
        return out
    if isinstance(a, (set, frozenset)) and isinstance(b, (set, frozenset)):
        if a != b:
            out.append((path, "only-left:" + _short(sorted(a - b, key=repr)), "only-right:" + _short(sorted(b - a, key=repr))))
        return out
    if isinstance(a, (tuple, list)) and isinstance(b, (tuple, list)):
        if len(a) != len(b):
            out.append((path + "#len", _short(a), _short(b)))
            return out
        for i, (x, y) in enumerate(zip(a, b)):
            pdiff(x, y, rtol, path + "[%d]" % i, out, limit, atol)
        return out
    ea, eb = is_empty(a), is_empty(b)
    if ea or eb:
        if ea != eb:
            out.append((path, _short(a), _short(b)))
        return out
    if isinstance(a, (int, float, np.floating, np.integer)) and isinstance(b, (int, float, np.floating, np.integer)) and not isinstance(a, bool) and not isinstance(b, bool):
        if not num_close(float(a), float(b), rtol, atol):
            out.append((path, repr(a), repr(b)))
        return out
    if a != b:
        out.append((path, _short(a), _short(b)))
    return out


def _short(x, n=160):
    s = repr(x)
    return s if len(s) <= n else s[:n] + "..."


def report_digest(res):
    """digest of what a finished Result REPORTS through its public interface (not only the stored arrays): whether programs were used,
    the raw export table, spending and coverage reports, and every flow looked up by its name in every population"""
    h = hashlib.sha1()
    h.update(repr(bool(res.used_programs) if res.used_programs is not None else None).encode())
    df = res.export_raw()
    h.update(repr([tuple(map(str, i)) if isinstance(i, tuple) else str(i) for i in df.index]).encode())
    h.update(np.ascontiguousarray(np.asarray(df.values, dtype=float)).tobytes())
    if res.used_programs:
        reports = [("alloc", res.get_alloc())] + [(q, res.get_coverage(q)) for q in ("capacity", "eligible", "fraction", "number")]
        for q, rep in reports:
            for name in sorted(rep):
                h.update(("%s/%s" % (q, name)).encode())
                h.update(np.ascontiguousarray(np.asarray(rep[name], dtype=float)).tobytes())
    for pop in res.model.pops:
        for name in sorted({l.name for l in pop.links}):
            tot = sum(np.asarray(v.vals, dtype=float) for v in res.get_variable(name, pop.name))
            h.update(("%s/%s" % (pop.name, name)).encode())
            h.update(np.ascontiguousarray(tot).tobytes())
    return h.hexdigest()
