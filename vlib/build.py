"""ModelSpec (plain JSON data) -> atomica objects.

Fast path: DataFrames are placed in ProjectFramework().sheets and validated by the same routine the
constructor runs; ProjectData.new / ProgramSet.new are filled programmatically.  See DESIGN.md 1.2.
"""
import numpy as np
import pandas as pd
from .runner import HarnessError

UNITS = {"rate": "Rate (per year)", "number": "Number (years)", "duration": "Duration (years)", "probability": "Probability (per year)"}


def _yn(b):
    return "y" if b else "n"


def framework_tables(spec):
    """dict sheet name -> list of DataFrames (what a framework workbook would contain)"""
    types = spec.get("pop_types") or ["default"]
    comps = []
    for c in spec["comps"]:
        kind = c["kind"]
        row = {
            "code name": c["name"],
            "display name": "C " + c["name"],
            "is source": _yn(kind == "src"),
            "is sink": _yn(kind == "sink"),
            "is junction": _yn(kind == "junc"),
            "databook page": "comps" if c.get("db") else None,
            "default value": None if (c.get("db") or c.get("free") or kind in ("src", "sink")) else 0,
            "population type": c.get("type", types[0]),
        }
        if c.get("sw") is not None:
            row["setup weight"] = c["sw"]
        comps.append(row)
    dfc = pd.DataFrame(comps)
    characs = []
    for x in spec.get("characs", []):
        row = {
            "code name": x["name"],
            "display name": "X " + x["name"],
            "components": ",".join(x.get("inc_ref") or x["inc"]),
            "denominator": x.get("den"),
            "databook page": "comps" if x.get("db") else None,
            "default value": None,
            "population type": x.get("type", types[0]),
        }
        if x.get("sw") is not None:
            row["setup weight"] = x["sw"]
        characs.append(row)
    pars = []
    for p in spec["pars"]:
        pars.append(
            {
                "code name": p["name"],
                "display name": "P " + p["name"],
                "format": p.get("fmt"),
                "function": p.get("fn"),
                "databook page": "pars" if p.get("db") else None,
                "default value": None,
                "minimum value": p.get("min"),
                "maximum value": p.get("max"),
                "timescale": p.get("ts"),
                "targetable": _yn(p.get("tgt")),
                "timed": _yn(p.get("timed")),
                "is derivative": _yn(p.get("deriv")),
                "population type": p.get("type", types[0]),
            }
        )
    trans = []
    for ty in types:
        names = [c["name"] for c in spec["comps"] if c.get("type", types[0]) == ty]
        if not names:
            continue
        T = pd.DataFrame(None, index=names, columns=names, dtype=object)
        for link in spec["links"]:
            a, b, what = link
            if a in names:
                T.loc[a, b] = ">" if what == ">" else ", ".join(what)
        T.insert(0, ty, T.index)
        T = T.reset_index(drop=True)
        sp = spec.get("split_transitions")
        if sp and ty == types[0] and 0 < sp["k"] < len(names):
            # the transition matrix of one population type may be given as several blocks (here: two, split by rows, in either order)
            blocks = [T.iloc[: sp["k"]].reset_index(drop=True), T.iloc[sp["k"] :].reset_index(drop=True)]
            trans.extend(reversed(blocks) if sp.get("rev") else blocks)
        else:
            trans.append(T)
    sheets = {"compartments": [dfc], "parameters": [pd.DataFrame(pars)], "transitions": trans}
    if len(types) > 1 or types[0] != "default":
        sheets["population types"] = [pd.DataFrame([{"code name": t, "description": "Type " + t} for t in types])]
    if characs:
        sheets["characteristics"] = [pd.DataFrame(characs)]
    if spec.get("inter"):
        sheets["interactions"] = [pd.DataFrame([{"code name": w["name"], "display name": "W " + w["name"], "from population type": w.get("from", types[0]), "to population type": w.get("to", types[0])} for w in spec["inter"]])]
    if spec.get("cascades"):
        dfs = []
        for casc in spec["cascades"]:
            dfs.append(pd.DataFrame({casc["name"]: [s[0] for s in casc["stages"]], "constituents": [",".join(s[1]) for s in casc["stages"]]}))
        sheets["cascades"] = dfs
    return sheets


def make_framework(spec):
    import atomica as at

    F = at.ProjectFramework()
    for k, v in framework_tables(spec).items():
        F.sheets[k] = v
    F._validate()
    return F


def _fill_ts(ts, d):
    """d: {"a": x} and/or {"t": [...], "v": [...]} ; optional "s" (sigma)"""
    if d.get("a") is not None:
        ts.insert(None, float(d["a"]))
    for t, v in zip(d.get("t", []), d.get("v", [])):
        ts.insert(float(t), float(v))
    if d.get("s") is not None:
        ts.sigma = float(d["s"])


def make_data(spec, F):
    import atomica as at

    types = spec.get("pop_types") or ["default"]
    data = spec["data"]
    pops = {}
    for p in spec["pops"]:
        if isinstance(p, str):
            pops[p] = {"label": "Pop " + p, "type": types[0]}
        else:
            pops[p["name"]] = {"label": "Pop " + p["name"], "type": p.get("type", types[0])}
    transfers = {tr["name"]: {"label": "Transfer " + tr["name"], "type": tr.get("type", types[0])} for tr in data.get("tr", [])}
    D = at.ProjectData.new(F, np.array(data["years"], dtype=float), pops=pops, transfers=transfers)
    for q, bypop in data["q"].items():
        if q not in D.tdve:
            raise HarnessError("spec has data for %s which is not a databook quantity" % q)
        for pop, d in bypop.items():
            _fill_ts(D.tdve[q].ts[pop], d)
    # quantities entered as a single "All" row (same value for every population of the type)
    for q in data.get("all_rows") or []:
        tdve = D.tdve[q]
        first = list(data["q"][q].keys())[0]
        ts_all = tdve.ts[first].copy()
        own = (data.get("all_rows_own") or {}).get(q, [])
        for k in list(tdve.ts.keys()):
            if k not in own:
                del tdve.ts[k]
        tdve.ts["All"] = ts_all
    for tr in data.get("tr", []):
        tdc = [x for x in D.transfers if x.code_name == tr["name"]][0]
        for key, e in tr["e"].items():
            a, b = key.split(">")
            ts = at.TimeSeries(units=UNITS[e["u"]])
            _fill_ts(ts, e)
            tdc.ts[(a, b)] = ts
    for name, entries in (data.get("iw") or {}).items():
        tdc = [x for x in D.interpops if x.code_name == name][0]
        for key, e in entries.items():
            a, b = key.split(">")
            ts = at.TimeSeries(units="N.A.")
            _fill_ts(ts, e if isinstance(e, dict) else {"a": e})
            tdc.ts[(a, b)] = ts
    return D


def make_project(spec, F=None, D=None):
    import atomica as at

    F = F or make_framework(spec)
    D = D or make_data(spec, F)
    P = at.Project(framework=F, databook=D, do_run=False)
    s = spec["settings"]
    P.settings.update_time_vector(start=s["start"], end=s["end"], dt=s["dt"])
    ps = P.parsets[0]
    apply_factors(spec, ps)
    return P, ps


def apply_factors(spec, ps):
    data = spec["data"]
    for q, bypop in data["q"].items():
        m = {d.get("m") for d in bypop.values() if isinstance(d, dict)} - {None}
        if m and q in ps.pars:
            ps.pars[q]._interpolation_method = sorted(m)[0]  # per-parameter interpolation method of the parameter set (default 'linear')
    for q, bypop in (data.get("yf") or {}).items():
        for pop, f in bypop.items():
            ps.pars[q].y_factor[pop] = f
    for q, f in (data.get("myf") or {}).items():
        ps.pars[q].meta_y_factor = f
    for tr in data.get("tr", []):
        for key, e in tr["e"].items():
            a, b = key.split(">")
            if e.get("yf") is not None:
                ps.transfers[tr["name"]][a].y_factor[b] = e["yf"]


def make_progset(spec, F, D):
    import atomica as at

    pg = spec.get("progs")
    if not pg:
        return None, None
    progset = at.ProgramSet.new(tvec=np.array(pg["years"], dtype=float), progs={p["name"]: "Prog " + p["name"] for p in pg["progs"]}, framework=F, data=D)
    for p in pg["progs"]:
        prog = progset.programs[p["name"]]
        prog.target_pops = list(p["pops"])
        prog.target_comps = list(p["comps"])
        _fill_ts(prog.spend_data, p["spend"])
        _fill_ts(prog.unit_cost, p["cost"])
        if p.get("per_year"):
            prog.unit_cost.units = "$/person/year"
        elif p.get("legacy_units"):
            prog.unit_cost.units = "$/person"  # the older spelling of a one-off unit cost (no "(one-off)" marker), still found in program books
        if p.get("cap"):
            _fill_ts(prog.capacity_constraint, p["cap"])
            prog.capacity_constraint.units = "people/year" if p.get("cap_per_year", True) else "people"
        if p.get("sat"):
            _fill_ts(prog.saturation, p["sat"])
    for c in pg["covouts"]:
        imp = None
        if c.get("imp"):
            imp = ",".join("%s=%r" % (k, float(v)) for k, v in c["imp"].items())
        progset.covouts[(c["par"], c["pop"])] = at.Covout(par=c["par"], pop=c["pop"], progs=dict(c["progs"]), cov_interaction=c.get("ci", "additive"), imp_interaction=imp, uncertainty=c.get("sigma", 0.0), baseline=c["base"])
    ins = spec.get("instr")
    instructions = None
    if ins:

        def tsdict(d):
            out = {}
            for k, e in (d or {}).items():
                ts = at.TimeSeries()
                _fill_ts(ts, e)
                out[k] = ts
            return out

        instructions = at.ProgramInstructions(start_year=ins["start"], stop_year=ins.get("stop"), alloc=tsdict(ins.get("alloc")), coverage=tsdict(ins.get("coverage")), capacity=tsdict(ins.get("capacity")))
    return progset, instructions


def build_all(spec):
    """returns dict with F, D, P, ps, progset, instructions"""
    F = make_framework(spec)
    D = make_data(spec, F)
    P, ps = make_project(spec, F, D)
    progset, instructions = make_progset(spec, F, D)
    return {"F": F, "D": D, "P": P, "ps": ps, "progset": progset, "instructions": instructions}


def run(spec, b=None, name="run"):
    b = b or build_all(spec)
    return b["P"].run_sim(b["ps"], b["progset"], b["instructions"], result_name=name)


def link_key(l):
    return (l.source.pop.name, l.source.name, l.dest.pop.name, l.dest.name, l.parameter.name if l.parameter is not None else "anon")
