"""C16 helpers: content projections, export/rebuild, program generation, calibration file editing, result comparison."""
import io
import os
import shutil
import tempfile

import numpy as np

from . import canon
from .runner import HarnessError

# --------------------------------------------------------------------------- projections


def _f(x):
    return None if canon.is_empty(x) else float(x)


def _units(u):
    return None if canon.is_empty(u) else str(u).strip().lower()


def _attr(o, name):
    try:
        return getattr(o, name)
    except AttributeError:
        return "<attribute %s missing>" % name  # e.g. a slot that was not restored by a binary load


def ts_proj(ts):
    """(units, sigma, assumption, ((t, v), ...))"""
    u, sg, a = _attr(ts, "units"), _attr(ts, "sigma"), _attr(ts, "assumption")
    return (u if isinstance(u, str) and u.startswith("<attribute") else _units(u), sg if isinstance(sg, str) else _f(sg), a if isinstance(a, str) else _f(a), tuple((float(t), float(v)) for t, v in zip(_attr(ts, "t"), _attr(ts, "vals"))))


def proj_data(D):
    out = {"pops": {k: (v["label"], v["type"]) for k, v in D.pops.items()}, "tdve": {}, "transfers": {}, "interactions": {}, "tdc": {}}
    for code, tdve in D.tdve.items():
        out["tdve"][code] = {"name": tdve.name.strip(), "ts": {pop: ts_proj(ts) for pop, ts in tdve.ts.items()}}
    for kind, lst in (("transfers", D.transfers), ("interactions", D.interpops)):
        for tdc in lst:
            out["tdc"][(kind, tdc.code_name)] = (tdc.full_name, tdc.from_pop_type, tdc.to_pop_type, frozenset(tdc.from_pops), frozenset(tdc.to_pops))
            for (a, b), ts in tdc.ts.items():
                out[kind][(tdc.code_name, a, b)] = ts_proj(ts)
    return out


def parse_imp(s):
    """impact interaction string -> {frozenset(programs): value} ; 'best'/'synergistic'/empty -> the lower-cased keyword"""
    if canon.is_empty(s):
        return None
    s = s.strip()
    if s.lower() in ("best", "synergistic"):
        return s.lower()
    out = {}
    for tok in s.split(","):
        combo, val = tok.split("=")
        out[frozenset(x.strip() for x in combo.split("+"))] = float(val)
    return out


def proj_progset(pg):
    # the lists of available populations / parameters are context (taken from the databook / framework when a book is read), not book content
    out = {"programs": {}, "covouts": {}}
    for code, p in pg.programs.items():
        out["programs"][code] = {
            "label": p.label,
            "pops": frozenset(p.target_pops),
            "comps": frozenset(p.target_comps),
            "spend": ts_proj(p.spend_data),
            "unit_cost": ts_proj(p.unit_cost),
            "capacity_constraint": ts_proj(p.capacity_constraint),
            "saturation": ts_proj(p.saturation),
            "coverage": ts_proj(p.coverage),
        }
    for key, c in pg.covouts.items():
        imp = parse_imp(c.imp_interaction)
        if isinstance(imp, dict):
            imp = {"+".join(sorted(k)): v for k, v in imp.items()}
        out["covouts"][tuple(key)] = {"key": (c.par, c.pop), "baseline": _f(c.baseline), "progs": {k: float(v) for k, v in c.progs.items()}, "cov": c.cov_interaction, "imp": imp, "sigma": _f(c.sigma)}
    return out


def _table(df, key=None):
    """DataFrame -> {row key: {column: normalised cell}}"""
    out = {}
    if df is None:
        return out
    d = df if key is None else df.set_index(key)
    for idx, row in zip(d.index, d.to_dict(orient="records")):
        out[idx] = {str(c).strip().lower(): canon.norm_scalar(v) for c, v in row.items()}
    return out


def proj_framework(F):
    out = {"comps": _table(F.comps), "characs": _table(F.characs), "pars": _table(F.pars), "interactions": _table(F.interactions)}
    out["transitions"] = frozenset((a, b, par) for par, pairs in F.transitions.items() for a, b in pairs)
    out["cascades"] = {name: tuple(tuple(canon.norm_scalar(x) for x in row) for row in df.to_numpy(dtype=object).tolist()) for name, df in F.cascades.items()}
    pt = F.sheets["population types"][0]
    out["pop_types"] = _table(pt, "code name") if "code name" in pt.columns else _table(pt)
    pages = F.sheets["databook pages"][0]
    out["pages"] = _table(pages, "datasheet code name")
    if "plots" in F.sheets and len(F.sheets["plots"]):
        out["plots"] = tuple(tuple(canon.norm_scalar(x) for x in row) for row in F.sheets["plots"][0].to_numpy(dtype=object).tolist())
    return out


def proj_calibration(ps):
    out = {"y": {}, "meta": {}, "init": None}
    for name, par in ps.pars.items():
        out["y"][(name, None)] = {k: float(v) for k, v in par.y_factor.items()}
        out["meta"][(name, None)] = float(par.meta_y_factor)
    for store in (ps.transfers, ps.interactions):
        for name, d in store.items():
            for src, par in d.items():
                out["y"][(name, src)] = {k: float(v) for k, v in par.y_factor.items()}
                out["meta"][(name, src)] = float(par.meta_y_factor)
    ini = ps.initialization
    if ini is not None:
        vals = {}
        for k, v in ini.values.items():
            vals[tuple(k)] = tuple(float(x) for x in np.atleast_1d(v))
        out["init"] = {"year": _f(ini.year), "dt": _f(ini.dt), "hash": ini.init_y_factor_hash, "values": vals}
    return out


def proj_parset_values(ps):
    """the values a parameter set simulates with (besides its calibration): {(name, source pop or None): {pop: ts projection}}"""
    out = {}
    for name, par in ps.pars.items():
        out[(name, None)] = {pop: ts_proj(ts) for pop, ts in par.ts.items()}
    for store in (ps.transfers, ps.interactions):
        for name, d in store.items():
            for src, par in d.items():
                out[(name, src)] = {pop: ts_proj(ts) for pop, ts in par.ts.items()}
    return out


def first_field(path):
    """root-cause-ish class of a projection path: drop names, keep the structural field"""
    parts = [p for p in path.split("/") if p]
    if not parts:
        return "root"
    top = parts[0]
    last = parts[-1]
    if "[" in last:
        base, idx = last.split("[", 1)
        idx = "[" + idx
        names = {"[0]": "units", "[1]": "sigma", "[2]": "assumption", "[3]": "series"}
        for k, v in names.items():
            if idx.startswith(k):
                return top + "/" + v
        return top + "/" + idx
    if last.endswith("#len"):
        return top + "/length"
    if len(parts) >= 3 and top in ("covouts", "programs", "comps", "characs", "pars", "interactions"):
        return top + "/" + (last if top in ("covouts", "programs") and len(parts) == 3 else parts[2] if len(parts) > 2 else last)
    return top + ("/entry" if len(parts) > 1 else "")


# --------------------------------------------------------------------------- export / rebuild


def rt_framework(F):
    import atomica as at

    return at.ProjectFramework(F.to_spreadsheet())


def rt_data(D, F):
    import atomica as at

    D2 = at.ProjectData.from_spreadsheet(D.to_spreadsheet(), F)
    D2.validate(F)
    return D2


def rt_progset(pg, F, D):
    import atomica as at

    return at.ProgramSet.from_spreadsheet(pg.to_spreadsheet(), framework=F, data=D, name=pg.name)


def rt_parset(ps, F, D2):
    """parameter set rebuilt from its visible data: the (re-read) databook and its own calibration spreadsheet"""
    import atomica as at

    ps2 = at.ParameterSet(F, D2, ps.name)
    ps2.load_calibration(ps.calibration_spreadsheet())
    return ps2


def simulate(settings, F, ps, pg, instructions, name="run"):
    import atomica as at

    m = at.Model(settings, F, ps, pg, instructions)
    m.process()
    return at.Result(model=m, parset=ps, name=name)


def arrays(res):
    """result arrays with duplicate link keys summed away (canon.result_arrays numbers duplicates by position)"""
    return canon.result_arrays(res)


def compare(a, b, rtol):
    return canon.compare_results(a, b, rtol=rtol)


# --------------------------------------------------------------------------- scratch files


class Scratch:
    def __enter__(self):
        base = os.environ.get("VERIF_SCRATCH")
        if base and os.path.isdir(base):
            self.dir = tempfile.mkdtemp(prefix="c16_", dir=base)
        else:
            self.dir = tempfile.mkdtemp(prefix="c16_")
        return self.dir

    def __exit__(self, *a):
        shutil.rmtree(self.dir, ignore_errors=True)
        return False


# --------------------------------------------------------------------------- calibration files


def calibration_frame(ps):
    """the table ParameterSet.calibration_spreadsheet() writes, read back as a DataFrame with columns par, pop, meta_y_factor, <pops...>"""
    import pandas as pd

    ss = ps.calibration_spreadsheet()
    return pd.read_excel(ss.pandas(), "Y-factors")


def frame_to_spreadsheet(df, extra_sheets=None):
    import pandas as pd
    import sciris as sc

    f = io.BytesIO()
    with pd.ExcelWriter(f, engine="xlsxwriter") as w:
        df.to_excel(w, sheet_name="Y-factors", index=False)
        for name, d in (extra_sheets or {}).items():
            d.to_excel(w, sheet_name=name, index=False, header=False)
    return sc.Spreadsheet(f)


# --------------------------------------------------------------------------- generation (all randomness = Hypothesis draws)

PROG_NAMES = ["Pa", "Pb", "Pc", "Pd"]
NESTED_PROG_NAMES = ["Ga", "Gab", "Ga2", "aG"]  # names (and labels "Prog Ga", "Prog Gab") that are prefixes / substrings of each other
NESTED_POP_NAMES = {"pa": "adults", "pb": "adults2", "pc": "ad"}
NICE = [0.0, 0.5, 1.0, 2.0, 0.25, 10.0, 100.0, 0.1, 1e-3, 12345.678]


def _st():
    from hypothesis import strategies as st

    return st


def number(draw, lo, hi, nice=True):
    """a float in [lo, hi]: exactly representable 'nice' values or full 17-digit floats"""
    st = _st()
    if nice and draw(st.integers(0, 3)) == 0:
        cands = [x for x in NICE if lo <= x <= hi]
        if cands:
            return draw(st.sampled_from(cands))
    return draw(st.floats(min_value=lo, max_value=hi, allow_nan=False, allow_infinity=False))


def outcome_range(fmt):
    return {"rate": (0.0, 2.0), "probability": (0.0, 1.0), "duration": (0.1, 12.0), "proportion": (0.0, 1.0), "number": (0.0, 0.5)}.get(fmt, (0.0, 10.0))


def series(draw, years, lo, hi, sigma_choices, force_both=False):
    """{a?, t?, v?, s?} with at least one value; years is the table's time axis"""
    st = _st()
    form = draw(st.sampled_from(["a", "tv", "tv", "both"])) if not force_both else "both"
    d = {}
    if form in ("a", "both"):
        d["a"] = number(draw, lo, hi)
    if form in ("tv", "both"):
        ys = sorted(draw(st.lists(st.sampled_from(list(years)), unique=True, min_size=1, max_size=len(years))))
        d["t"] = ys
        d["v"] = [number(draw, lo, hi) for _ in ys]
    s = draw(st.sampled_from(sigma_choices))
    if s == "pos":
        s = number(draw, 1e-3, 5.0)
    if s is not None:
        d["s"] = s
    return d


def add_programs(draw, spec, sigma_choices, min_progs=1, max_progs=3, nested_names=False, fine_years=()):
    """mark 1-3 non-timed parameters targetable and add spec['progs'], spec['instr'] (formats of build.make_progset).
    nested_names: program names that contain each other; effects then tend to involve every program and explicit
    interactions between arbitrary subsets, and coverage overwrites make combinations matter (total coverage > 1)"""
    st = _st()
    start, end, dt = spec["settings"]["start"], spec["settings"]["end"], spec["settings"]["dt"]
    pops = [p if isinstance(p, str) else p["name"] for p in spec["pops"]]
    in_links = set()
    for a, b, what in spec["links"]:
        if what != ">":
            in_links.update(what)
    cands = [p for p in spec["pars"] if not p.get("timed") and not p.get("deriv") and (p.get("fmt") != "number" or p["name"] in in_links) and ":flow" not in (p.get("fn") or "")]
    if not cands:
        return False
    tgt = draw(st.lists(st.sampled_from([p["name"] for p in cands]), unique=True, min_size=1, max_size=min(3, len(cands))))
    for p in spec["pars"]:
        if p["name"] in tgt:
            p["tgt"] = True
    fmt_of = {p["name"]: p.get("fmt") for p in spec["pars"]}
    comps = [c["name"] for c in spec["comps"] if c["kind"] == "ord"]
    n = draw(st.integers(max(min_progs, 3) if nested_names else min_progs, max(max_progs, 3) if nested_names else max_progs))
    names = (NESTED_PROG_NAMES if nested_names else PROG_NAMES)[:n]
    years = sorted(set([start - 1.0, start, start + 1.0, start + 2.5, start + 5.0]) | set(fine_years))
    progs = []
    for nm in names:
        p = {
            "name": nm,
            "pops": sorted(draw(st.lists(st.sampled_from(pops), unique=True, min_size=1, max_size=len(pops)))),
            "comps": sorted(draw(st.lists(st.sampled_from(comps), unique=True, min_size=1, max_size=min(3, len(comps))))),
            "spend": series(draw, years, 0.0, 1e5, sigma_choices),
            "cost": series(draw, years, 0.5, 500.0, sigma_choices),
            "per_year": draw(st.booleans()),
        }
        if draw(st.integers(0, 2)) == 0:
            p["cap"] = series(draw, years, 1.0, 1e4, sigma_choices)
            p["cap_per_year"] = draw(st.booleans())
        if draw(st.integers(0, 2)) == 0:
            p["sat"] = series(draw, years, 0.05, 1.0, sigma_choices)
        if draw(st.integers(0, 3)) == 0:
            p["cov"] = series(draw, years, 0.0, 1e4, sigma_choices)
        progs.append(p)
    covouts = []
    for par in tgt:
        lo, hi = outcome_range(fmt_of[par])
        for pop in draw(st.lists(st.sampled_from(pops), unique=True, min_size=1, max_size=len(pops))):
            if nested_names and draw(st.booleans()):
                pr = list(names)
            else:
                pr = draw(st.lists(st.sampled_from(names), unique=True, min_size=0 if len(covouts) else 1, max_size=n))
            c = {"par": par, "pop": pop, "base": number(draw, lo, hi), "progs": {k: number(draw, lo, hi) for k in sorted(pr)}, "ci": draw(st.sampled_from(["additive", "random", "nested"]))}
            if len(pr) >= 2 and (nested_names or draw(st.booleans())):
                import itertools

                combos = [list(k) for r in range(2, len(pr) + 1) for k in itertools.combinations(sorted(pr), r)]
                chosen = draw(st.lists(st.sampled_from(combos), unique_by=tuple, min_size=1, max_size=min(3, len(combos))))
                c["imp"] = {"+".join(k): number(draw, lo, hi) for k in chosen}
            s = draw(st.sampled_from(sigma_choices + [0.0]))
            c["sigma"] = number(draw, 1e-3, 0.5) if s == "pos" else s
            _break_ties(c, lo, hi)
            covouts.append(c)
    spec["progs"] = {"years": years, "progs": progs, "covouts": covouts}
    k = draw(st.integers(0, 3))
    ins = {"start": [start, start + dt, start + 1.0, start - 1.0][k]}
    if draw(st.integers(0, 3)) == 0:
        ins["stop"] = start + draw(st.integers(1, 6)) * 1.0
    if nested_names or draw(st.integers(0, 3)) == 0:
        # coverage overwrites: several programs cover most people at once, so that outcomes of program combinations are used
        cov = {}
        for nm in names:
            if draw(st.integers(0, 3)) > 0:
                cov[nm] = {"a": draw(st.sampled_from([0.9, 0.7, 1.0, 0.5, 0.2]))}
        if cov:
            ins["coverage"] = cov
    spec["instr"] = ins
    return True


def _break_ties(c, lo, hi):
    """single-program outcomes of one effect get pairwise distinct distances from the baseline: with equal distances the
    program that counts as 'best' is decided by the insertion order of Covout.progs, which a program book does not record"""
    seen = []
    for k in sorted(c["progs"]):
        v, n = c["progs"][k], 0
        while any(abs(abs(v - c["base"]) - d) <= 1e-9 * max(1.0, d) for d in seen) and n < 50:
            n += 1
            step = 0.0078125 * n * max(1.0, abs(hi - lo)) / 8
            v = c["progs"][k] + step if c["progs"][k] + step <= hi else c["progs"][k] - step
        c["progs"][k] = v
        seen.append(abs(v - c["base"]))


def rename_pops(spec, mapping):
    """rename populations everywhere in a spec (names that contain each other: 'adults', 'adults2', 'ad')"""
    m = lambda p: mapping.get(p, p)
    pair = lambda k: ">".join(m(x) for x in k.split(">"))
    spec["pops"] = [m(p) if isinstance(p, str) else dict(p, name=m(p["name"])) for p in spec["pops"]]
    data = spec["data"]
    data["q"] = {q: {m(p): e for p, e in bypop.items()} for q, bypop in data["q"].items()}
    data["yf"] = {q: {m(p): f for p, f in bypop.items()} for q, bypop in (data.get("yf") or {}).items()}
    for tr in data.get("tr", []):
        tr["e"] = {pair(k): e for k, e in tr["e"].items()}
    data["iw"] = {w: {pair(k): e for k, e in entries.items()} for w, entries in (data.get("iw") or {}).items()}
    if spec.get("progs"):
        for p in spec["progs"]["progs"]:
            p["pops"] = sorted(m(x) for x in p["pops"])
        for c in spec["progs"]["covouts"]:
            c["pop"] = m(c["pop"])
    return spec


def decorate_data(draw, spec, sigma_choices, p_sigma=0.4, p_both=0.25, dense=False, fine_years=()):
    """add uncertainties and 'assumption + years' entries to the databook part of a drawn spec and make the databook's
    time axis contain every year that is used (documented precondition of the table classes)"""
    st = _st()
    timed = {p["name"] for p in spec["pars"] if p.get("timed")}
    used = set()
    feats = set()

    fine_years = list(fine_years)

    def deco(e, allow_both=True, fmt_lo_hi=None):
        if fine_years and draw(st.integers(0, 2)) == 0:
            # time-specific values in neighbouring columns of a weekly / daily / 0.01-year time axis
            k0 = draw(st.integers(0, len(fine_years) - 2))
            ts = fine_years[k0 : k0 + draw(st.integers(2, 4))]
            ref = (e.get("v") or [e.get("a") if e.get("a") is not None else 0.5])[0]
            have = dict(zip(e.get("t", []), e.get("v", [])))
            for j, t in enumerate(ts):
                have[t] = ref * (1.0 + 0.125 * (j + 1)) if ref else 0.03125 * (j + 1)
            e["t"] = sorted(have)
            e["v"] = [have[t] for t in e["t"]]
            feats.add("fine-time-axis")
        if draw(st.floats(0, 1)) < p_sigma:
            s = draw(st.sampled_from(sigma_choices))
            if s == "pos":
                s = number(draw, 1e-3, 3.0)
            if s is not None:
                e["s"] = s
                if s:
                    feats.add("uncertainty")
        if allow_both and e.get("t") and e.get("a") is None and draw(st.floats(0, 1)) < p_both:
            e["a"] = e["v"][0] if draw(st.booleans()) else number(draw, 0.01, 5.0)
        if e.get("t"):
            used.update(e["t"])
            feats.add("sparse-series" if len(e["t"]) < 3 else "series")
            if e.get("a") is not None:
                feats.add("assumption+years")
        elif e.get("a") is not None:
            feats.add("assumption")

    data = spec["data"]
    for q, bypop in data["q"].items():
        for pop, e in bypop.items():
            if q in timed:
                continue  # timed durations: assumption only, no uncertainty column (ProjectData.new)
            deco(e)
    for tr in data.get("tr", []):
        for key, e in tr["e"].items():
            deco(e)
    for name, entries in (data.get("iw") or {}).items():
        for key, e in list(entries.items()):
            if not isinstance(e, dict):
                entries[key] = e = {"a": e}
            deco(e, allow_both=False)
    base = set(data.get("years") or [])
    start = spec["settings"]["start"]
    if dense:
        base.update(start + k for k in range(-3, 8))
    base.update(fine_years)
    data["years"] = sorted(base | used)
    return feats


def data_features(spec):
    """which of {assumption, assumption+years, sparse-series, series, uncertainty} occur in the databook / program book part of a spec"""
    feats = set()

    def look(e):
        if not isinstance(e, dict):
            feats.add("assumption")
            return
        if e.get("s"):
            feats.add("uncertainty")
        if e.get("t"):
            feats.add("sparse-series" if len(e["t"]) < 3 else "series")
            if e.get("a") is not None:
                feats.add("assumption+years")
            if len(e["t"]) > 1 and min(b - a for a, b in zip(e["t"], e["t"][1:])) <= 0.021:
                feats.add("fine-time-axis")
        elif e.get("a") is not None:
            feats.add("assumption")

    data = spec["data"]
    for bypop in data["q"].values():
        for e in bypop.values():
            look(e)
    for tr in data.get("tr", []):
        for e in tr["e"].values():
            look(e)
    for entries in (data.get("iw") or {}).values():
        for e in entries.values():
            look(e)
    for p in (spec.get("progs") or {}).get("progs", []):
        for k in ("spend", "cost", "cap", "sat", "cov"):
            if p.get(k):
                look(p[k])
    for c in (spec.get("progs") or {}).get("covouts", []):
        if c.get("sigma"):
            feats.add("uncertainty")
    return feats


def covout_probe(pg):
    """outcome of every program effect at a few coverage patterns (all programs at 1.0 / 0.6 / 0.3): what a simulation would use
    when several programs cover the same people, independent of the coverages a particular run happens to reach"""
    out = {}
    names = list(pg.programs.keys())
    for key, c in pg.covouts.items():
        for lab, val in (("all@1", 1.0), ("all@0.6", 0.6), ("all@0.3", 0.3)):
            cov = {n: np.array([val]) for n in names}
            try:
                out[(tuple(key), lab)] = float(c.get_outcome(cov))
            except Exception as e:  # noqa
                out[(tuple(key), lab)] = "raises " + type(e).__name__
    return out


def probe_diff(a, b, rtol=1e-9):
    bad = []
    for k in sorted(set(a) | set(b), key=repr):
        x, y = a.get(k, "<absent>"), b.get(k, "<absent>")
        if isinstance(x, float) and isinstance(y, float):
            if not (abs(x - y) <= rtol * max(1.0, abs(x), abs(y)) or (x != x and y != y)):
                bad.append((k, x, y))
        elif x != y:
            bad.append((k, x, y))
    return bad


# --------------------------------------------------------------------------- content edits that introduce an optional column


def edit_candidates(D, pg, F, target, what):
    """rows (TimeSeries) of the databook tables / transfer+interaction tables / program spending tables where the optional
    content `what` (sigma | assumption | years) can be entered; rows of tables that do not have that column at all come first.
    returns [(label, ts, years of the table, table lacks the column)]"""
    out = []

    def lacks(rows):
        rows = list(rows)
        if what == "sigma":
            return all(ts.sigma is None for ts in rows)
        if what == "assumption":
            return all(ts.assumption is None for ts in rows)
        return all(not ts.has_time_data for ts in rows)

    def can(ts):
        if what == "sigma":
            return ts.sigma is None
        if what == "assumption":
            return ts.assumption is None and ts.has_time_data
        return (not ts.has_time_data) and ts.assumption is not None

    if target == "data":
        timed = {n for n in F.pars.index if F.pars.at[n, "timed"] == "y"}
        for code, tdve in D.tdve.items():
            if code in timed:
                continue  # assumption only, no uncertainty column by design (ProjectData.new)
            lk = lacks(tdve.ts.values())
            for pop, ts in tdve.ts.items():
                if can(ts):
                    out.append(("tdve %s/%s" % (code, pop), ts, list(tdve.tvec), lk))
    elif target == "transfer":
        for tdc in list(D.transfers) + list(D.interpops):
            lk = lacks(tdc.ts.values())
            for key, ts in tdc.ts.items():
                if can(ts):
                    out.append(("%s %s/%s" % (tdc.type, tdc.code_name, key), ts, list(tdc.tvec), lk))
    else:
        for name, prog in pg.programs.items():
            rows = {"spend": prog.spend_data, "unit_cost": prog.unit_cost, "capacity": prog.capacity_constraint, "saturation": prog.saturation}
            for field, ts in rows.items():
                if field in ("capacity", "saturation") and not ts.has_data:
                    continue
                if can(ts):
                    out.append(("program %s/%s" % (name, field), ts, list(pg.tvec), lacks(rows.values())))
    out.sort(key=lambda x: not x[3])  # (stable) column-introducing rows first
    return out


def apply_edit(ts, years, what, value):
    if what == "sigma":
        ts.sigma = float(value)
    elif what == "assumption":
        ts.insert(None, float(value))
    else:
        if not len(years):
            return False
        ts.insert(float(years[0]), float(value))
    return True


def set_auto_columns(D):
    """let the writer decide which optional columns a table gets (the documented None state of write_units / write_uncertainty /
    write_assumption), as in files that were not produced by ProjectData.new (e.g. the library databooks have no 'Uncertainty' column)"""
    timed_like = [t for t in D.tdve.values() if not len(t.tvec)]
    for t in list(D.tdve.values()) + list(D.transfers) + list(D.interpops):
        if t in timed_like:
            continue
        t.write_uncertainty = None
        t.write_assumption = None
