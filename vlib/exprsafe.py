"""Independent validator and evaluator for atomica parameter-function strings and plot strings.

Nothing here imports atomica. The module defines, from the documentation and the property text
(C19), the language a parameter function is allowed to use, decides for any string whether it is
inside that language, lists the names it depends on and evaluates it with plain numpy float
arithmetic.  It is the gate every check must pass a string through before calling the function
object returned by ``atomica.parse_function`` (the parser compiles ``x.tofile('p')``; the harness
must never evaluate a string this module has not classified as ``allowed``).

Language (status ``allowed``)
    numbers (int / float literals), names without a double underscore, flow selectors
    (``a:b``, ``a:``, ``:b``, ``a:b:par``, ``:b:par``, ``a::par``, ``::par``, ``par:flow`` --
    docs/general/Parameters.rst and Population.get_variable; reported as dependencies with ':'
    replaced by '___'), the constant ``pi``, the arithmetic operators ``+ - * / **`` and unary
    ``- +``, the comparison operators ``< <= > >= == !=`` and positional-only calls of the listed
    functions with a sensible number of arguments.

``forbidden``  anything that is a different *kind* of construct: attribute access, subscripts,
    calls of unlisted names, calls whose callee is not a bare name (method calls), keyword / star
    arguments, lambdas, comprehensions, generator expressions, f-strings, walrus, starred, await,
    yield, conditional expressions, boolean operators (and/or/not), bitwise and shift operators,
    containers, string / bytes / None / Ellipsis constants, and any string containing '__'.
    (Python's language reference files ``<< >> & | ^ ~`` and ``and or not`` outside "arithmetic" and
    "comparison" operations; the property admits only those two operator families.)

``unspecified``  constructs on which the property is silent; no assertion is made in either
    direction and they are never evaluated: ``// % @``, ``is / is not / in / not in`` (Python calls
    them arithmetic / comparison operators but they are not real arithmetic), complex and boolean
    constants, a listed function used as a value or with an unexpected number of arguments,
    ``pi(...)``, and strings of 1800 characters or more (the parser has a length guard).

``unparseable``  the string is not a Python expression, neither as written nor after replacing
    flow selectors (or, as the parser documents, every ':') by identifiers.

Strings containing ':' have up to three readings (plain Python, documented selectors, blanket
':' -> '___'); see validate_function. Expressions nested more than MAX_DEPTH levels are 'unspecified'
(recursion limits are a resource question).
"""
import ast
import re
import math
import numpy as np

# ---------------------------------------------------------------------------- the listed functions
# arity: (min, max) number of positional arguments that have a mathematical meaning; max None = any
FUNCTIONS = {
    "max": (1, None),
    "min": (1, None),
    "exp": (1, 1),
    "floor": (1, 1),
    "cos": (1, 1),
    "sin": (1, 1),
    "sqrt": (1, 1),
    "ln": (1, 1),
    "sdiv": (2, 2),
    "rand": (0, None),
    "randn": (0, None),
    "SRC_POP_AVG": (1, 4),
    "TGT_POP_AVG": (1, 4),
    "SRC_POP_SUM": (1, 4),
    "TGT_POP_SUM": (1, 4),
    "STITCH_AVG": (1, None),
    "STITCH_SUM": (1, None),
}
CONSTANTS = {"pi": math.pi}
LISTED = set(FUNCTIONS) | set(CONSTANTS)
DETERMINISTIC = {"max", "min", "exp", "floor", "cos", "sin", "sqrt", "ln", "sdiv"}  # evaluable here
MAX_LEN = 1800  # the parser refuses strings of this length or more
MAX_DEPTH = 150  # nesting deeper than this is a resource question (the parser hits recursion limits near 450): 'unspecified'

ARITH_BINOPS = (ast.Add, ast.Sub, ast.Mult, ast.Div, ast.Pow)
ARITH_UNARY = (ast.USub, ast.UAdd)
COMPARE_OPS = (ast.Lt, ast.LtE, ast.Gt, ast.GtE, ast.Eq, ast.NotEq)
GREY_BINOPS = (ast.FloorDiv, ast.Mod, ast.MatMult)
GREY_CMPOPS = (ast.Is, ast.IsNot, ast.In, ast.NotIn)

_IDENT = r"[A-Za-z_][A-Za-z0-9_]*"
# a flow selector: [source]:[dest][:par], at least one identifier, not glued to other word characters / colons / dots
_SELECTOR = re.compile(r"(?<![\w:.])(%s)?:(%s)?(?::(%s))?(?![\w:])" % (_IDENT, _IDENT, _IDENT))
_KEYWORDS = {"lambda", "else", "if", "for", "in", "is", "not", "and", "or", "await", "yield", "from", "None", "True", "False", "async", "with", "as"}
_PARSE_ERRORS = (SyntaxError, ValueError, MemoryError, RecursionError, OverflowError)


class NotAllowed(Exception):
    """evaluate() was asked to evaluate a string that is not in the allowed, evaluable language."""


class Verdict(object):
    """status: allowed | forbidden | unspecified | unparseable  (plot strings also: verbatim).

    node     = class name of the first offending ast node in pre-order, or a pseudo-node
               ('DoubleUnderscore', 'Call-unlisted', 'Call-method', 'Call-indirect', 'Call-keyword',
               'Call-star', 'Constant-str', ...)
    depth    = nesting depth of that node (root expression = 1)
    names    = free names (selector names mangled with '___'); meaningful when a tree exists
    features = {'div','pow','compare','call','selector','fn:<name>',...}
    """

    def __init__(self, status, node=None, reason="", depth=0, names=(), tree=None, py_src=None, features=(), problems=()):
        self.status = status
        self.node = node
        self.reason = reason
        self.depth = depth
        self.names = set(names)
        self.tree = tree
        self.py_src = py_src
        self.features = set(features)
        self.problems = list(problems)

    def __repr__(self):
        return "Verdict(%s, node=%s, depth=%s, reason=%r)" % (self.status, self.node, self.depth, self.reason)


def mangle_selectors(src):
    """Replace every flow selector by the identifier atomica reports for it (':' -> '___').

    Returns (python_source, list_of_selectors). Colons that are not part of a selector are left for
    Python's parser.
    """
    found = []

    def rep(m):
        text = m.group(0)
        a, b, c = m.group(1), m.group(2), m.group(3)
        if a is None and b is None and c is None:
            return text  # a bare ':' or '::'
        if a in _KEYWORDS or b in _KEYWORDS or c in _KEYWORDS:
            return text  # 'lambda:' / 'else:' are not selectors
        found.append(text)
        return text.replace(":", "___")

    return _SELECTOR.sub(rep, src), found


def _const_problem(v):
    if isinstance(v, bool):
        return ("unspecified", "Constant-bool", "boolean constant")
    if isinstance(v, (int, float)):
        return None
    if isinstance(v, complex):
        return ("unspecified", "Constant-complex", "complex constant")
    if isinstance(v, str):
        return ("forbidden", "Constant-str", "string constant")
    if isinstance(v, bytes):
        return ("forbidden", "Constant-bytes", "bytes constant")
    if v is None:
        return ("forbidden", "Constant-None", "None constant")
    if v is Ellipsis:
        return ("forbidden", "Constant-Ellipsis", "Ellipsis constant")
    return ("forbidden", "Constant-" + type(v).__name__, "non-numeric constant")


def _dunder(text, depth, out):
    if isinstance(text, str) and "__" in text:
        out.append(("forbidden", "DoubleUnderscore", "double underscore in %r" % text[:40], depth))


def _expr_children(node):
    """direct expression children of any node, looking through helper nodes (comprehension, keyword, arguments...)"""
    for child in ast.iter_child_nodes(node):
        if isinstance(child, ast.expr):
            yield child
        elif isinstance(child, (ast.expr_context, ast.operator, ast.unaryop, ast.cmpop, ast.boolop)):
            continue
        else:
            for sub in _expr_children(child):
                yield sub


def _walk(node, depth, out, names, features, callee=False):
    """pre-order walk; appends (status, node, reason, depth) problems to out"""
    if isinstance(node, ast.Expression):
        _walk(node.body, depth, out, names, features)
        return
    if isinstance(node, ast.Constant):
        p = _const_problem(node.value)
        if p:
            out.append(p + (depth,))
        if isinstance(node.value, str):
            _dunder(node.value, depth, out)
        return
    if isinstance(node, ast.Name):
        _dunder(node.id, depth, out)
        if not isinstance(node.ctx, ast.Load):
            out.append(("forbidden", "Name-" + type(node.ctx).__name__, "name is assigned to", depth))
        if node.id in FUNCTIONS:
            if not callee:
                out.append(("unspecified", "Name-function-as-value", "listed function %s used as a value" % node.id, depth))
        elif node.id in CONSTANTS:
            if callee:
                out.append(("unspecified", "Call-constant", "%s is not a function" % node.id, depth))
        else:
            if callee:
                out.append(("forbidden", "Call-unlisted", "call of unlisted function %s" % node.id, depth - 1))
            else:
                names.add(node.id)
        return
    if isinstance(node, ast.BinOp):
        if isinstance(node.op, ARITH_BINOPS):
            if isinstance(node.op, ast.Div):
                features.add("div")
            if isinstance(node.op, ast.Pow):
                features.add("pow")
        elif isinstance(node.op, GREY_BINOPS):
            out.append(("unspecified", type(node.op).__name__, "operator outside ordinary real arithmetic", depth))
        else:
            out.append(("forbidden", type(node.op).__name__, "bitwise / shift operator", depth))
        _walk(node.left, depth + 1, out, names, features)
        _walk(node.right, depth + 1, out, names, features)
        return
    if isinstance(node, ast.UnaryOp):
        if not isinstance(node.op, ARITH_UNARY):
            out.append(("forbidden", type(node.op).__name__, "boolean / bitwise unary operator", depth))
        _walk(node.operand, depth + 1, out, names, features)
        return
    if isinstance(node, ast.Compare):
        features.add("compare")
        if len(node.ops) > 1:
            features.add("chained-compare")
        for op in node.ops:
            if isinstance(op, GREY_CMPOPS):
                out.append(("unspecified", type(op).__name__, "identity / membership test", depth))
            elif not isinstance(op, COMPARE_OPS):
                out.append(("forbidden", type(op).__name__, "unknown comparison operator", depth))
        _walk(node.left, depth + 1, out, names, features)
        for c in node.comparators:
            _walk(c, depth + 1, out, names, features)
        return
    if isinstance(node, ast.Call):
        features.add("call")
        if not isinstance(node.func, ast.Name):
            out.append(("forbidden", "Call-method" if isinstance(node.func, ast.Attribute) else "Call-indirect", "callee is not a bare name", depth))
            _walk(node.func, depth + 1, out, names, features)
        else:
            _walk(node.func, depth + 1, out, names, features, callee=True)
            if node.func.id in FUNCTIONS:
                features.add("fn:" + node.func.id)
                lo, hi = FUNCTIONS[node.func.id]
                n = len(node.args)
                if not any(isinstance(a, ast.Starred) for a in node.args) and not node.keywords and (n < lo or (hi is not None and n > hi)):
                    out.append(("unspecified", "Call-arity", "%s called with %d arguments" % (node.func.id, n), depth))
        for a in node.args:
            if isinstance(a, ast.Starred):
                out.append(("forbidden", "Call-star", "star argument", depth))
                _walk(a.value, depth + 1, out, names, features)
            else:
                _walk(a, depth + 1, out, names, features)
        for k in node.keywords:
            out.append(("forbidden", "Call-keyword", "keyword argument" if k.arg else "double-star argument", depth))
            _dunder(k.arg, depth, out)
            _walk(k.value, depth + 1, out, names, features)
        return
    # every other node type is a different kind of construct
    out.append(("forbidden", type(node).__name__, "construct outside the parameter-function language", depth))
    if isinstance(node, ast.Attribute):
        _dunder(node.attr, depth, out)
    for child in _expr_children(node):
        _walk(child, depth + 1, out, names, features)


def _depth_of(tree):
    """nesting depth of the tree (iterative: must not hit the recursion limit itself)"""
    deepest, stack = 0, [(tree, 0)]
    while stack:
        node, d = stack.pop()
        deepest = max(deepest, d)
        for child in ast.iter_child_nodes(node):
            stack.append((child, d + 1))
    return deepest


def _classify(tree, src, py_src, selectors):
    out, names, features = [], set(), set()
    try:
        _walk(tree, 1, out, names, features)
    except RecursionError:
        # too deep for the recursive walk: fall back to a flat scan that can only say forbidden / unspecified
        flat = [type(n).__name__ for n in ast.walk(tree) if isinstance(n, ast.expr) and not isinstance(n, (ast.BinOp, ast.UnaryOp, ast.Compare, ast.Name, ast.Constant, ast.Call))]
        if flat or "__" in src:
            return Verdict("forbidden", "DoubleUnderscore" if "__" in src else flat[0], "disallowed construct in a very deep expression", 2, tree=tree)
        return Verdict("unspecified", "TooDeep", "expression nested too deeply for the validator", 1, tree=tree)
    if selectors:
        features.add("selector")
    deepest = _depth_of(tree)
    if deepest > MAX_DEPTH:
        out.append(("unspecified", "TooDeep", "expression nested %d levels deep" % deepest, 1))
    if "__" not in src:
        out = [o for o in out if o[1] != "DoubleUnderscore"]  # '___' of a mangled selector is not a dunder
    kw = dict(names=names, tree=tree, py_src=py_src, features=features, problems=out)
    if "__" in src:
        # the guard is on the text: it also covers dunders hidden in comments / format specs
        d = [o[3] for o in out if o[1] == "DoubleUnderscore"]
        return Verdict("forbidden", "DoubleUnderscore", "double underscore in the string", d[0] if d else 1, **kw)
    forb = [o for o in out if o[0] == "forbidden"]
    if forb:
        st, node, reason, depth = forb[0]
        return Verdict(st, node, reason, depth, **kw)
    grey = [o for o in out if o[0] == "unspecified"]
    if grey:
        st, node, reason, depth = grey[0]
        return Verdict(st, node, reason, depth, **kw)
    if len(src) >= MAX_LEN:
        return Verdict("unspecified", "TooLong", "string of %d characters" % len(src), 1, **kw)
    return Verdict("allowed", None, "", 0, **kw)


def _try_parse(text):
    try:
        return ast.parse(text, mode="eval")
    except _PARSE_ERRORS:
        return None


def validate_function(src):
    """Classify a parameter-function string. Never evaluates anything.

    A string without ':' is read as plain Python. With a ':' there are up to three readings: plain
    Python (``lambda q: 0``, ``{1: 2}``, ``x[1:2]``, ``(y := 1)``), documented flow selectors replaced
    by identifiers, and the parser's documented blanket replacement of every ':' by '___'
    (``lambda:x`` is then just an odd name). The string is ``forbidden`` when every reading Python can
    parse contains a disallowed construct, ``allowed`` when the selector reading is inside the
    language and no reading objects, ``unspecified`` when the readings disagree.
    """
    if not isinstance(src, str):
        return Verdict("forbidden", "NotAString", "not a string")
    readings = []  # (name, verdict); the reading the parser compiles comes first
    if ":" in src:
        blunt = src.replace(":", "___")
        t = _try_parse(blunt)
        if t is not None:
            readings.append(("blunt", _classify(t, src, blunt, [":"])))
        py_src, selectors = mangle_selectors(src)
        if selectors:
            t = _try_parse(py_src)
            if t is not None:
                readings.append(("selector", _classify(t, src, py_src, selectors)))
    t = _try_parse(src)
    if t is not None:
        readings.append(("raw", _classify(t, src, src, [])))
    if not readings:
        if "__" in src:
            return Verdict("forbidden", "DoubleUnderscore", "double underscore (and not a Python expression)", 1)
        return Verdict("unparseable", "SyntaxError", "not a Python expression")
    if ":" not in src or "__" in src:
        return readings[0][1]
    by = dict(readings)
    if all(v.status == "forbidden" for v in by.values()):
        return readings[0][1]
    sel = by.get("selector")
    if sel is not None and sel.status in ("allowed", "unspecified") and not any(v.status == "forbidden" for v in by.values()):
        return sel
    first = readings[0][1]
    return Verdict("unspecified", "AmbiguousColon", "readings of ':' disagree: %s" % ", ".join("%s=%s" % (k, v.status) for k, v in readings), 1, names=first.names, tree=first.tree, py_src=first.py_src, features=first.features, problems=first.problems)


def free_names(src):
    """Names the string depends on, as atomica must report them (':' -> '___')."""
    v = validate_function(src)
    if v.tree is None:
        raise NotAllowed("cannot list names of %r: %r" % (src, v))
    return set(v.names)


# ---------------------------------------------------------------------------- evaluator

BOUND = 1e12  # intermediate magnitudes above this are outside the compared domain (int/float semantics, overflow)
U = 2.0 ** -48  # relative rounding error granted to every elementary operation (16 eps: numpy SIMD vs libm paths differ by ulps)


class _Val(object):
    """value, validity mask, running absolute error bound, truth-value flag"""

    __slots__ = ("v", "ok", "err", "is_bool", "inty")

    def __init__(self, v, ok, err, is_bool=False, inty=False):
        self.v = v
        self.ok = ok
        self.err = err
        self.is_bool = is_bool
        self.inty = inty or is_bool  # the implementation under test may hold this value in an integer type


def _num(v, ok, err):
    v = np.asarray(v, dtype=float)
    fin = np.isfinite(v)
    vv = np.where(fin, v, 0.0)
    ok = ok & fin & (np.abs(vv) <= BOUND)
    err = np.asarray(err, dtype=float) + U * np.abs(vv)
    err = np.where(np.isfinite(err), err, np.inf)
    return _Val(v, ok, err)


def _leaf(v):
    inty = isinstance(v, (int, np.integer)) or (isinstance(v, np.ndarray) and v.dtype.kind in "iub")
    try:
        v = np.asarray(v, dtype=float)
    except OverflowError:  # an integer literal beyond the float range
        v = np.asarray(np.inf)
    fin = np.isfinite(v)
    return _Val(v, fin & (np.abs(np.where(fin, v, 0.0)) <= BOUND), np.zeros(v.shape), inty=inty)


def _safe_div(a, b):
    """x/y is 0 where x is 0; undefined where y is 0 and x is not"""
    a, b = np.broadcast_arrays(np.asarray(a, dtype=float), np.asarray(b, dtype=float))
    res = np.zeros(a.shape, dtype=float)
    nz = a != 0
    defined = ~(nz & (b == 0))
    idx = nz & (b != 0)
    res[idx] = a[idx] / b[idx]
    return res, defined


def _div(a, b):
    r, d = _safe_div(a.v, b.v)
    av, bv, ae, be = np.broadcast_arrays(a.v, b.v, a.err, b.err)
    # whether the numerator is exactly 0 must not depend on rounding: |a| <= err(a) with err > 0 is ambiguous
    ambiguous = (ae > 0) & (np.abs(av) <= ae)
    ambiguous = ambiguous | ((be > 0) & (np.abs(bv) <= be) & (av != 0))
    safe_b = np.where(bv == 0, 1.0, np.abs(bv))
    err = np.where(av == 0, 0.0, (ae + np.abs(r) * be) / safe_b)
    return _num(r, a.ok & b.ok & d & ~ambiguous, err)


def _pow(a, b):
    x, y, xe, ye = np.broadcast_arrays(a.v, b.v, a.err, b.err)
    bad = ((x < 0) & (y != np.floor(y))) | ((x == 0) & (y <= 0))
    bad = bad | ((x < 0) & (ye > 0))  # integer exponent must be exact
    bad = bad | ((xe > 0) & (np.abs(x) <= 2 * xe))  # base not safely away from 0 / sign change
    if a.inty and b.inty:
        # integer ** negative integer: numpy integer types refuse it (for the whole array), Python ints do not: type semantics, outside the property
        bad = bad | np.any(y < 0)
    r = np.power(np.where(bad, 1.0, x), np.where(bad, 1.0, y))
    ax = np.where((x == 0) | bad, 1.0, np.abs(x))
    err = np.abs(r) * (np.abs(y) * xe / ax + np.abs(np.log(ax)) * ye)
    err = np.where(x == 0, 0.0, err)
    res = _num(r, a.ok & b.ok & ~bad, err)
    res.inty = a.inty and b.inty
    return res


def _ev(node, env):
    if isinstance(node, ast.Expression):
        return _ev(node.body, env)
    if isinstance(node, ast.Constant):
        return _leaf(node.value)
    if isinstance(node, ast.Name):
        if node.id in CONSTANTS:
            return _leaf(CONSTANTS[node.id])
        if node.id not in env:
            raise KeyError(node.id)
        return _leaf(env[node.id])
    if isinstance(node, ast.UnaryOp):
        a = _ev(node.operand, env)
        if a.is_bool:
            raise NotAllowed("arithmetic on a truth value")
        return _Val(-a.v if isinstance(node.op, ast.USub) else +a.v, a.ok, a.err, inty=a.inty)
    if isinstance(node, ast.BinOp):
        a, b = _ev(node.left, env), _ev(node.right, env)
        ok = a.ok & b.ok
        if isinstance(node.op, ast.Mult):
            if a.is_bool and b.is_bool:
                raise NotAllowed("product of two truth values")
            av, bv = np.asarray(a.v, dtype=float), np.asarray(b.v, dtype=float)
            r = _num(av * bv, ok, np.abs(av) * b.err + np.abs(bv) * a.err + a.err * b.err)
            r.inty = a.inty and b.inty
            return r
        if a.is_bool or b.is_bool:
            raise NotAllowed("arithmetic on a truth value (only truth*number is in the domain)")
        if isinstance(node.op, (ast.Add, ast.Sub)):
            r = _num(a.v + b.v if isinstance(node.op, ast.Add) else a.v - b.v, ok, a.err + b.err)
            r.inty = a.inty and b.inty
            return r
        if isinstance(node.op, ast.Div):
            return _div(a, b)
        if isinstance(node.op, ast.Pow):
            return _pow(a, b)
        raise NotAllowed(type(node.op).__name__)
    if isinstance(node, ast.Compare):
        if len(node.ops) != 1:
            raise NotAllowed("chained comparison")
        a, b = _ev(node.left, env), _ev(node.comparators[0], env)
        if a.is_bool or b.is_bool:
            raise NotAllowed("comparison of a truth value")
        f = {ast.Lt: np.less, ast.LtE: np.less_equal, ast.Gt: np.greater, ast.GtE: np.greater_equal, ast.Eq: np.equal, ast.NotEq: np.not_equal}[type(node.ops[0])]
        tot = a.err + b.err
        ambiguous = (tot > 0) & (np.abs(a.v - b.v) <= tot)
        r = np.asarray(f(a.v, b.v))
        return _Val(r, np.asarray(a.ok & b.ok & ~ambiguous), np.zeros(r.shape), True)
    if isinstance(node, ast.Call):
        name = node.func.id
        if name not in DETERMINISTIC:
            raise NotAllowed("%s cannot be evaluated by the reference" % name)
        args = [_ev(a, env) for a in node.args]
        if any(a.is_bool for a in args):
            raise NotAllowed("truth value passed to a function")
        if name in ("max", "min"):
            r = args[0]
            v, ok, err = r.v, r.ok, r.err
            for a in args[1:]:
                take = (np.asarray(a.v) > np.asarray(v)) if name == "max" else (np.asarray(a.v) < np.asarray(v))  # written out, not np.maximum
                v = np.where(take, a.v, v)
                err = np.maximum(err, a.err)
                ok = ok & a.ok
            return _Val(np.asarray(v, dtype=float), ok, np.asarray(err, dtype=float), inty=all(a.inty for a in args))
        if name == "sdiv":
            return _div(args[0], args[1])
        a = args[0]
        x = a.v
        if name == "exp":
            xx = np.where(a.ok, x, 0.0)
            r = np.exp(np.minimum(xx, 700.0))
            return _num(r, a.ok, r * a.err)
        if name == "floor":
            r = np.floor(x)
            ambiguous = (a.err > 0) & (np.floor(x - a.err) != np.floor(x + a.err))
            return _Val(r, a.ok & ~ambiguous, np.zeros(r.shape))
        if name in ("cos", "sin"):
            r = (np.cos if name == "cos" else np.sin)(np.where(a.ok, x, 0.0))
            return _num(r, a.ok & (np.abs(x) <= 1e6), a.err + U * np.abs(x))
        if name == "sqrt":
            bad = (x < 0) | ((a.err > 0) & (x <= 2 * a.err))
            r = np.sqrt(np.where(bad, 1.0, x))
            return _num(r, a.ok & ~bad, a.err / (2 * np.where(r == 0, 1.0, r)) * (r != 0))
        if name == "ln":
            bad = (x <= 0) | ((a.err > 0) & (x <= 2 * a.err))
            xx = np.where(bad, 1.0, x)
            return _num(np.log(xx), a.ok & ~bad, a.err / xx)
    raise NotAllowed(type(node).__name__)


def evaluate(src, env):
    """Reference value of an allowed string.

    env maps dependency names (mangled, as listed by free_names) to floats or 1-d float arrays of one
    common length. Returns (value, valid, err, is_truth): numpy arrays broadcast to the common shape.
    ``valid`` is False where ordinary real arithmetic does not define the value (x/0 with x != 0,
    sqrt / ln / power outside their real domain, 0**0, magnitude above BOUND anywhere on the way)
    or where the value hinges on a rounding error (comparison, floor or zero-numerator test on
    operands closer than their accumulated error bound). ``err`` is a running absolute error bound
    for any evaluation order-preserving floating point implementation (U per operation).
    Raises NotAllowed unless validate_function(src) says ``allowed`` and the expression stays inside
    the evaluable subset (deterministic functions, truth values only at the root or times a number).
    """
    v = validate_function(src)
    if v.status != "allowed":
        raise NotAllowed("refusing to evaluate %r: %r" % (src[:200], v))
    missing = v.names - set(env)
    if missing:
        raise KeyError("no value for %s" % sorted(missing))
    with np.errstate(all="ignore"):
        r = _ev(v.tree, env)
    shape = np.broadcast_shapes(np.shape(r.v), np.shape(r.ok), *[np.shape(env[k]) for k in v.names])  # (np.broadcast takes at most 32 operands)
    return np.broadcast_to(r.v, shape), np.broadcast_to(r.ok, shape), np.broadcast_to(r.err, shape), r.is_bool


# ---------------------------------------------------------------------------- plot strings


def validate_plot_string(src):
    """evaluate_plot_string promises: 'Only allowed to initialize lists and dicts of strings here'.

    A string without '{' and '[' is returned untouched (status 'verbatim'). Otherwise the allowed
    language is List / Dict displays whose leaves are string constants; ``**`` unpacking inside a
    dict display is 'unspecified'; everything else is forbidden.
    """
    if not isinstance(src, str):
        return Verdict("forbidden", "NotAString", "not a string")
    if "{" not in src and "[" not in src:
        return Verdict("verbatim")
    try:
        tree = ast.parse(src, mode="eval")
    except _PARSE_ERRORS as e:
        if "__" in src:
            return Verdict("forbidden", "DoubleUnderscore", "double underscore", 1)
        return Verdict("unparseable", "SyntaxError", "%s: %s" % (type(e).__name__, e))
    problems = []

    def walk(node, depth):
        if isinstance(node, ast.List):
            if not isinstance(node.ctx, ast.Load):
                problems.append(("forbidden", "List-" + type(node.ctx).__name__, depth))
            for e in node.elts:
                walk(e, depth + 1)
        elif isinstance(node, ast.Dict):
            for k in node.keys:
                if k is None:
                    problems.append(("unspecified", "Dict-unpack", depth))
                else:
                    walk(k, depth + 1)
            for x in node.values:
                walk(x, depth + 1)
        elif isinstance(node, ast.Constant) and isinstance(node.value, str):
            pass
        elif isinstance(node, ast.Constant):
            problems.append(("forbidden", "Constant-" + type(node.value).__name__, depth))
        else:
            problems.append(("forbidden", type(node).__name__, depth))

    try:
        walk(tree.body, 1)
    except RecursionError:
        return Verdict("unparseable", "RecursionError", "nested too deeply")
    if "__" in src:
        return Verdict("forbidden", "DoubleUnderscore", "double underscore", 1, tree=tree)
    forb = [p for p in problems if p[0] == "forbidden"]
    if forb:
        return Verdict("forbidden", forb[0][1], "not a list/dict of strings", forb[0][2], tree=tree)
    grey = [p for p in problems if p[0] == "unspecified"]
    if grey:
        return Verdict("unspecified", grey[0][1], "dict unpacking", grey[0][2], tree=tree)
    if len(src) >= MAX_LEN:
        return Verdict("unspecified", "TooLong", "string of %d characters" % len(src), 1, tree=tree)
    return Verdict("allowed", tree=tree)
