"""Reference simulator written from the documentation (docs/general: Parameters.rst, Junctions.rst, Timed-Transitions.rst,
Compartment-Initialization.md, Programs.rst; DESIGN.md Appendix A).  Pure Python / per-cohort, shares no code with atomica and
reads ONLY the ModelSpec (inputs).  Supports what vlib.gen_model generates: ordinary/source/sink/junction/residual-junction/timed
compartments, duration groups with in-group junctions, transfers, functions (own evaluator), aggregations, limits, programs.

run(spec) -> {key: array} with the same keys as vlib.canon.result_arrays (links carry an occurrence counter).
"""
import math
import numpy as np
from . import expr, datainterp, progref

TOL = 1e-6


def n_bins(D_years, dt):
    r = D_years / dt
    k = round(r)
    n = k if abs(r - k) <= 1e-9 * max(1.0, abs(r)) else math.ceil(r)
    return max(1, int(n))


class Unsupported(Exception):
    pass


class RefSim:
    def __init__(self, spec, initial_only=False):
        """initial_only=True: only initial_state / eval_pars at index 0 / flush are used (derivative parameters then simply take
        their databook value, several population types are tolerated as long as they are not involved)"""
        self.spec = spec
        self.initial_only = initial_only
        s = spec["settings"]
        self.start, self.dt = float(s["start"]), float(s["dt"])
        r = (s["end"] - s["start"]) / s["dt"]
        k = round(r)
        self.nsteps = int(k if abs(r - k) <= 1e-9 * max(1.0, abs(r)) else math.ceil(r))
        self.t = self.start + np.arange(self.nsteps + 1) * self.dt
        self.pops = list(spec["pops"])
        self.comps = {c["name"]: c for c in spec["comps"]}
        self.pars = {p["name"]: p for p in spec["pars"]}
        self.characs = {x["name"]: x for x in spec.get("characs", [])}
        self.data = spec["data"]
        if any(p.get("deriv") for p in spec["pars"]) and not initial_only:
            raise Unsupported("derivative parameters")
        if len(spec.get("pop_types") or []) > 1:
            raise Unsupported("several population types")
        # duration groups
        self.group = {}  # comp -> timed parameter
        for a, b, what in spec["links"]:
            if what != ">":
                for p in what:
                    if self.pars[p]["timed"]:
                        self.group[a] = p
        for c in self.comps:
            if c.startswith("jg") and self.comps[c]["kind"] == "junc":
                # in-group junction: group of its feeders
                for a, b, what in spec["links"]:
                    if b == c and a in self.group:
                        self.group[c] = self.group[a]
        # links per population: dict(src, dst, par|None, flush(bool), timed(bool), srcpop, dstpop)
        self.links = []
        for pop in self.pops:
            for a, b, what in spec["links"]:
                if what == ">":
                    self.links.append(self._mk(pop, a, pop, b, None, residual=True))
                else:
                    for p in what:
                        self.links.append(self._mk(pop, a, pop, b, p))
        self.transfer_pars = {}
        for tr in self.data.get("tr", []):
            for key, e in tr["e"].items():
                a, b = key.split(">")
                pname = "%s_%s_to_%s" % (tr["name"], a, b)
                self.transfer_pars[(a, pname)] = e
                for c in self.comps.values():
                    if c["kind"] == "ord":
                        self.links.append(self._mk(a, c["name"], b, c["name"], pname, transfer=True))
        # parameter evaluation order (dependencies among parameters)
        self.order = self._par_order()

    def _mk(self, sp, a, dp, b, par, residual=False, transfer=False):
        flush = par is not None and not transfer and self.pars[par]["timed"]
        same_group = (a in self.group) and (b in self.group) and self.group[a] == self.group[b] and not flush
        return {"sp": sp, "src": a, "dp": dp, "dst": b, "par": (None if flush else par), "flush": flush, "residual": residual, "tp": same_group, "transfer": transfer, "parname": par}

    def _par_order(self):
        deps = {}
        for name, p in self.pars.items():
            d = set()
            fn = p.get("fn")
            if fn:
                if fn.startswith(("SRC_POP_", "TGT_POP_")):
                    args = [a.strip() for a in fn.split("(")[1].rstrip(")").split(",")]
                    for a in (args[0],) + ((args[2],) if len(args) > 2 else ()):
                        if a in self.pars:
                            d.add(a)
                else:
                    for n in expr.names(fn):
                        if n in self.pars:
                            d.add(n)
            if p.get("deriv"):
                d.discard(name)  # a derivative parameter's function may mention the parameter itself (its previous value)
            deps[name] = d
        order, done = [], set()
        names = list(self.pars)
        while len(order) < len(names):
            progressed = False
            for n in names:
                if n not in done and deps[n] <= done:
                    order.append(n)
                    done.add(n)
                    progressed = True
            if not progressed:
                raise Unsupported("cyclic parameter dependencies")
        return order

    # ------------------------------------------------------------------ helpers
    def fac(self, name, pop):
        return self.data.get("yf", {}).get(name, {}).get(pop, 1.0) * self.data.get("myf", {}).get(name, 1.0)

    def size(self, state, pop, c):
        v = state[pop][c]
        return float(np.sum(v)) if isinstance(v, np.ndarray) else float(v)

    def members(self, name):
        if name in self.characs:
            out = []
            for i in self.characs[name]["inc"]:
                out += self.members(i)
            return out
        return [name]

    def charac(self, state, pop, name):
        num = sum(self.size(state, pop, m) for m in self.members(name))
        den = self.characs[name].get("den")
        if den is None:
            return num
        d = self.charac(state, pop, den) if den in self.characs else self.size(state, pop, den)
        if num < TOL:
            return 0.0
        if d > 0:
            return num / d
        return math.inf

    def flows_value(self, linkvals, pop, sel):
        toks = sel.split(":")
        tot = 0.0
        if sel.endswith(":flow"):
            pn = sel[: -len(":flow")]
            for l, v in linkvals:
                if l["sp"] == pop and l["par"] == pn:
                    tot += v
        else:
            if len(toks) == 2:
                toks.append("")
            src, dst, par = toks
            for l, v in linkvals:
                # documented selector forms: "src:" = every link OUT of this population's src (transfers to other populations included),
                # ":dst" = every link INTO this population's dst (transfers from other populations included), "src:dst" = links out of
                # src whose destination is called dst, "::" = the links of this population; an optional third token restricts to a parameter
                if src:
                    if l["sp"] != pop or l["src"] != src:
                        continue
                    if dst and l["dst"] != dst:
                        continue
                elif dst:
                    if l["dp"] != pop or l["dst"] != dst:
                        continue
                elif l["sp"] != pop:
                    continue
                if par and l["parname"] != par:
                    continue
                tot += v
        return tot / self.dt

    def eval_pars(self, state, ti, linkvals=None, only_flow_dependent=False, known=None, snap=None):
        """parameter values at index ti from the given state; parameters depending on flows need linkvals (else they are left out)"""
        t = float(self.t[ti])
        vals = {pop: {} for pop in self.pops} if known is None else known
        instr = self.spec.get("instr")
        progs = self.spec.get("progs")
        active = bool(progs and instr and instr["start"] <= t <= (instr["stop"] if instr.get("stop") else math.inf))
        cov = {}
        if active:
            for q in progs["progs"]:
                elig = sum(self.size(state, pop, c) for pop in q["pops"] for c in q["comps"])
                cov[q["name"]] = progref.coverage_at(q, instr, t, self.dt, elig)["fraction"]
        covouts = {(c["par"], c["pop"]): c for c in (progs["covouts"] if progs else [])}
        prog_scale = {}
        for name in self.order:
            p = self.pars[name]
            fn = p.get("fn")
            if self._depends_on_flow(name) != only_flow_dependent:
                continue
            agg = bool(fn) and fn.startswith(("SRC_POP_", "TGT_POP_"))
            newvals = {}
            for pop in self.pops:
                f = self.fac(name, pop)
                if agg:
                    fname, args = fn.split("(")
                    args = [a.strip() for a in args.rstrip(")").split(",")]
                    q, inter, w = args[0], (args[1] if len(args) > 1 else None), (args[2] if len(args) > 2 else None)

                    def val(other, nm):
                        if nm in self.comps:
                            return self.size(state, other, nm)
                        if nm in self.characs:
                            return self.charac(state, other, nm)
                        return vals[other][nm]

                    num = den = 0.0
                    for other in self.pops:
                        if inter is None:
                            W = 1.0
                        else:
                            key = "%s>%s" % ((other, pop) if fname.startswith("SRC") else (pop, other))
                            went = self.data["iw"].get(inter, {}).get(key)
                            W = datainterp.series_value(went, t) if went else 0.0
                        z = val(other, w) if w else 1.0
                        num += W * z * val(other, q)
                        den += W * z
                    v = num if fname.endswith("SUM") else (num / den if den != 0 else num)
                    v *= f
                elif fn and p.get("deriv"):
                    v = datainterp.series_value(self.data["q"][name][pop], t) * f  # initial value of a derivative parameter
                elif fn:
                    env = {"t": t, "dt": self.dt}
                    for nm in expr.names(fn):
                        if nm in ("t", "dt"):
                            continue
                        if ":" in nm:
                            env[nm] = self.flows_value(linkvals, pop, nm)
                        elif nm in self.comps:
                            env[nm] = self.size(state, pop, nm)
                        elif nm in self.characs:
                            env[nm] = self.charac(state, pop, nm)
                        else:
                            env[nm] = vals[pop][nm]
                    try:
                        v = f * expr.evaluate(fn, env)
                    except expr.Ambiguous as e:
                        from .runner import Discard

                        raise Discard("a parameter function sits on a discontinuity within rounding distance (comparison / floor): the reference value is not determined")
                else:
                    v = datainterp.series_value(self.data["q"][name][pop], t) * f
                if active and (name, pop) in covouts:
                    co_ = covouts[(name, pop)]
                    out, _ = progref.outcome(co_, cov)
                    conv_ = 1.0
                    if p["fmt"] == "number":
                        src = sum(self.size(state, pop, l["src"]) for l in self.links if l["sp"] == pop and l["par"] == name)
                        conv_ = src / self.dt
                    elif p["fmt"] in ("rate", "probability"):
                        conv_ = 1.0 / self.dt
                    out = out * conv_
                    v = out
                    # conditioning of a program outcome (cancellation near full coverage): exact only relative to the outcomes' magnitude
                    mag_ = max([abs(co_["base"])] + [abs(x_) for x_ in co_["progs"].values()] + [abs(float(x_)) for x_ in (co_.get("imp") or {}).values()])
                    prog_scale[(pop, name)] = abs(conv_) * mag_
                newvals[pop] = v
            for pop in self.pops:
                v = newvals[pop]
                if p.get("min") is not None and v < p["min"]:
                    v = p["min"]
                if p.get("max") is not None and v > p["max"]:
                    v = p["max"]
                if snap is not None:
                    # one-step mode: where the value agrees with the given one to 1e-9, continue with the given one, so that
                    # dependents are evaluated from the same inputs (a -1e-17 instead of 0 under a square root is not a rule difference)
                    w = snap.get(pop, {}).get(name)
                    ps_ = prog_scale.get((pop, name), 0.0)
                    if w is not None and (v == w or (math.isfinite(v) and math.isfinite(w) and abs(v - w) <= 1e-9 * max(1.0, abs(v), abs(w), ps_ if math.isfinite(ps_) else 0.0))):
                        v = w
                vals[pop][name] = v
        if not only_flow_dependent:
            for (pop, pname), e in self.transfer_pars.items():
                v = datainterp.series_value(e, t) * (e.get("yf") if e.get("yf") is not None else 1.0)
                lo = 1e-6 if e["u"] == "duration" else 0.0
                vals[pop][pname] = max(v, lo)
        return vals

    def _depends_on_flow(self, name):
        _memo = self.__dict__.setdefault("_flow_memo", {})
        key = name
        if key in _memo:
            return _memo[key]
        fn = self.pars[name].get("fn") or ""
        r = ":" in fn
        if not r and fn and not fn.startswith(("SRC_POP_", "TGT_POP_")):
            r = any(self._depends_on_flow(n) for n in expr.names(fn) if n in self.pars and n != name)
        if not r and fn.startswith(("SRC_POP_", "TGT_POP_")):
            args = [a.strip() for a in fn.split("(")[1].rstrip(")").split(",")]
            r = any(self._depends_on_flow(a) for a in args if a in self.pars)
        _memo[key] = r
        return r

    def par_units(self, l):
        if l["transfer"]:
            return self.transfer_pars[(l["sp"], l["par"])]["u"], 1.0
        p = self.pars[l["par"]]
        return p["fmt"], (p["ts"] if p.get("ts") else 1.0)

    def compute_links(self, state, pvals):
        """list of (link, total) and per-link bins for time-preserving links; also per-timed-compartment outflow per bin"""
        dt = self.dt
        frac = {}
        bypar = {}
        for i, l in enumerate(self.links):
            if l["par"] is not None and self.comps[l["src"]]["kind"] != "junc":
                bypar.setdefault((l["sp"], l["par"]), []).append(i)
        for (pop, pname), idxs in bypar.items():
            l0 = self.links[idxs[0]]
            units, T = self.par_units(l0)
            v = pvals[pop][pname]
            if v < 0:
                v = 0.0
            if v == 0:
                for i in idxs:
                    frac[i] = 0.0
                continue
            if units in ("rate", "probability"):
                f = v * dt / T
            elif units == "duration":
                f = min(dt / (v * T), 1e100)  # any fraction above 1 empties the compartment
            elif units == "number":
                amt = v * dt / T
                if self.comps[l0["src"]]["kind"] == "src":
                    frac[idxs[0]] = amt
                    continue
                tot = sum(self.size(state, self.links[i]["sp"], self.links[i]["src"]) for i in idxs)
                f = min(amt / tot, 1e100) if tot else 0.0
            else:
                raise Unsupported("units %r" % units)
            for i in idxs:
                frac[i] = f
        total = {}
        bins = {}
        outb = {}
        for pop in self.pops:
            for cname, c in self.comps.items():
                if c["kind"] in ("junc", "sink"):
                    continue
                outs = [i for i, l in enumerate(self.links) if l["sp"] == pop and l["src"] == cname]
                if c["kind"] == "src":
                    for i in outs:
                        total[i] = frac[i]
                    continue
                x = state[pop][cname]
                if isinstance(x, np.ndarray):
                    n = len(x)
                    tot = np.zeros(n)
                    for i in outs:
                        if self.links[i]["flush"]:
                            continue
                        if self.links[i]["tp"]:
                            tot[1:] += frac[i]
                        else:
                            tot += frac[i]
                    scale = np.ones(n)
                    big = tot > 1
                    scale[big] = 1.0 / tot[big]
                    out = np.zeros(n)
                    flush_i = None
                    for i in outs:
                        if self.links[i]["flush"]:
                            flush_i = i
                            continue
                        f = x * scale * frac[i]
                        if self.links[i]["tp"]:
                            f[0] = 0.0
                            bins[i] = f
                        total[i] = float(np.sum(f))
                        out += f
                    fl = max(0.0, x[0] - out[0])
                    total[flush_i] = fl
                    out[0] += fl
                    outb[(pop, cname)] = out
                else:
                    tot = sum(frac[i] for i in outs)
                    scale = 1.0 / tot if tot > 1 else 1.0
                    for i in outs:
                        total[i] = x * scale * frac[i]
        # junctions in topological order
        juncs = [c for c in self.comps if self.comps[c]["kind"] == "junc"]
        order = []
        remaining = set(juncs)
        while remaining:
            for j in sorted(remaining):
                ups = {l["src"] for l in self.links if l["dst"] == j and l["src"] in remaining and l["src"] != j}
                if not ups:
                    order.append(j)
                    remaining.discard(j)
                    break
            else:
                raise Unsupported("junction cycle")
        for pop in self.pops:
            for j in order:
                grouped = j in self.group
                ins = [i for i, l in enumerate(self.links) if l["dp"] == pop and l["dst"] == j]
                outs = [i for i, l in enumerate(self.links) if l["sp"] == pop and l["src"] == j]
                if grouped:
                    inflow = 0
                    for i in ins:
                        inflow = inflow + bins[i]
                    if not ins:
                        inflow = np.zeros(1)
                else:
                    inflow = sum(total[i] for i in ins)
                ps = [max(pvals[pop][self.links[i]["par"]], 0.0) if self.links[i]["par"] is not None else None for i in outs]
                s = sum(p for p in ps if p is not None)
                residual = any(self.links[i]["residual"] for i in outs)
                for i, p in zip(outs, ps):
                    if residual:
                        if p is None:
                            f = inflow * (1 - s) if s < 1 else inflow * 0.0
                        else:
                            f = inflow * p / (s if s > 1 else 1.0)
                    else:
                        if s == 0 and not np.any(inflow):
                            f = inflow * 0.0
                        else:
                            with np.errstate(all="ignore"):
                                f = inflow * (p / s) if s != 0 else inflow * math.nan
                    if grouped:
                        f = np.asarray(f, dtype=float)
                        bins[i] = f
                        total[i] = float(np.sum(f))
                    else:
                        total[i] = float(f)
        return total, bins, outb

    def step(self, state, total, bins, outb):
        new = {pop: {} for pop in self.pops}
        for pop in self.pops:
            for cname, c in self.comps.items():
                if c["kind"] in ("src", "junc"):
                    new[pop][cname] = 0.0
                    continue
                ins = [i for i, l in enumerate(self.links) if l["dp"] == pop and l["dst"] == cname]
                outs = [i for i, l in enumerate(self.links) if l["sp"] == pop and l["src"] == cname]
                x = state[pop][cname]
                if isinstance(x, np.ndarray):
                    n = len(x)
                    b = x - outb[(pop, cname)]
                    for i in ins:
                        if i in bins:
                            srcb = bins[i]
                            k = len(srcb)
                            if k == n:
                                b = b + srcb
                            elif k < n:
                                b[:k] += srcb
                            else:
                                b = b + srcb[:n]
                                b[-1] += float(np.sum(srcb[n:]))
                    if n > 1:
                        b[:-1] = b[1:].copy()
                        b[-1] = 0.0
                    for i in ins:
                        if i not in bins:
                            b[-1] += total[i]
                    b[b < 0] = 0.0
                    new[pop][cname] = b
                else:
                    v = x - sum(total[i] for i in outs) + sum(total[i] for i in ins)
                    new[pop][cname] = v if c["kind"] == "sink" else max(v, 0.0)
        return new

    def initial_state(self):
        state = {pop: {} for pop in self.pops}
        for pop in self.pops:
            for cname, c in self.comps.items():
                if c["kind"] in ("src", "sink"):
                    state[pop][cname] = 0.0
                    continue
                e = self.data["q"].get(cname, {}).get(pop)
                v = datainterp.series_value(e, self.start) * self.fac(cname, pop) if e else 0.0
                ind = (self.spec.get("indirect_init") or {}).get(cname)
                if ind:
                    # no entry of its own: the databook characteristic (this compartment + one entered compartment) fixes it
                    xe = self.data["q"][ind["charac"]][pop]
                    oe = self.data["q"][ind["other"]][pop]
                    v = max(datainterp.series_value(xe, self.start) * self.fac(ind["charac"], pop) - datainterp.series_value(oe, self.start) * self.fac(ind["other"], pop), 0.0)
                if cname in self.group and c["kind"] != "junc":
                    par = self.group[cname]
                    p = self.pars[par]
                    D = self.data["q"][par][pop]["a"] * self.fac(par, pop) * (p["ts"] if p.get("ts") else 1.0)
                    n = n_bins(D, self.dt)
                    state[pop][cname] = np.full(n, v / n)
                else:
                    state[pop][cname] = v
        return state

    def flush(self, state, pvals):
        juncs = [c for c in self.comps if self.comps[c]["kind"] == "junc"]
        order, remaining = [], set(juncs)
        while remaining:
            for j in sorted(remaining):
                if not {l["src"] for l in self.links if l["dst"] == j and l["src"] in remaining and l["src"] != j}:
                    order.append(j)
                    remaining.discard(j)
                    break
        for pop in self.pops:
            for j in order:
                x = state[pop][j]
                if not (x > 0):
                    continue
                outs = [i for i, l in enumerate(self.links) if l["sp"] == pop and l["src"] == j]
                ps = [max(pvals[pop][self.links[i]["par"]], 0.0) if self.links[i]["par"] is not None else None for i in outs]
                s = sum(p for p in ps if p is not None)
                if any(self.links[i]["residual"] for i in outs):
                    shares = [((1 - s) if s < 1 else 0.0) if p is None else p / (s if s > 1 else 1.0) for p in ps]
                else:
                    shares = [p / s if s != 0 else math.nan for p in ps]
                for i, sh in zip(outs, shares):
                    d = self.links[i]["dst"]
                    cur = state[pop][d]
                    if isinstance(cur, np.ndarray):
                        tot = float(np.sum(cur)) + x * sh
                        state[pop][d] = np.full(len(cur), tot / len(cur))
                    else:
                        state[pop][d] = cur + x * sh
                state[pop][j] = 0.0

    # ------------------------------------------------------------------ run
    def state_from_result(self, res, ti):
        """atomica's own state at index ti in this simulator's representation (for one-step classification of mismatches)"""
        state = {}
        for pop in res.model.pops:
            d = {}
            for c in pop.comps:
                if hasattr(c, "_vals") and getattr(c, "_vals", None) is not None and np.ndim(c._vals) == 2:
                    d[c.name] = np.array(c._vals[:, ti], dtype=float)
                else:
                    d[c.name] = float(np.asarray(c.vals)[ti])
            state[pop.name] = d
        return state

    def run(self, initial=None):
        """initial: optional {(pop, comp): pre-flush size} replacing the sizes read from the databook (used when the initial state is
        the solution of a linear system that atomica only reproduces to its absolute tolerance of 1e-6; C07 decides that step)"""
        T = len(self.t)
        out = {}

        def rec(key, ti, v, shape=None):
            if key not in out:
                out[key] = np.full((T,) if shape is None else shape + (T,), np.nan)
            out[key][..., ti] = v

        state = self.initial_state()
        if initial:
            for (pop, cname), v in initial.items():
                if pop in state and cname in state[pop] and self.comps[cname]["kind"] not in ("src", "sink"):
                    cur = state[pop][cname]
                    state[pop][cname] = np.full(len(cur), float(v) / len(cur)) if isinstance(cur, np.ndarray) else float(v)
        pv = self.eval_pars(state, 0)
        self.flush(state, pv)
        for ti in range(T):
            pv = self.eval_pars(state, ti)
            total, bins, outb = self.compute_links(state, pv)
            linkvals = [(self.links[i], total[i]) for i in range(len(self.links))]
            pv = self.eval_pars(state, ti, linkvals=linkvals, only_flow_dependent=True, known=pv)
            for pop in self.pops:
                for cname, c in self.comps.items():
                    x = state[pop][cname]
                    rec(("comp", pop, cname), ti, float(np.sum(x)) if isinstance(x, np.ndarray) else x)
                    if isinstance(x, np.ndarray):
                        rec(("bins", pop, cname), ti, x, shape=(len(x),))
                for xn in self.characs:
                    rec(("charac", pop, xn), ti, self.charac(state, pop, xn))
                for pn, v in pv[pop].items():
                    rec(("par", pop, pn), ti, v)
            seen = {}
            for i, l in enumerate(self.links):
                k = ("link", l["sp"], l["src"], l["dp"], l["dst"], l["par"] if l["par"] is not None else "anon")
                seen[k] = seen.get(k, 0) + 1
                rec(k + (seen[k],), ti, total[i])
            if ti < T - 1:
                state = self.step(state, total, bins, outb)
        return out
