"""One-step replay of the documented flow rules from atomica's own state (DESIGN.md 1.4, Appendix A).

Nothing here calls atomica code: it reads recorded arrays (state and parameter values at index ti) and predicts
link values at ti and compartment state at ti+1 by the documented rules.
"""
import math
import numpy as np
import networkx as nx
from .build import link_key


def kinds():
    from atomica.model import SourceCompartment, SinkCompartment, JunctionCompartment, ResidualJunctionCompartment, TimedCompartment, TimedLink

    return SourceCompartment, SinkCompartment, JunctionCompartment, ResidualJunctionCompartment, TimedCompartment, TimedLink


class Replay:
    def __init__(self, res):
        self.res = res
        self.m = res.model
        self.dt = float(self.m.dt)
        (self.Src, self.Snk, self.Junc, self.ResJ, self.Timed, self.TLink) = kinds()
        # cache arrays (vals of timed objects are properties that sum on every access)
        self.cv = {}
        self.lv = {}
        self.pv = {}
        for pop in self.m.pops:
            for c in pop.comps:
                self.cv[c] = np.asarray(c.vals, dtype=float)
            for l in pop.links:
                self.lv[l] = np.asarray(l.vals, dtype=float)
            for p in pop.pars:
                self.pv[p] = np.asarray(p.vals, dtype=float)
        G = nx.DiGraph()
        for pop in self.m.pops:
            for c in pop.comps:
                if isinstance(c, self.Junc):
                    G.add_node(c)
                    for l in c.outlinks:
                        if isinstance(l.dest, self.Junc):
                            G.add_edge(c, l.dest)
        self.junction_order = list(nx.topological_sort(G))
        self.trans_pars = [p for pop in self.m.pops for p in pop.pars if p.links and p.units != "proportion"]

    # ------------------------------------------------------------------ requested fractions
    def fractions(self, ti):
        """link -> requested fraction of the source (or the amount itself for a source compartment's link); events list"""
        frac = {}
        events = []
        dt = self.dt
        for par in self.trans_pars:
            v = float(self.pv[par][ti])
            T = float(par.timescale)
            if v < 0:
                events.append(("negative-parameter", par))
                v = 0.0
            if v == 0:
                for l in par.links:
                    frac[l] = 0.0
                continue
            if par.units in ("rate", "probability"):
                f = v * dt / T
            elif par.units == "duration":
                f = dt / (v * T)
            elif par.units == "number":
                amt = v * dt / T
                if isinstance(par.links[0].source, self.Src):
                    frac[par.links[0]] = amt
                    continue
                tot = sum(float(self.cv[l.source][ti]) for l in par.links)
                if tot:
                    f = amt / tot
                else:
                    f = 0.0
                    events.append(("number-from-empty", par))
            else:
                raise ValueError("unexpected units %r" % par.units)
            for l in par.links:
                frac[l] = f
        return frac, events

    # ------------------------------------------------------------------ link prediction
    def predict_links(self, ti):
        """returns (pred totals {link: x}, pred bins {timed link: array}, info)"""
        frac, events = self.fractions(ti)
        pred, pbins = {}, {}
        info = {"events": events, "rescaled": [], "rescaled_bins": []}
        for pop in self.m.pops:
            for c in pop.comps:
                if isinstance(c, (self.Junc, self.Snk)):
                    continue
                if isinstance(c, self.Src):
                    for l in c.outlinks:
                        pred[l] = frac[l]
                    continue
                if isinstance(c, self.Timed):
                    bins = np.array(c._vals[:, ti], dtype=float)
                    n = len(bins)
                    tot = np.zeros(n)
                    for l in c.outlinks:
                        if l is c.flush_link:
                            continue
                        if isinstance(l, self.TLink):
                            tot[1:] += frac[l]
                        else:
                            tot += frac[l]
                    scale = np.ones(n)
                    big = tot > 1
                    scale[big] = 1.0 / tot[big]
                    if big.any():
                        info["rescaled_bins"].append(c)
                    out = np.zeros(n)
                    for l in c.outlinks:
                        if l is c.flush_link:
                            continue
                        f = bins * scale * frac[l]
                        if isinstance(l, self.TLink):
                            f[0] = 0.0
                            pbins[l] = f
                        pred[l] = float(f.sum())
                        out += f
                    pred[c.flush_link] = max(0.0, bins[0] - out[0])
                    pbins[("out", c)] = out
                else:
                    tot = sum(frac[l] for l in c.outlinks)
                    scale = 1.0 / tot if tot > 1 else 1.0
                    if tot > 1:
                        info["rescaled"].append(c)
                    x = float(self.cv[c][ti])
                    for l in c.outlinks:
                        pred[l] = x * scale * frac[l]
        for j in self.junction_order:
            grouped = bool(j.duration_group)
            if grouped:
                inflow = 0
                for l in j.inlinks:
                    inflow = inflow + pbins[l]
            else:
                inflow = sum(pred[l] for l in j.inlinks) if j.inlinks else 0.0
            ps = [max(float(self.pv[l.parameter][ti]), 0.0) if l.parameter is not None else None for l in j.outlinks]  # negative => no flow
            s = sum(p for p in ps if p is not None)
            for l, p in zip(j.outlinks, ps):
                if isinstance(j, self.ResJ):
                    if p is None:
                        f = inflow * max(0.0, 1 - s) if s < 1 else inflow * 0.0
                    else:
                        f = inflow * p / (s if s > 1 else 1.0)
                else:
                    if s == 0 and not np.any(inflow):
                        f = inflow * 0.0
                    else:
                        with np.errstate(all="ignore"):
                            f = inflow * (p / s)  # normalise the proportion first (a denormal proportion times the inflow would underflow)
                if grouped:
                    f = np.asarray(f, dtype=float)
                    pbins[l] = f
                    pred[l] = float(f.sum())
                else:
                    pred[l] = float(f)
        return pred, pbins, info

    # ------------------------------------------------------------------ state prediction
    def predict_next(self, ti, use_recorded_links=True):
        """compartment -> predicted size (ordinary) or bins (timed) at ti+1 from state at ti and the RECORDED links at ti
        (per-bin amounts taken by ordinary links out of timed compartments are recomputed from the rules)"""
        out = {}
        pred, pbins, info = self.predict_links(ti)
        for pop in self.m.pops:
            for c in pop.comps:
                if isinstance(c, (self.Src, self.Junc)):
                    continue
                if isinstance(c, self.Timed):
                    b = np.array(c._vals[:, ti], dtype=float)
                    n = len(b)
                    outb = np.array(pbins[("out", c)])
                    outb[0] += pred[c.flush_link]
                    b = b - outb
                    for l in c.inlinks:
                        if isinstance(l, self.TLink):
                            src = np.array(l._vals[:, ti], dtype=float)
                            k = len(src)
                            if k == n:
                                b += src
                            elif k < n:
                                b[:k] += src
                            else:
                                b += src[:n]
                                b[-1] += src[n:].sum()
                    if n > 1:
                        b[:-1] = b[1:].copy()
                        b[-1] = 0.0
                    for l in c.inlinks:
                        if not isinstance(l, self.TLink):
                            b[-1] += self.lv[l][ti]
                    b[b < 0] = 0
                    out[c] = b
                else:
                    v = float(self.cv[c][ti]) - sum(self.lv[l][ti] for l in c.outlinks) + sum(self.lv[l][ti] for l in c.inlinks)
                    out[c] = v if isinstance(c, self.Snk) else max(v, 0.0)
        return out


def close(a, b, rtol=1e-9):
    return abs(a - b) <= rtol * max(1.0, abs(a), abs(b))
