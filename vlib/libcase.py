"""Library models as a second input source (DESIGN.md 1.1): perturbed library projects run through the same monitors.
A case is plain data: {"lib": name, "start", "dt", "nsteps", "yf": {par: {pop: f}}, "progs": bool, "prog_start": year|None}."""
from hypothesis import strategies as st

LIBS = ["tb_simple", "udt", "usdt", "hypertension", "hiv", "tb", "diabetes", "cervicalcancer", "tb_simple_dyn", "udt_dyn", "hypertension_dyn", "hiv_dyn"]
DTS = [1.0, 0.5, 0.25, 0.2, 0.1, 1 / 12, 1 / 3]
_cache = {}


def project(name):
    import atomica as at

    if name not in _cache:
        P = at.demo(name, do_run=False, addprogs=True)
        pars = []
        ps = P.parsets[0]
        for par in ps.all_pars():
            if par.name in P.framework.pars.index:  # only framework parameters: factors on initial sizes make the databook inconsistent
                pars.append((par.name, list(par.y_factor.keys())))
        _cache[name] = (P, pars)
    return _cache[name]


@st.composite
def lib_cases(draw, max_steps=24, quick=True):
    # 'tb' (10 populations, 30+ compartments) costs seconds per run: thorough tier only
    name = draw(st.sampled_from([x for x in LIBS if not (quick and x == "tb")]))
    dt = draw(st.sampled_from(DTS))
    case = {"lib": name, "dt": dt, "start": draw(st.sampled_from([2000.0, 2005.0, 2010.5, 2016.0])), "nsteps": draw(st.integers(3, max_steps)), "progs": draw(st.booleans())}
    case["yf_picks"] = draw(st.lists(st.tuples(st.integers(0, 10**6), st.integers(0, 10**6), st.sampled_from([0.0, 0.1, 0.5, 2.0, 10.0, 100.0])), max_size=6))
    case["yf_picks"] = [list(x) for x in case["yf_picks"]]
    case["prog_start_step"] = draw(st.integers(0, 5))
    return case


def run(case):
    """returns (P, parset, result)"""
    import atomica as at
    import logging

    at.logger.setLevel(logging.CRITICAL)
    P, pars = project(case["lib"])
    ps = P.parsets[0].copy()
    for i, j, f in case["yf_picks"]:
        name, pops = pars[i % len(pars)]
        if not pops:
            continue
        pop = pops[j % len(pops)]
        par = ps.get_par(name) if name in ps.pars else None
        if par is None or pop not in par.y_factor:
            continue
        spec = P.framework.pars.loc[name] if name in P.framework.pars.index else None
        if spec is not None and (spec["timed"] == "y" or spec["format"] == "duration") and f == 0:
            continue  # a zero duration is not a valid input
        par.y_factor[pop] = f
    settings = at.ProjectSettings(case["start"], case["start"] + case["nsteps"] * case["dt"], case["dt"])
    progset = instr = None
    if case["progs"] and len(P.progsets):
        progset = P.progsets[0]
        instr = at.ProgramInstructions(start_year=case["start"] + case["prog_start_step"] * case["dt"])
    m = at.Model(settings, P.framework, ps, progset, instr)
    pre = {(pop.name, c.name): float(c.vals[0]) if not hasattr(c, "_vals") or c._vals is None or c._vals.ndim != 2 else float(c._vals[:, 0].sum()) for pop in m.pops for c in pop.comps}
    m.process()
    return P, ps, at.Result(model=m, parset=ps, name="lib"), pre
