"""Shared runner: sharded Hypothesis search, replay tier, known findings, evidence.

A property module (props/cXX.py) provides

    ID, RULE, ASSUMPTIONS (list), LEVEL (default "exploration")
    BUDGET = {"quick": n_cases, "thorough": n_cases}      (generated cases, all shards together)
    TIME_CAP = {"quick": seconds, "thorough": seconds}     (generation wall-clock cap per shard; hit => inconclusive)
    strategy(tier)            -> hypothesis strategy producing a JSON-serialisable case
    check(case)               -> dict(nontrivial=bool, labels=[str,...]) ; raises Violation
    static_cases(tier)        -> optional iterable of JSON cases enumerated exhaustively (sharded round-robin)
    MAX_SHARDS                -> optional cap on the number of worker processes

Exit codes: 0 property held on everything explored, 1 violation (VIOLATION line printed), 2 harness error.
"""
import os
import sys
import json
import time
import hashlib
import shutil
import traceback
import subprocess
import importlib
import collections

VERIF = os.path.dirname(os.path.dirname(os.path.abspath(__file__)))
KNOWN_FILE = os.path.join(VERIF, "known_findings.json")
# mutation self-tests and seeded-change runs redirect what a run writes (evidence, new replay files)
OUT_BASE = os.environ.get("VERIF_OUT_DIR", VERIF)


class Violation(Exception):
    """The property does not hold for this case. bucket = root-cause key."""

    def __init__(self, prop, bucket, detail=""):
        super().__init__("%s [%s] %s" % (prop, bucket, detail))
        self.prop = prop
        self.bucket = bucket
        self.detail = detail


class HarnessError(Exception):
    """The harness (generator / builder / oracle) is broken; never a VIOLATION."""


class _CapReached(KeyboardInterrupt):
    """generation time cap of a shard reached (not a failure: the cases not generated are reported as skipped)"""


class Discard(Exception):
    """Case is outside the property's domain (counted, not a violation)."""

    def __init__(self, reason):
        super().__init__(reason)
        self.reason = reason


def setup_paths():
    src = os.environ.get("VERIF_ATOMICA_SRC", "/repo")
    if src not in sys.path:
        sys.path.insert(0, src)
    deps = os.path.join(VERIF, ".deps")
    if os.path.isdir(deps) and deps not in sys.path:
        sys.path.append(deps)
    if VERIF not in sys.path:
        sys.path.insert(0, VERIF)


def ensure_hypothesis():
    try:
        import hypothesis  # noqa
    except ImportError:
        subprocess.run([sys.executable, "-m", "pip", "install", "--no-index", "--find-links", "/opt/veriftools/wheels", "hypothesis"], check=False, stdout=subprocess.DEVNULL, stderr=subprocess.DEVNULL)


def case_hash(case):
    return hashlib.sha1(json.dumps(case, sort_keys=True, default=str).encode()).hexdigest()[:16]


def load_known(prop):
    if not os.path.exists(KNOWN_FILE):
        return []
    with open(KNOWN_FILE) as f:
        data = json.load(f)
    return [e for e in data.get("findings", []) if e.get("property") == prop and e.get("status") == "open"]


def match_known(known, v):
    for e in known:
        b = e.get("bucket")
        if b and (v.bucket == b or (b.endswith("*") and v.bucket.startswith(b[:-1]))):
            return e
    return None


def compact(obj, maxlen=1500):
    s = json.dumps(obj, sort_keys=True, default=str)
    if len(s) <= maxlen:
        return obj
    return {"truncated_json": s[:maxlen] + "...", "full_length": len(s)}


def load_module(pid):
    return importlib.import_module("props." + pid.lower())


# --------------------------------------------------------------------------- shard worker


def run_shard(pid, tier, seed, shard, nshards, outdir):
    setup_paths()
    import warnings

    warnings.filterwarnings("ignore")
    mod = load_module(pid)
    import hypothesis
    from hypothesis import given, settings, HealthCheck, Phase

    known = load_known(pid)
    budget = mod.BUDGET[tier]
    per_shard = max(1, budget // nshards)
    time_cap = getattr(mod, "TIME_CAP", {"quick": 90, "thorough": 1200})[tier]
    time_cap = float(os.environ.get("VERIF_TIME_CAP", time_cap))  # developer override (reproducing a run of an unloaded machine on a loaded one)
    shrink_cap = {"quick": 60, "thorough": 240}[tier]
    st = {
        "evaluations": 0,
        "nontrivial": set(),
        "labels": collections.Counter(),
        "discards": collections.Counter(),
        "known": collections.Counter(),
        "known_samples": {},
        "samples": [],
        "capped": 0,
        "violations": [],
        "static": 0,
        "inconclusive": collections.Counter(),
    }
    t_start = time.time()
    session_excluded = set()
    cur = {"target": None, "last": None, "shrink_start": None, "nfail": 0}

    def run_one(case, shrinking_ok=True):
        """returns None; raises Violation for new (unlisted, non-excluded) violations"""
        st["evaluations"] += 1
        try:
            info = mod.check(case) or {}
        except Discard as d:
            st["discards"][d.reason] += 1
            return
        except Violation as v:
            e = match_known(known, v)
            if e is not None:
                st["known"][e["bucket"]] += 1
                st["known_samples"].setdefault(e["bucket"], compact(case))
                return
            if v.bucket in session_excluded:
                return
            raise
        for lab in info.get("labels", ()):
            st["labels"][lab] += 1
        for k, n in (info.get("inconclusive") or {}).items():
            st["inconclusive"][k] += n
        if info.get("nontrivial"):
            h = case_hash(case)
            st["nontrivial"].add(h)
            if len(st["samples"]) < 3:
                st["samples"].append(compact(case))

    # static (enumerated) cases
    static = getattr(mod, "static_cases", None)
    if static is not None:
        for i, case in enumerate(static(tier)):
            if i % nshards != shard:
                continue
            st["static"] += 1
            try:
                run_one(case)
            except Violation as v:
                st["violations"].append({"bucket": v.bucket, "detail": v.detail[:2000], "case": case, "shrunk": False})
                session_excluded.add(v.bucket)

    # replay tier (saved failures and regression corpus, dealt out over the shards)
    if True:
        rdir = os.path.join(VERIF, "replays", pid)
        if os.path.isdir(rdir):
            for ri, fn in enumerate(sorted(f_ for f_ in os.listdir(rdir) if f_.endswith(".json"))):
                if ri % nshards != shard:
                    continue
                with open(os.path.join(rdir, fn)) as f:
                    rp = json.load(f)
                case = rp["case"] if isinstance(rp, dict) and "case" in rp else rp
                try:
                    run_one(case)
                    st["labels"]["replay-file"] += 1
                except Violation as v:
                    st["violations"].append({"bucket": v.bucket, "detail": v.detail[:2000], "case": case, "shrunk": True, "from_replay": fn})
                    session_excluded.add(v.bucket)

    strategy = mod.strategy(tier) if per_shard > 0 and getattr(mod, "strategy", None) else None
    rounds = 0
    remaining = per_shard
    while strategy is not None and remaining > 0 and rounds < 6 and time.time() - t_start < time_cap:
        rounds += 1
        cur.update(target=None, last=None, shrink_start=None, nfail=0)
        done_before = st["evaluations"]

        @hypothesis.seed(seed * 100003 + shard * 101 + rounds)
        @settings(max_examples=remaining, database=None, deadline=None, derandomize=False, report_multiple_bugs=False, suppress_health_check=list(HealthCheck), phases=[Phase.generate, Phase.shrink])
        @given(strategy)
        def test(case):
            if cur["target"] is None and time.time() - t_start > time_cap:
                st["capped"] += 1
                raise _CapReached()  # leaves Hypothesis at once (it does not intercept KeyboardInterrupt); generating the rest would only cost time
            if cur["target"] is not None and time.time() - cur["shrink_start"] > shrink_cap:
                return  # stop shrinking: everything "passes" from here on
            try:
                run_one(case)
            except Violation as v:
                if cur["target"] is None:
                    cur["target"] = v.bucket
                    cur["shrink_start"] = time.time()
                if v.bucket != cur["target"]:
                    return  # do not slip to another root cause while shrinking
                cur["last"] = (case, v)
                cur["nfail"] += 1
                raise

        try:
            test()
        except _CapReached:
            st["capped"] += max(remaining - (st["evaluations"] - done_before) - 1, 0)
            break
        except (HarnessError, KeyboardInterrupt):
            raise
        except BaseException as e:  # noqa - Violation, Flaky*, or an unexpected error
            if cur["last"] is None:
                raise HarnessError("unexpected exception outside any violation: %r\n%s" % (e, traceback.format_exc()))
            case, v = cur["last"]
            st["violations"].append({"bucket": v.bucket, "detail": v.detail[:2000], "case": case, "shrunk": True, "shrink_failures": cur["nfail"]})
            session_excluded.add(v.bucket)
        used = st["evaluations"] - done_before
        remaining -= max(used, 1)
        if cur["last"] is None:
            break  # ran to completion without a new violation

    out = dict(st)
    out["nontrivial"] = sorted(st["nontrivial"])
    for k in ("labels", "discards", "known", "inconclusive"):
        out[k] = dict(st[k])
    out["wall_s"] = time.time() - t_start
    with open(os.path.join(outdir, "shard%02d.json" % shard), "w") as f:
        json.dump(out, f, default=str)


# --------------------------------------------------------------------------- main


def write_replay(pid, viol):
    rdir = os.path.join(OUT_BASE, "replays", pid)
    os.makedirs(rdir, exist_ok=True)
    h = case_hash(viol["case"])
    path = os.path.join(rdir, "fail_%s.json" % h)
    with open(path, "w") as f:
        json.dump({"property": pid, "bucket": viol["bucket"], "detail": viol["detail"], "case": viol["case"]}, f, indent=1, default=str)
    return path


def replay(pid, path):
    setup_paths()
    import warnings

    warnings.filterwarnings("ignore")
    mod = load_module(pid)
    with open(path) as f:
        rp = json.load(f)
    case = rp["case"] if isinstance(rp, dict) and "case" in rp else rp
    known = load_known(pid)
    try:
        info = mod.check(case)
    except Discard as d:
        print("DISCARDED (outside domain): %s" % d.reason)
        return 0
    except Violation as v:
        e = match_known(known, v)
        if e is not None:
            print("KNOWN-FINDING: property=%s %s" % (pid, e.get("what", e["bucket"])))
            return 0
        print("detail: [%s] %s" % (v.bucket, v.detail[:3000]))
        print("VIOLATION property=%s replay=%s" % (pid, path))
        return 1
    print("replay passed: %s" % json.dumps(info, default=str)[:500])
    return 0


def main(pid, tier, seed, nshards=None, keep_replays=True):
    setup_paths()
    ensure_hypothesis()
    t0 = time.time()
    mod = load_module(pid)
    ncpu = os.cpu_count() or 4
    nshards = nshards or min(ncpu, getattr(mod, "MAX_SHARDS", 16))
    outdir = os.path.join(VERIF, ".scratch", "%s-%d" % (pid, os.getpid()))
    shutil.rmtree(outdir, ignore_errors=True)
    os.makedirs(outdir)
    env = dict(os.environ)
    env.setdefault("PYTHONHASHSEED", "0")
    env["VERIF_SCRATCH"] = outdir
    env["MPLBACKEND"] = "Agg"
    env["OMP_NUM_THREADS"] = env["OPENBLAS_NUM_THREADS"] = env["MKL_NUM_THREADS"] = "1"
    procs = []
    for i in range(nshards):
        cmd = [sys.executable, os.path.join(VERIF, "check.py"), pid, "--tier", tier, "--shard", str(i), "--nshards", str(nshards), "--out", outdir, "--seed", str(seed)]
        log = open(os.path.join(outdir, "shard%02d.log" % i), "w")
        procs.append((subprocess.Popen(cmd, env=env, stdout=log, stderr=subprocess.STDOUT, cwd=VERIF), log))
    rcs = []
    for p, log in procs:
        rcs.append(p.wait())
        log.close()
    harness_fail = False
    shards = []
    for i, rc in enumerate(rcs):
        fn = os.path.join(outdir, "shard%02d.json" % i)
        if rc != 0 or not os.path.exists(fn):
            harness_fail = True
            with open(os.path.join(outdir, "shard%02d.log" % i)) as f:
                sys.stderr.write("---- shard %d failed (rc=%s) ----\n%s\n" % (i, rc, f.read()[-6000:]))
            continue
        with open(fn) as f:
            shards.append(json.load(f))
    if harness_fail and not shards:
        print("HARNESS ERROR property=%s (no shard finished)" % pid)
        shutil.rmtree(outdir, ignore_errors=True)
        return 2
    agg = {"evaluations": 0, "static": 0, "capped": 0}
    nontrivial = set()
    labels, discards, knownc, inconcl = collections.Counter(), collections.Counter(), collections.Counter(), collections.Counter()
    samples, violations, known_samples = [], [], {}
    for s in shards:
        agg["evaluations"] += s["evaluations"]
        agg["static"] += s["static"]
        agg["capped"] += s["capped"]
        nontrivial.update(s["nontrivial"])
        labels.update(s["labels"])
        discards.update(s["discards"])
        knownc.update(s["known"])
        inconcl.update(s["inconclusive"])
        for k, v in s["known_samples"].items():
            known_samples.setdefault(k, v)
        if len(samples) < 4:
            samples.extend(s["samples"][: 4 - len(samples)])
        violations.extend(s["violations"])
    # one violation per bucket, smallest case first
    by_bucket = {}
    for v in violations:
        cur = by_bucket.get(v["bucket"])
        if cur is None or len(json.dumps(v["case"], default=str)) < len(json.dumps(cur["case"], default=str)):
            by_bucket[v["bucket"]] = v
    known = load_known(pid)
    for e in known:
        if knownc.get(e["bucket"]):
            print("KNOWN-FINDING: property=%s %s (seen %d times this run)" % (pid, e.get("what", e["bucket"]), knownc[e["bucket"]]))
        else:
            print("KNOWN-FINDING: property=%s %s (listed; not reached this run)" % (pid, e.get("what", e["bucket"])))
    paths = []
    for b, v in sorted(by_bucket.items()):
        if v.get("from_replay"):
            path = os.path.join(VERIF, "replays", pid, v["from_replay"])
        else:
            path = write_replay(pid, v)
        paths.append(path)
        print("detail: [%s] %s" % (b, v["detail"][:1500].replace("\n", " | ")))
        print("VIOLATION property=%s replay=%s" % (pid, path))
    wall = time.time() - t0
    if not samples:
        samples = [compact(c) for c in list(known_samples.values())[:2]] or ["(no non-trivial case generated)"]
    ev = {
        "property_id": pid,
        "tier": tier,
        "seed": int(seed),
        "level": getattr(mod, "LEVEL", "exploration"),
        "coverage": {
            "evaluations": agg["evaluations"],
            "distinct_nontrivial": len(nontrivial),
            "rule": mod.RULE,
            "samples": samples,
            "class_histogram": dict(sorted(labels.items())),
            "enumerated_static_cases": agg["static"],
            "exhaustive": bool(getattr(mod, "EXHAUSTIVE", False)),
            "discarded_outside_domain": dict(discards),
            "excluded_known_findings": dict(knownc),
            "inconclusive": dict(inconcl),
            "cases_skipped_by_time_cap": agg["capped"],
            "shards": len(shards),
            "violation_buckets": sorted(by_bucket),
        },
        "assumptions": list(getattr(mod, "ASSUMPTIONS", [])),
        "wall_s": round(wall, 2),
        "violations": len(by_bucket),
    }
    extra = getattr(mod, "evidence_extra", None)
    if extra:
        ev["coverage"].update(extra(tier))
    os.makedirs(os.path.join(OUT_BASE, "evidence"), exist_ok=True)
    with open(os.path.join(OUT_BASE, "evidence", pid + ".json"), "w") as f:
        json.dump(ev, f, indent=1, default=str)
    shutil.rmtree(outdir, ignore_errors=True)
    print("%s tier=%s seed=%s evaluations=%d nontrivial=%d known=%d discards=%d violations=%d wall=%.1fs" % (pid, tier, seed, agg["evaluations"], len(nontrivial), sum(knownc.values()), sum(discards.values()), len(by_bucket), wall))
    if by_bucket:
        return 1
    if harness_fail:
        print("HARNESS ERROR property=%s (some shards failed, see stderr)" % pid)
        return 2
    return 0
