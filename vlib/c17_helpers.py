"""C17 helpers: sources of (project, parset, progset, instructions) with drawn uncertainties.

A case names its source as JSON:
  {"kind": "spec", "spec": ModelSpec}                      sigmas already written into the spec ('s' keys, covout 'sigma')
  {"kind": "lib", "name": "udt"|"tb_simple", "progs": bool, "start_off": k,
   "par": [[i, s], ...], "prog": [[i, attr, s], ...], "covout": [[i, sigma, imp], ...], "init": [[i, z], ...]}
     s = None | 0.0 | {"rel": r} (sigma = r * largest |value| of the series); indices are taken modulo the number of
     candidates listed in a fixed order, so a case is fully determined by its JSON and the library file.
"""
import copy
import numpy as np
from hypothesis import strategies as st
from . import build
from .runner import Discard, HarnessError

RELS = [0.001, 0.01, 0.05]
ABS_COVOUT = [0.001, 0.01, 0.03]
UNC_CLASSES = ["none", "zero", "zero", "par", "par", "par", "par", "prog", "prog", "both", "both", "both", "init", "init", "init", "edge", "edge", "edge"]
# "edge": a parset/both case in which 1-3 inputs get an edge best estimate with a positive sigma: exactly 0 entered as a constant,
# exactly 0 entered in a year column, exactly 1, or a sigma twice the value (draws change sign)
# "init": sigma on initial stocks, so large that a fraction of the draws is rejected (BadInitialization -> resampled).
# sigma = (distance of the value to the nearest value that makes the initialisation inconsistent) / z, z = normal quantile
INIT_Z = [0.8416, 0.5244, 0.2533]  # one-sided rejection probability 0.2, 0.3, 0.4
LIB_INIT_Z = [1.2816, 0.8416, 0.6745]  # nested library characteristics are bounded on both sides: rejection probability up to 0.2, 0.4, 0.5

_P = {"fmt": None, "ts": None, "fn": None, "db": True, "min": None, "max": None, "tgt": False, "timed": False, "deriv": False}


def _par(name, fmt, **kw):
    d = dict(_P)
    d.update(name=name, fmt=fmt)
    d.update(kw)
    return d


# A small hand-written two-population model with two programs sharing one target (explicit interaction outcome possible)
HAND = {
    "comps": [{"name": "c0", "kind": "ord", "db": True}, {"name": "c1", "kind": "ord", "db": True}, {"name": "c2", "kind": "ord", "db": True}, {"name": "snk", "kind": "sink", "db": False}],
    "characs": [],
    "pars": [_par("k0", "rate", tgt=True), _par("k1", "duration"), _par("k2", "probability", tgt=True), _par("k3", "rate")],
    "links": [["c0", "c1", ["k0"]], ["c1", "c2", ["k1"]], ["c1", "snk", ["k2"]], ["c2", "c0", ["k3"]]],
    "inter": [],
    "cascades": [],
    "settings": {"start": 2000.0, "end": 2003.0, "dt": 0.25},
    "pops": ["pa", "pb"],
    "data": {
        "years": [2000.0, 2001.0, 2005.0],
        "q": {
            "c0": {"pa": {"t": [2000.0], "v": [1000.0]}, "pb": {"t": [2000.0], "v": [400.0]}},
            "c1": {"pa": {"t": [2000.0], "v": [50.0]}, "pb": {"t": [2000.0], "v": [20.0]}},
            "c2": {"pa": {"t": [2000.0], "v": [10.0]}, "pb": {"a": 5.0}},
            "k0": {"pa": {"a": 0.3}, "pb": {"t": [2000.0, 2002.0], "v": [0.2, 0.4]}},
            "k1": {"pa": {"a": 2.0}, "pb": {"a": 1.5}},
            "k2": {"pa": {"a": 0.05}, "pb": {"t": [2001.0], "v": [0.1]}},
            "k3": {"pa": {"a": 0.5}, "pb": {"a": 0.25}},
        },
        "yf": {},
        "myf": {},
        "tr": [],
        "iw": {},
    },
    "progs": {
        "years": [2000.0],
        "progs": [
            {"name": "Ga", "pops": ["pa", "pb"], "comps": ["c0"], "spend": {"t": [2000.0], "v": [3000.0]}, "cost": {"t": [2000.0], "v": [10.0]}, "per_year": True},
            {"name": "Gb", "pops": ["pa"], "comps": ["c0", "c1"], "spend": {"t": [2000.0], "v": [1500.0]}, "cost": {"t": [2000.0], "v": [5.0]}, "per_year": True, "sat": {"t": [2000.0], "v": [0.9]}},
        ],
        "covouts": [
            {"par": "k0", "pop": "pa", "base": 0.3, "progs": {"Ga": 0.1, "Gb": 0.15}, "ci": "random"},
            {"par": "k0", "pop": "pb", "base": 0.3, "progs": {"Ga": 0.2}, "ci": "additive"},
            {"par": "k2", "pop": "pa", "base": 0.05, "progs": {"Ga": 0.04, "Gb": 0.02}, "ci": "nested"},
        ],
    },
    "instr": {"start": 2001.0, "stop": None, "alloc": {}, "capacity": {}, "coverage": {}},
    "labels": ["hand-written"],
}

LIBS = ["udt", "tb_simple"]
PROG_ATTRS = ["spend_data", "unit_cost"]


# --------------------------------------------------------------------------- drawing sigmas into a spec


def _vals(d):
    return ([d["a"]] if d.get("a") is not None else []) + list(d.get("v", []))


def spec_entries(spec):
    """data entries that can carry a sigma: list of (kind, dict, scale, effective).  'effective' = the perturbation is visible
    one-to-one in the stored values of the parameter itself (data parameter with no function, no limits, no program overwrite,
    non-zero calibration factor), so two different draws can never give the same result arrays"""
    pars = {p["name"]: p for p in spec["pars"]}
    comps = {c["name"] for c in spec["comps"]}
    data = spec["data"]
    yf, myf = data.get("yf") or {}, data.get("myf") or {}
    out = []
    for q in sorted(data["q"]):
        for pop in sorted(data["q"][q]):
            d = data["q"][q][pop]
            v = _vals(d)
            if not v:
                continue
            scale = max(abs(x) for x in v)
            if q in pars:
                p = pars[q]
                if p.get("timed"):
                    continue
                f = (yf.get(q) or {}).get(pop, 1.0) * myf.get(q, 1.0)
                eff = p.get("fn") is None and p.get("min") is None and p.get("max") is None and not p.get("tgt") and not p.get("deriv") and f != 0 and min(abs(x) for x in v) > 0
                out.append(("par", d, scale, eff))
            elif q in comps and min(v) > 0:
                out.append(("comp", d, scale, False))
    for tr in data.get("tr") or []:
        for key in sorted(tr["e"]):
            e = tr["e"][key]
            v = _vals(e)
            if v and min(abs(x) for x in v) > 0:
                out.append(("transfer", e, max(abs(x) for x in v), False))
    for name in sorted(data.get("iw") or {}):
        for key in sorted(data["iw"][name]):
            e = data["iw"][name][key]
            if isinstance(e, dict) and _vals(e) and min(abs(x) for x in _vals(e)) > 0:
                out.append(("interaction", e, max(abs(x) for x in _vals(e)), False))
    return out


EDGE_KINDS = ["zero-const", "zero-year", "one", "sign-change"]


def edge_edits(draw, spec):
    """give 1-3 inputs an edge best estimate and a positive sigma (in place). Kinds that would make the model itself ill-defined
    (zero/negative durations, unit costs and saturations) are not generated."""
    pars = {p["name"]: p for p in spec["pars"]}
    comps = {c["name"]: c for c in spec["comps"]}
    data = spec["data"]
    start = float(spec["settings"]["start"])
    cands = []  # (dict, allowed edge kinds, sigma choices for an absolute sigma)
    for q in sorted(data["q"]):
        for pop in sorted(data["q"][q]):
            d = data["q"][q][pop]
            if q in pars and not pars[q].get("timed"):
                cands.append((d, ["one"] if pars[q].get("fmt") == "duration" else EDGE_KINDS, [0.05, 0.2]))
            elif q in comps and comps[q]["kind"] == "ord" and comps[q].get("db"):
                cands.append((d, EDGE_KINDS, [5.0, 50.0]))
    for tr in data.get("tr") or []:
        for key in sorted(tr["e"]):
            e = tr["e"][key]
            cands.append((e, ["one"] if e.get("u") == "duration" else EDGE_KINDS, [0.05, 0.2]))
    for name in sorted(data.get("iw") or {}):
        for key in sorted(data["iw"][name]):
            e = data["iw"][name][key]
            if isinstance(e, dict):
                cands.append((e, EDGE_KINDS, [0.05, 0.2]))
    if spec.get("progs"):
        for p in spec["progs"]["progs"]:
            cands.append((p["spend"], EDGE_KINDS, [10.0, 100.0]))
            if p.get("cap"):
                cands.append((p["cap"], ["zero-const", "one"], [1.0, 10.0]))
            if not p.get("sat"):
                p["sat_new"] = {}
            cands.append((p.get("sat") or p["sat_new"], ["near-bound"], None))
    for q in sorted(data["q"]):
        if q in pars and not pars[q].get("timed") and pars[q].get("fmt") != "duration" and (pars[q].get("max") is not None or pars[q].get("min") is not None):
            for pop in sorted(data["q"][q]):
                cands.append((data["q"][q][pop], ["near-limit:%r:%r" % (pars[q].get("min"), pars[q].get("max"))], None))
    if not cands:
        return []
    done = []
    for i in draw(st.lists(st.integers(0, len(cands) - 1), min_size=1, max_size=3, unique=True)):
        d, kinds, sig = cands[i]
        kind = draw(st.sampled_from(kinds))
        v = _vals(d)
        if kind == "near-bound":
            # a saturation whose sigma is large relative to the distance to 0 or 1: pristine code perturbs it like anything else
            val, sg = draw(st.sampled_from([(0.95, 0.1), (0.05, 0.1), (1.0, 0.2)]))
            for k in ("a", "t", "v"):
                d.pop(k, None)
            d["t"], d["v"], d["s"] = [float(spec["progs"]["years"][0])], [val], sg
        elif kind.startswith("near-limit"):
            lo, hi = [None if x == "None" else float(x) for x in kind.split(":")[1:]]
            bound = hi if hi is not None else lo
            width = abs(bound) if bound else 1.0
            for k in ("a", "t", "v"):
                d.pop(k, None)
            d["a"] = bound - 0.05 * width if hi is not None else bound + 0.05 * width
            d["s"] = 0.1 * width
            kind = "near-limit"
        elif kind == "sign-change":
            scale = max([abs(x) for x in v] or [0.0])
            d["s"] = 2.0 * scale if scale > 0 else draw(st.sampled_from(sig))
        else:
            for k in ("a", "t", "v"):
                d.pop(k, None)
            if kind == "zero-year":
                d["t"], d["v"] = [start], [0.0]
            else:
                d["a"] = 0.0 if kind == "zero-const" else 1.0
            d["s"] = draw(st.sampled_from(sig))
        done.append(kind)
    for p in (spec.get("progs") or {}).get("progs", []):
        new_sat = p.pop("sat_new", None)
        if new_sat:
            p["sat"] = new_sat
    if spec.get("progs") and spec["progs"]["covouts"] and draw(st.booleans()):
        c = spec["progs"]["covouts"][draw(st.integers(0, len(spec["progs"]["covouts"]) - 1))]
        k = sorted(c["progs"])[0]
        c["progs"][k] = draw(st.sampled_from([0.0, 1.0]))
        c["sigma"] = draw(st.sampled_from(ABS_COVOUT))
        done.append("outcome-%g" % c["progs"][k])
    return done


def init_entries(spec):
    """databook entries of ordinary compartments (they initialise the model one-to-one: stored initial size = value + delta; a
    negative size is rejected with BadInitialization): list of (dict, value)"""
    kinds = {c["name"]: c for c in spec["comps"]}
    out = []
    for q in sorted(spec["data"]["q"]):
        c = kinds.get(q)
        if c is None or c["kind"] != "ord" or not c.get("db"):
            continue
        for pop in sorted(spec["data"]["q"][q]):
            d = spec["data"]["q"][q][pop]
            v = _vals(d)
            if len(v) == 1 and v[0] >= 0:
                out.append((d, float(v[0])))
    return out


def prog_entries(spec):
    out = []
    for p in spec["progs"]["progs"]:
        for k in ("spend", "cost", "cap", "sat"):
            d = p.get(k)
            if d and _vals(d) and min(abs(x) for x in _vals(d)) > 0:
                out.append((p["name"] + "." + k, d, max(abs(x) for x in _vals(d))))
    return out


def assign_sigmas(draw, spec, unc):
    """write drawn sigmas into (a copy of) the spec. unc in none|zero|par|prog|both. returns (spec, unc actually realised)"""
    spec = copy.deepcopy(spec)
    has_progs = bool(spec.get("progs"))
    edge = unc == "edge"
    if edge:
        unc = draw(st.sampled_from(["par", "both"]))
    if unc in ("prog", "both") and not has_progs:
        unc = "par"
    ents = spec_entries(spec)
    for _, d, _, _ in ents:
        d.pop("s", None)
    inits = init_entries(spec)
    for d, _ in inits:
        d.pop("s", None)
    zero_set = False
    low = [None, None, 0.0] if unc != "none" else [None]
    pos = []
    init_ids = set()
    if unc == "init":
        if not inits:
            unc = "par"
        else:
            i = draw(st.integers(0, len(inits) - 1))
            d, v = inits[i]
            d["s"] = (v / draw(st.sampled_from(INIT_Z))) if v > 0 else 1.0  # value 0: half of the draws are negative
            init_ids.add(id(d))
            rest = [j for j in range(len(inits)) if j != i and inits[j][1] > 0]
            if v > 0 and rest and draw(st.booleans()):
                d2, v2 = inits[draw(st.sampled_from(rest))]
                d2["s"] = v2 / INIT_Z[0]
                init_ids.add(id(d2))
    if unc in ("par", "both"):
        eff = [i for i, e in enumerate(ents) if e[3]]
        cands = eff if eff else [i for i, e in enumerate(ents) if e[0] != "comp"]
        if not cands:
            cands = list(range(len(ents)))
        if not cands:
            unc = "prog" if unc == "both" else "zero"
        else:
            pos = draw(st.lists(st.sampled_from(cands), min_size=1, max_size=3, unique=True))
            others = [i for i in range(len(ents)) if i not in pos]
            if others and draw(st.integers(0, 4)) == 0:
                pos.append(draw(st.sampled_from(others)))  # occasionally a compartment size / transfer / clipped parameter as well
    for i, (kind, d, scale, eff) in enumerate(ents):
        if id(d) in init_ids:
            continue
        if i in pos:
            d["s"] = draw(st.sampled_from(RELS)) * scale
        else:
            s = draw(st.sampled_from(low))
            if s is not None:
                d["s"] = s
                zero_set = True
    if has_progs:
        pents = prog_entries(spec)
        covs = spec["progs"]["covouts"]
        for _, d, _ in pents:
            d.pop("s", None)
        cpos = []
        if unc in ("prog", "both") and covs:  # (a generated program set may have no outcome at all)
            cpos = draw(st.lists(st.sampled_from(list(range(len(covs)))), min_size=1, max_size=2, unique=True))
        for i, c in enumerate(covs):
            if len(c["progs"]) >= 2 and not c.get("imp") and draw(st.booleans()):
                names = sorted(c["progs"])[:2]
                c["imp"] = {"+".join(names): draw(st.floats(0.0, 1.0).map(lambda x: round(x, 3)))}
            if i in cpos:
                c["sigma"] = draw(st.sampled_from(ABS_COVOUT))
            else:
                c["sigma"] = draw(st.sampled_from(low))
                zero_set = zero_set or c["sigma"] is not None
        for name, d, scale in pents:
            if unc in ("prog", "both") and draw(st.integers(0, 2)) == 0:
                d["s"] = draw(st.sampled_from(RELS)) * scale
            else:
                s = draw(st.sampled_from(low))
                if s is not None:
                    d["s"] = s
                    zero_set = True
    if unc == "zero" and not zero_set:
        if ents:
            ents[0][1]["s"] = 0.0
        elif has_progs and spec["progs"]["covouts"]:
            spec["progs"]["covouts"][0]["sigma"] = 0.0
        else:
            unc = "none"
    if edge:
        spec["c17_edge"] = edge_edits(draw, spec)
        unc = "edge"
    return spec, unc


def spec_unc(spec):
    """uncertainty actually present in a spec: (parset_positive, progset_positive, any_zero, positive on an effective parset entry)"""
    ppos = pz = gpos = False
    eff_par = any(eff and (d.get("s") or 0) > 0 for _, d, _, eff in spec_entries(spec))
    eff_init = any((d.get("s") or 0) > 0 for d, _ in init_entries(spec))  # initial size of an ordinary compartment = value + delta
    eff_par = (eff_par, eff_init)
    data = spec["data"]
    ds = [d for bypop in data["q"].values() for d in bypop.values()] + [e for tr in data.get("tr") or [] for e in tr["e"].values()]
    ds += [e for w in (data.get("iw") or {}).values() for e in w.values() if isinstance(e, dict)]
    for d in ds:
        s = d.get("s")
        if s is not None:
            if s > 0 and _vals(d):
                ppos = True
            else:
                pz = True
    if spec.get("progs"):
        for p in spec["progs"]["progs"]:
            for k in ("spend", "cost", "cap", "sat"):
                s = (p.get(k) or {}).get("s")
                if s is not None:
                    if s > 0:
                        gpos = True
                    else:
                        pz = True
        for c in spec["progs"]["covouts"]:
            s = c.get("sigma", 0.0)
            if s is not None:
                if s > 0:
                    gpos = True
                else:
                    pz = True
    return ppos, gpos, pz, eff_par


# --------------------------------------------------------------------------- library sources

_LIB_CACHE = {}


def _lib(name):
    import atomica as at
    import sciris as sc

    if name not in _LIB_CACHE:
        _LIB_CACHE[name] = at.demo(name, do_run=False)
    return sc.dcp(_LIB_CACHE[name])


def _sigma_of(s, ts):
    if s is None or isinstance(s, (int, float)):
        return s
    vals = list(ts.vals) + ([ts.assumption] if ts.assumption is not None else [])
    return float(s["rel"]) * max(abs(float(v)) for v in vals)


def materialise(src):
    """-> dict(P, ps, pg, ins, ppos, gpos, zero, explicit) ; atomica failing to build a generated spec is a Discard (C18's business)"""
    import atomica as at

    if src["kind"] == "spec":
        spec = src["spec"]
        try:
            b = build.build_all(spec)
        except HarnessError:
            raise
        except Exception as e:
            raise Discard("atomica raised %s while building the generated model (decided by C18)" % type(e).__name__)
        ppos, gpos, zero, eff_par = spec_unc(spec)
        explicit = bool(spec.get("progs")) and any(c.get("imp") for c in spec["progs"]["covouts"])
        explicit_sigma = bool(spec.get("progs")) and any(c.get("imp") and c.get("sigma", 0.0) is not None for c in spec["progs"]["covouts"])
        big_init = any((d.get("s") or 0) > 0.5 * max(v, 1e-300) for d, v in init_entries(spec))
        return {"P": b["P"], "ps": b["ps"], "pg": b["progset"], "ins": b["instructions"], "ppos": ppos, "gpos": gpos, "zero": zero, "explicit": explicit, "explicit_sigma": explicit_sigma, "eff_par": eff_par[0] or eff_par[1], "eff_par_strict": eff_par[0], "init": big_init, "edge": bool(spec.get("c17_edge"))}
    P = _lib(src["name"])
    ps = P.parsets[0]
    ppos = gpos = zero = explicit = explicit_sigma = eff_par = eff_init = False
    if src.get("noise"):
        # one multiplicative noise term on the first function parameter of the library framework (a stochastic model)
        fn = P.framework.pars["function"]
        for name in fn.index:
            if isinstance(fn[name], str) and fn[name].strip() and "POP_" not in fn[name] and ":" not in fn[name]:
                P.framework.pars.at[name, "function"] = "(%s)*(1+0.1*randn())" % fn[name]
                break
    targeted = set(c.par for c in P.progsets[0].covouts.values()) if src.get("progs") else set()
    fpars = set(P.framework.pars.index)
    cands = [(par.name, pop) for par in ps.all_pars() if par.name in fpars for pop, ts in par.ts.items() if ts.has_data]
    cands.sort()
    for i, s in src.get("par", []):
        name, pop = cands[i % len(cands)]
        ts = ps.pars[name].ts[pop]
        ts.sigma = _sigma_of(s, ts)
        if ts.sigma is not None:
            ppos, zero = (ppos or ts.sigma > 0), (zero or ts.sigma == 0)
            lo, hi = P.framework.pars.at[name, "minimum value"], P.framework.pars.at[name, "maximum value"]
            vals = [float(v) for v in ts.vals] + ([float(ts.assumption)] if ts.assumption is not None else [])
    edge = False
    for i, kind, sig in src.get("edge", []):
        name, pop = cands[i % len(cands)]
        ts = ps.pars[name].ts[pop]
        if kind == "sign-change":
            ts.sigma = 2.0 * max(abs(float(v)) for v in list(ts.vals) + ([ts.assumption] if ts.assumption is not None else []))
        else:
            if kind == "zero-year":
                ts.vals = [0.0 for _ in ts.vals] if ts.vals else [0.0]
                ts.t = list(ts.t) if ts.t else [float(P.settings.sim_start)]
                ts.assumption = None
            else:
                ts.t, ts.vals, ts.assumption = [], [], (0.0 if kind == "zero-const" else 1.0)
            ts.sigma = float(sig)
        ppos = edge = True
    # one-to-one visible in the results (judged on the final state of the entries): untargeted data parameter, no upper limit,
    # positive values at least 20 sigma above a lower limit of 0
    for name, pop in cands:
        ts = ps.pars[name].ts[pop]
        if ts.sigma is not None and ts.sigma > 0 and name not in targeted:
            lo, hi = P.framework.pars.at[name, "minimum value"], P.framework.pars.at[name, "maximum value"]
            vals = [float(v) for v in ts.vals] + ([float(ts.assumption)] if ts.assumption is not None else [])
            if (hi is None or hi != hi) and (lo is None or lo != lo or lo <= 0) and min(vals) > 0 and ts.sigma <= 0.0501 * min(vals):
                eff_par = True
    # initial stocks (compartment / characteristic databook entries): sigma = distance to the nearest other initial stock (or to 0) / z
    big_init = False
    icands = sorted((par.name, pop) for par in ps.all_pars() if par.name not in fpars and par.name in ps.pars for pop, ts in par.ts.items() if ts.has_data and len(ts.vals) >= 1)
    for i, z in src.get("init", []):
        name, pop = icands[i % len(icands)]
        ts = ps.pars[name].ts[pop]
        v = float(ts.vals[0])
        others = [float(ps.pars[n2].ts[p2].vals[0]) for n2, p2 in icands if p2 == pop and n2 != name] + [0.0]
        gap = min(abs(v - o) for o in others if o != v) if any(o != v for o in others) else max(abs(v), 1.0)
        ts.sigma = gap / float(z)
        ppos = eff_init = big_init = True  # the stored initial value of the quantity is value + delta
    pg = ins = None
    if src.get("progs"):
        pg = P.progsets[0]
        for i, attr, value, sigma in src.get("prog_set", []):  # enter a (bounded) program input with its uncertainty, e.g. saturation 0.95 +- 0.1
            names0 = sorted(pg.programs.keys())
            ts = getattr(pg.programs[names0[i % len(names0)]], attr)
            ts.t, ts.vals, ts.assumption, ts.sigma = [float(pg.tvec[0])], [float(value)], None, float(sigma)
            gpos = edge = True
        ins = at.ProgramInstructions(start_year=float(P.settings.sim_start) + float(src.get("start_off", 1)))
        names = sorted(pg.programs.keys())
        for i, attr, s in src.get("prog", []):
            ts = getattr(pg.programs[names[i % len(names)]], attr)
            if not ts.has_data:
                continue
            ts.sigma = _sigma_of(s, ts)
            if ts.sigma is not None:
                gpos, zero = (gpos or ts.sigma > 0), (zero or ts.sigma == 0)
        keys = sorted(pg.covouts.keys())
        for i, sigma, imp in src.get("covout", []):
            key = keys[i % len(keys)]
            old = pg.covouts[key]
            imps = None
            if imp is not None and len(old.progs) >= 2:
                two = sorted(old.progs.keys())[:2]
                imps = "%s=%r" % ("+".join(two), float(imp))
                explicit = True
                explicit_sigma = explicit_sigma or sigma is not None
            pg.covouts[key] = at.Covout(par=old.par, pop=old.pop, progs=dict(old.progs), cov_interaction=old.cov_interaction, imp_interaction=imps, uncertainty=sigma, baseline=old.baseline)
            if sigma is not None:
                gpos, zero = (gpos or sigma > 0), (zero or sigma == 0)
    return {"P": P, "ps": ps, "pg": pg, "ins": ins, "ppos": ppos, "gpos": gpos, "zero": zero, "explicit": explicit, "explicit_sigma": explicit_sigma, "eff_par": eff_par or eff_init, "eff_par_strict": eff_par, "init": big_init, "edge": edge}


def quantity_values(ps, pg, parameters=None):
    """every input TimeSeries / outcome that sample() may perturb: {key: (kind of input, sigma, value, value class)} with
    value = (assumption, tuple of year values) resp. the outcome number.  Keys are stable across copies."""
    out = {}

    def vclass(sigma, vals):
        if any(v == 0 for v in vals):
            return "zero"
        if any(v == 1 for v in vals):
            return "one"
        if sigma is not None and any(sigma > abs(v) for v in vals):
            return "sigma>|value|"
        return "ordinary"

    def ts_entry(key, kind, ts):
        if not ts.has_data:
            return
        vals = ([float(ts.assumption)] if ts.assumption is not None else []) + [float(v) for v in ts.vals]
        cls = vclass(ts.sigma, vals)
        if cls == "zero":
            cls = "zero-constant" if (ts.assumption is not None and float(ts.assumption) == 0) else "zero-in-year-column"
        out[key] = (kind, ts.sigma, (None if ts.assumption is None else float(ts.assumption), tuple(float(v) for v in ts.vals)), cls)

    for name, par in ps.pars.items():
        for pop, ts in par.ts.items():
            ts_entry(("parameter", name, pop), "databook-quantity" if parameters is None else ("parameter" if name in parameters else "initial-size"), ts)
    for name, byfrom in ps.transfers.items():
        for frm, par in byfrom.items():
            for to, ts in par.ts.items():
                ts_entry(("transfer", name, frm, to), "transfer", ts)
    for name, byfrom in ps.interactions.items():
        for frm, par in byfrom.items():
            for to, ts in par.ts.items():
                ts_entry(("interaction", name, frm, to), "interaction", ts)
    if pg is not None:
        for pname in pg.programs.keys():
            for attr in ("spend_data", "unit_cost", "capacity_constraint", "saturation", "coverage"):
                ts_entry(("program", pname, attr), attr, getattr(pg.programs[pname], attr))
        for ckey in pg.covouts.keys():
            c = pg.covouts[ckey]
            for k, v in c.progs.items():
                out[("outcome", ckey, k)] = ("outcome", c.sigma, float(v), vclass(c.sigma, [float(v)]))
            for k, v in getattr(c, "_interactions", {}).items():
                out[("interaction-outcome", ckey, tuple(sorted(k)))] = ("interaction-outcome", c.sigma, float(v), vclass(c.sigma, [float(v)]))
    return out


def is_stochastic(framework):
    """a parameter function of the framework calls rand() / randn()"""
    import re

    return any(isinstance(f, str) and re.search(r"\brandn?\s*\(", f) for f in framework.pars["function"])


def add_noise_parameter(spec, ref):
    """make the framework stochastic: one output-only parameter = ref * (1 + 0.1*randn())"""
    d = dict(_P)
    d.update(name="kz", fmt=None, fn="%s*(1+0.1*randn())" % ref, db=False)
    spec["pars"].append(d)
    spec["labels"] = list(spec.get("labels", [])) + ["stochastic-framework"]


def data_parameter_digest(res):
    """digest of the stored values of every parameter that is a pure function of the sampled inputs: no framework function and not
    overwritten by a program (interpolated databook value x calibration factors, clipped to its limits)"""
    import hashlib

    fw = res.model.framework
    fn = fw.pars["function"]
    pg = res.model.progset
    targeted = set(pg.covouts.keys()) if pg is not None else set()
    h = hashlib.sha1()
    for pop in res.model.pops:
        for par in pop.pars:
            f = fn[par.name] if par.name in fn.index else None
            if (isinstance(f, str) and f.strip()) or (par.name, pop.name) in targeted:
                continue
            h.update(repr((pop.name, par.name)).encode())
            h.update(np.ascontiguousarray(np.asarray(par.vals, dtype=float)).tobytes())
    return h.hexdigest()


def progset_inputs_digest(pg):
    """digest of everything ProgramSet.sample() may perturb (values only, no flags)"""
    import hashlib

    if pg is None:
        return "-"
    out = []
    for name in sorted(pg.programs.keys()):
        prog = pg.programs[name]
        for attr in ("spend_data", "unit_cost", "capacity_constraint", "saturation", "coverage"):
            ts = getattr(prog, attr)
            out.append((name, attr, [repr(float(t)) for t in ts.t], [repr(float(v)) for v in ts.vals], None if ts.assumption is None else repr(float(ts.assumption))))
    for key in sorted(pg.covouts.keys()):
        c = pg.covouts[key]
        out.append((key, sorted((k, repr(float(v))) for k, v in c.progs.items()), sorted((tuple(sorted(k)), repr(float(v))) for k, v in c._interactions.items()), repr(float(c.baseline))))
    return hashlib.sha1(repr(out).encode()).hexdigest()


def lib_sources(draw, unc):
    name = draw(st.sampled_from(LIBS))
    progs = unc in ("prog", "both") or draw(st.booleans())
    src = {"kind": "lib", "name": name, "progs": progs, "start_off": draw(st.sampled_from([0, 1, 2])), "par": [], "prog": [], "covout": []}
    if unc == "init":
        src["init"] = [[draw(st.integers(0, 4)), draw(st.sampled_from(LIB_INIT_Z))]]
        return src
    if unc == "edge":
        src["edge"] = [[i, draw(st.sampled_from(EDGE_KINDS)), draw(st.sampled_from([0.05, 0.2]))] for i in draw(st.lists(st.integers(0, 5), min_size=1, max_size=2, unique=True))]
        unc = draw(st.sampled_from(["par", "both"]))
        progs = src["progs"] = progs or unc == "both"
        if progs and draw(st.booleans()):
            val, sg = draw(st.sampled_from([(0.95, 0.1), (0.05, 0.1), (1.0, 0.2)]))
            src["prog_set"] = [[draw(st.integers(0, 3)), "saturation", val, sg]]
    low = [None, 0.0] if unc != "none" else [None]
    sig = st.sampled_from(RELS).map(lambda r: {"rel": r})
    npar = 6
    if unc in ("par", "both"):
        for i in draw(st.lists(st.integers(0, npar - 1), min_size=1, max_size=3, unique=True)):
            src["par"].append([i, draw(sig)])
    elif unc == "zero":
        for i in draw(st.lists(st.integers(0, npar - 1), min_size=1, max_size=3, unique=True)):
            src["par"].append([i, 0.0])
    if progs:
        if unc in ("prog", "both"):
            for i in draw(st.lists(st.integers(0, 2), min_size=1, max_size=2, unique=True)):
                src["covout"].append([i, draw(st.sampled_from(ABS_COVOUT)), draw(st.one_of(st.none(), st.sampled_from([0.3, 0.4, 0.95])))])
            for i in draw(st.lists(st.integers(0, 3), max_size=2, unique=True)):
                src["prog"].append([i, draw(st.sampled_from(PROG_ATTRS)), draw(sig)])
        elif unc != "none":
            for i in draw(st.lists(st.integers(0, 2), max_size=2, unique=True)):
                src["covout"].append([i, draw(st.sampled_from(low)), draw(st.one_of(st.none(), st.sampled_from([0.3, 0.4, 0.95])))])
            for i in draw(st.lists(st.integers(0, 3), max_size=1, unique=True)):
                src["prog"].append([i, draw(st.sampled_from(PROG_ATTRS)), 0.0])
        elif draw(st.booleans()):
            # uncertainty None with an explicit interaction outcome
            src["covout"].append([draw(st.integers(0, 2)), None, draw(st.sampled_from([0.3, 0.4, 0.95]))])
    return src
