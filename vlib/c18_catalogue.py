"""C18 mutation catalogue: single-rule mutations of framework / databook / program-book workbooks with a known verdict.

Every entry is   reg(id, target, verdict, rule, sites, apply, stage)
    target  'framework' | 'databook' | 'progbook'   (entry point: ProjectFramework(...), ProjectData.from_spreadsheet + validate/Project,
                                                      ProgramSet.from_spreadsheet + validate)
    verdict 'reject' | 'accept'
    rule    the documented rule / explicit check in the code that grounds the verdict (file:line of the unchanged tree)
    sites   f(view) -> list of JSON sites (rows / columns / names) where the mutation can be applied; [] = not applicable
    apply   f(view, site) -> None ; edits view.wb (an openpyxl workbook) in place
    stage   'parse' (must be refused by the reader itself with the dedicated class) or 'semantic' (may also be refused by
            ProjectData.validate / ParameterSet / Project load / ProgramSet.validate following the library's assert/raise Exception convention)
The harness (props/c18.py) proves that the mutated workbook differs from its base.
"""

from . import xlsx_writer as xw

ENTRIES = {}
UNDEF = "zz_undef"


class Entry:
    def __init__(self, id, target, verdict, rule, sites, apply, stage):
        self.id, self.target, self.verdict, self.rule, self.sites, self.apply, self.stage = id, target, verdict, rule, sites, apply, stage
        self.exhaustive = False  # enumerate every site on the fixed small model in every run (rules stated name by name)
        self.same = False  # accept entries only: the edit does not change the meaning of the file, so the run must give the same results as the base


def reg(id, target, verdict, rule, sites, apply, stage="parse"):
    assert id not in ENTRIES, id
    assert verdict in ("reject", "accept")
    ENTRIES[id] = Entry(id, target, verdict, rule, sites, apply, stage)


def entries_for(target):
    return [e for e in ENTRIES.values() if e.target == target]


# ======================================================================================== generic sheet helpers


def _s(v):
    return v.strip() if isinstance(v, str) else v


def _blank(v):
    return v is None or (isinstance(v, str) and not v.strip())


def _yes(v):
    return isinstance(v, str) and v.strip().lower() == "y"


class Table:
    """a header row + data rows on a sheet that atomica reads as ONE table (blank rows ignored)"""

    def __init__(self, ws):
        self.ws = ws
        self.r0 = None
        for r in range(1, ws.max_row + 1):
            if not xw.row_is_blank(ws, r) and not self._ignored(r):
                self.r0 = r
                break
        self.cols = {}
        self.rows = []
        if self.r0 is None:
            return
        for c in ws[self.r0]:
            if isinstance(c.value, str) and c.value.strip():
                if c.value.strip().startswith("#ignore"):
                    break
                self.cols.setdefault(c.value.strip().lower(), c.column)
        for r in range(self.r0 + 1, ws.max_row + 1):
            if not xw.row_is_blank(ws, r) and not self._ignored(r):
                self.rows.append(r)

    def _ignored(self, r):
        v = self.ws.cell(row=r, column=1).value
        return isinstance(v, str) and v.startswith("#ignore")

    def get(self, r, col):
        c = self.cols.get(col)
        return None if c is None else _s(self.ws.cell(row=r, column=c).value)

    def last_col(self):
        return max(self.cols.values()) if self.cols else 0

    def ensure_col(self, col):
        if col not in self.cols:
            c = self.last_col() + 1
            self.ws.cell(row=self.r0, column=c, value=" ".join(w.capitalize() for w in col.split(" ")))
            self.cols[col] = c
        return self.cols[col]

    def set(self, r, col, v):
        self.ws.cell(row=r, column=self.ensure_col(col)).value = v  # (ws.cell(value=None) would leave the old value)

    def append(self, **vals):
        r = self.ws.max_row + 1
        for k, v in vals.items():
            self.set(r, k.replace("_", " "), v)
        self.rows.append(r)
        return r

    def names(self, key="code name"):
        return [self.get(r, key) for r in self.rows]

    def row_of(self, name, key="code name"):
        for r in self.rows:
            if self.get(r, key) == name:
                return r
        return None


class FwView:
    """what a framework workbook says, read with openpyxl only (no atomica)"""

    MERGED = ["compartments", "characteristics", "parameters", "interactions", "population types", "databook pages", "plots", "about"]

    def __init__(self, wb):
        self.wb = wb
        self.ws = {ws.title.lower(): ws for ws in wb.worksheets}
        self.t = {k: Table(self.ws[k]) for k in self.MERGED if k in self.ws}
        self.matrices = []
        if "transitions" in self.ws:
            ws = self.ws["transitions"]
            for r0, r1 in xw.table_blocks(ws):
                cols = {}
                for c in ws[r0][1:]:
                    if not _blank(c.value):
                        cols[_s(c.value)] = c.column
                rows = {}
                for r in range(r0 + 1, r1 + 1):
                    v = ws.cell(row=r, column=1).value
                    if not _blank(v):
                        rows[_s(v)] = r
                self.matrices.append({"r0": r0, "r1": r1, "cols": cols, "rows": rows, "type": _s(ws.cell(row=r0, column=1).value)})
        self.cascades = []
        if "cascades" in self.ws:
            ws = self.ws["cascades"]
            for r0, r1 in xw.table_blocks(ws):
                self.cascades.append({"r0": r0, "r1": r1, "name": _s(ws.cell(row=r0, column=1).value)})

    # ---- convenience
    def tab(self, key):
        return self.t.get(key)

    def comps(self):
        t = self.tab("compartments")
        out = []
        if t is None:
            return out
        for r in t.rows:
            out.append({"name": t.get(r, "code name"), "row": r, "src": _yes(t.get(r, "is source")), "sink": _yes(t.get(r, "is sink")), "junc": _yes(t.get(r, "is junction")), "type": t.get(r, "population type"), "page": t.get(r, "databook page")})
        return out

    def pars(self):
        t = self.tab("parameters")
        out = []
        if t is None:
            return out
        for r in t.rows:
            fmt = t.get(r, "format")
            out.append(
                {
                    "name": t.get(r, "code name"),
                    "row": r,
                    "fmt": fmt.lower() if isinstance(fmt, str) else fmt,
                    "fn": t.get(r, "function"),
                    "page": t.get(r, "databook page"),
                    "timed": _yes(t.get(r, "timed")),
                    "deriv": _yes(t.get(r, "is derivative")),
                    "tgt": _yes(t.get(r, "targetable")),
                    "type": t.get(r, "population type"),
                    "ts": t.get(r, "timescale"),
                }
            )
        return out

    def characs(self):
        t = self.tab("characteristics")
        out = []
        if t is None:
            return out
        for r in t.rows:
            out.append({"name": t.get(r, "code name"), "row": r, "inc": t.get(r, "components"), "den": t.get(r, "denominator"), "type": t.get(r, "population type")})
        return out

    def inters(self):
        t = self.tab("interactions")
        return [] if t is None else [{"name": t.get(r, "code name"), "row": r} for r in t.rows]

    def pop_types(self):
        t = self.tab("population types")
        return [] if t is None else [t.get(r, "code name") for r in t.rows]

    def links(self):
        """(matrix index, row, col, from, to, text) for every non-empty matrix cell"""
        out = []
        if "transitions" not in self.ws:
            return out
        ws = self.ws["transitions"]
        for i, m in enumerate(self.matrices):
            for a, r in m["rows"].items():
                for b, c in m["cols"].items():
                    v = ws.cell(row=r, column=c).value
                    if not _blank(v):
                        out.append((i, r, c, a, b, _s(v)))
        return out

    def links_of_par(self):
        d = {}
        for i, r, c, a, b, text in self.links():
            if text == ">":
                continue
            for p in text.split(","):
                d.setdefault(p.strip(), []).append((a, b))
        return d

    def kind(self):
        return {c["name"]: ("src" if c["src"] else "sink" if c["sink"] else "junc" if c["junc"] else "ord") for c in self.comps()}

    def all_codes(self):
        return [c["name"] for c in self.comps()] + [x["name"] for x in self.characs()] + [p["name"] for p in self.pars()] + [w["name"] for w in self.inters()]

    def place(self, a, b, par):
        """write parameter `par` into matrix cell a -> b (appending to an existing entry)"""
        ws = self.ws["transitions"]
        for m in self.matrices:
            if a in m["rows"] and b in m["cols"]:
                cell = ws.cell(row=m["rows"][a], column=m["cols"][b])
                if _blank(cell.value) or _s(cell.value) == ">":
                    cell.value = par
                else:
                    cell.value = "%s, %s" % (_s(cell.value), par)
                return
        raise KeyError("no transition matrix holds %s -> %s" % (a, b))

    def add_par(self, name, fmt="rate", fn="0.1 + 0", display=None, page=None):
        t = self.tab("parameters")
        vals = {"code_name": name, "display_name": display or ("ZZ " + name), "format": fmt}
        if fn is not None:
            vals["function"] = fn
        if page is not None:
            vals["databook_page"] = page
        return t.append(**vals)


def _idx(seq, n=None):
    return list(range(len(seq) if n is None else min(len(seq), n)))


# ======================================================================================== FRAMEWORK entries
FW = "framework"

# ---- required sheets / columns ---------------------------------------------------------------------------


def _has_sheet(name):
    return lambda v: [0] if name in v.ws else []


def _del_sheet(name):
    def f(v, site):
        v.wb.remove(v.ws[name])

    return f


reg("fw.del_sheet.parameters", FW, "reject", "framework.py:571-573 _validate_sheets: 'parameters' is a required sheet", _has_sheet("parameters"), _del_sheet("parameters"))
reg(
    "fw.del_sheet.compartments",
    FW,
    "reject",
    "framework.py:911-913 every compartment in a transition matrix must be defined on the Compartments sheet",
    lambda v: [0] if "compartments" in v.ws and v.matrices else [],
    _del_sheet("compartments"),
)

REQUIRED_COLS = {  # framework.py:629,709,803,832 required_columns + the index column (1478-1479)
    "compartments": ["code name", "display name"],
    "characteristics": ["code name", "display name", "components"],  # components: valid_content None = cannot be empty (711-714, 1504-1506)
    "parameters": ["code name", "display name", "format"],
    "interactions": ["code name", "display name"],
}


def _reqcol_sites(v):
    out = []
    for sh, cols in REQUIRED_COLS.items():
        t = v.tab(sh)
        if t is None or not t.rows:
            continue
        for c in cols:
            if c in t.cols:
                out.append([sh, c])
    return out


def _reqcol_apply(v, site):
    sh, c = site
    t = v.tab(sh)
    t.ws.delete_cols(t.cols[c])


reg("fw.del_required_column", FW, "reject", "framework.py:1476-1490 (_sanitize_dataframe: index column and required columns), 1504-1506 (components cannot be empty)", _reqcol_sites, _reqcol_apply)

# ---- optional columns: blanking them falls back to the documented defaults -----------------------------------
OPTIONAL_COLS = {  # framework.py:630, 710, 833-846 'defaults' dicts: every column listed there may be absent or empty
    "compartments": ["databook order", "guidance"],
    "characteristics": ["databook order", "guidance", "default value"],
    "parameters": ["minimum value", "maximum value", "databook order", "guidance", "default value", "targetable"],
}


def _optcol_sites(v):
    out = []
    for sh, cols in OPTIONAL_COLS.items():
        t = v.tab(sh)
        if t is None or not t.rows:
            continue
        for c in cols:
            if c in t.cols:
                out.append([sh, c])
    return out


def _optcol_apply(v, site):
    sh, c = site
    t = v.tab(sh)
    for r in t.rows:
        t.ws.cell(row=r, column=t.cols[c]).value = None


reg("fw.blank_optional_column", FW, "accept", "framework.py:630,710,833-846 defaults for optional columns (minimum/maximum value, databook order, guidance, default value, targetable)", _optcol_sites, _optcol_apply)


def _sw_sites(v):
    return [sh for sh in ("compartments", "characteristics") if v.tab(sh) is not None and v.tab(sh).rows]


def _sw_apply(v, site):
    t = v.tab(site)
    c = t.ensure_col("setup weight")
    for r in t.rows:
        t.ws.cell(row=r, column=c).value = None


reg(
    "fw.empty_setup_weight_column",
    FW,
    "accept",
    "framework.py:651-660 / 726-732: an empty setup weight defaults to 1 (in databook / default value) or 0; library sir_framework.xlsx ships exactly such a column",
    _sw_sites,
    _sw_apply,
)

# ---- undefined references ------------------------------------------------------------------------------------


def _undef_comp_sites(v):
    out = []
    for i, m in enumerate(v.matrices):
        for k in _idx(m["rows"], 6):
            out.append([i, "row", k])
        for k in _idx(m["cols"], 6):
            out.append([i, "col", k])
    return out


def _undef_comp_apply(v, site):
    i, what, k = site
    m = v.matrices[i]
    ws = v.ws["transitions"]
    if what == "row":
        ws.cell(row=list(m["rows"].values())[k], column=1).value = UNDEF
    else:
        ws.cell(row=m["r0"], column=list(m["cols"].values())[k]).value = UNDEF


reg("fw.undefined_comp_in_transitions", FW, "reject", "framework.py:911-913 compartment in the matrix not defined on the Compartments sheet", _undef_comp_sites, _undef_comp_apply)


def _par_cells(v):
    return [l for l in v.links() if l[5] != ">"]


def _undef_par_apply(v, site):
    k, how = site
    i, r, c, a, b, text = _par_cells(v)[k]
    v.ws["transitions"].cell(row=r, column=c).value = UNDEF if how == "replace" else text + ", " + UNDEF


reg(
    "fw.undefined_par_in_transitions",
    FW,
    "reject",
    "framework.py:930-931 parameter in the transition matrix not on the Parameters page",
    lambda v: [[k, how] for k in _idx(_par_cells(v), 8) for how in ("replace", "append")],
    _undef_par_apply,
)


def _plain_par_rows(v):
    """parameters whose function can be overwritten without touching another rule first (not timed)"""
    return [p for p in v.pars() if not p["timed"]]


def _set_fn(v, p, fn):
    v.tab("parameters").set(p["row"], "function", fn)


def _fn_entry(id, verdict, rule, fns):
    def sites(v):
        return [[k, j] for k in _idx(_plain_par_rows(v), 6) for j in range(len(fns))]

    def apply(v, site):
        k, j = site
        p = _plain_par_rows(v)[k]
        fn = fns[j]
        _set_fn(v, p, fn(v, p) if callable(fn) else fn)

    reg(id, FW, verdict, rule, sites, apply)


def _first_comp(v, p=None):
    return [c["name"] for c in v.comps() if not c["src"] and not c["sink"]][0]


_fn_entry(
    "fw.undefined_in_function",
    "reject",
    "framework.py:1134-1136 function depends on a quantity that is no Compartment, Characteristic or Parameter; 1047-1049/1061-1069 flow of an undefined parameter/compartment",
    [UNDEF + " * 2", lambda v, p: "%s + %s" % (_first_comp(v), UNDEF), UNDEF + ":flow", lambda v, p: "%s:%s" % (UNDEF, _first_comp(v))],
)
_fn_entry("fw.unsupported_call", "reject", "function_parser.py:78-79,154-155 only calls to supported functions are allowed (docstring: 'for security, only a subset of Python functions')", ["open(1)", "abs(dt)", "eval(1)", lambda v, p: "int(%s)" % _first_comp(v)])
_fn_entry("fw.double_underscore", "reject", "function_parser.py:144 'Cannot use double underscores in functions'", ["dt__x + 1", lambda v, p: "%s.__class__" % _first_comp(v)])
_fn_entry("fw.syntax_error", "reject", "function_parser.py:147 the function must be a single Python expression", ["2 * (", "1 +", "dt dt", lambda v, p: "%s = 1" % _first_comp(v)])
_fn_entry("fw.function_not_a_string", "reject", "framework.py:1021-1023 the function must be specified as a string", [5, 0.25])
_fn_entry(
    "fw.self_reference",
    "reject",
    "framework.py:1121-1123 a function that refers to its own parameter is only allowed for derivative parameters",
    [lambda v, p: "%s * 0.5" % p["name"], lambda v, p: "max(%s, 0.1)" % p["name"]],
)


def _selfref_sites(v):
    return [k for k, p in enumerate(_plain_par_rows(v)) if not p["deriv"]][:8]


ENTRIES["fw.self_reference"].sites = lambda v: [[k, j] for k in _selfref_sites(v) for j in range(2)]


def _agg_fn(v, p):
    names = [c["name"] for c in v.comps() if not c["src"] and not c["sink"]]
    a = names[0]
    b = names[1] if len(names) > 1 else names[0]
    return "SRC_POP_AVG(%s + %s)" % (a, b)


_fn_entry(
    "fw.aggregation_of_expression",
    "reject",
    "framework.py:1138-1144 population aggregation only supports a single quantity, not an expression",
    [_agg_fn, lambda v, p: _agg_fn(v, p).replace("SRC_POP_AVG", "TGT_POP_SUM")],
)


def _cycle_sites(v):
    ps = [p for p in _plain_par_rows(v) if not p["deriv"]]
    return [[i, j] for i in range(min(len(ps), 5)) for j in range(min(len(ps), 5)) if i < j and ps[i]["type"] == ps[j]["type"]]


def _cycle_apply(v, site):
    ps = [p for p in _plain_par_rows(v) if not p["deriv"]]
    a, b = ps[site[0]], ps[site[1]]
    _set_fn(v, a, "%s * 1.0" % b["name"])
    _set_fn(v, b, "%s + 0.0" % a["name"])


reg("fw.cyclic_functions", FW, "reject", "framework.py:1199-1205 circular dependencies between parameter functions are not allowed", _cycle_sites, _cycle_apply)


def _inter_fn_sites(v):
    return [[k, 0] for k in _idx(_plain_par_rows(v), 6)] if v.inters() else []


def _inter_fn_apply(v, site):
    _set_fn(v, _plain_par_rows(v)[site[0]], "%s * 2" % v.inters()[0]["name"])


reg("fw.interaction_outside_aggregation", FW, "reject", "framework.py:1079-1082 an interaction may only appear inside a population aggregation", _inter_fn_sites, _inter_fn_apply)


def _flowdep_sites(v):
    lp = v.links_of_par()
    tp = [p for p in _plain_par_rows(v) if p["name"] in lp]
    return [[i, j] for i in _idx(tp, 5) for j in _idx(tp, 5) if i != j]


def _flowdep_apply(v, site):
    lp = v.links_of_par()
    tp = [p for p in _plain_par_rows(v) if p["name"] in lp]
    _set_fn(v, tp[site[0]], "%s:flow" % tp[site[1]]["name"])


reg("fw.transition_par_depends_on_flow", FW, "reject", "framework.py:1039-1041 transition parameters cannot depend on flow rates", _flowdep_sites, _flowdep_apply)


def _charac_ref_sites(v):
    return [[k, what] for k in _idx(v.characs(), 6) for what in ("components", "denominator")]


def _charac_ref_apply(v, site):
    k, what = site
    x = v.characs()[k]
    t = v.tab("characteristics")
    if what == "components":
        t.set(x["row"], "components", "%s, %s" % (x["inc"], UNDEF))
    else:
        t.set(x["row"], "denominator", UNDEF)


reg("fw.undefined_in_characteristic", FW, "reject", "framework.py:777-778 (denominator), 794-795 (component) not recognised as a Compartment or Characteristic", _charac_ref_sites, _charac_ref_apply)


def _casc_rows(v):
    out = []
    for c in v.cascades:
        for r in range(c["r0"] + 1, c["r1"] + 1):
            out.append(r)
    return out


def _casc_undef_apply(v, site):
    ws = v.ws["cascades"]
    r = _casc_rows(v)[site]
    ws.cell(row=r, column=2).value = "%s, %s" % (_s(ws.cell(row=r, column=2).value), UNDEF)


reg("fw.undefined_in_cascade", FW, "reject", "framework.py:1270-1272 cascade constituent not recognised as a Compartment or Characteristic", lambda v: _idx(_casc_rows(v), 6), _casc_undef_apply)

# ---- names -----------------------------------------------------------------------------------------------------


def _new_row(v, sheet, code, display):
    """append a well-formed, otherwise harmless row with the given code / display name"""
    if sheet == "parameters":
        v.add_par(code, fmt=None, fn="0.1 + 0", display=display)
    elif sheet == "compartments":
        v.tab("compartments").append(code_name=code, display_name=display, is_source="n", is_sink="n", is_junction="n")
    elif sheet == "characteristics":
        v.tab("characteristics").append(code_name=code, display_name=display, components=_first_comp(v))
    elif sheet == "interactions":
        if "interactions" not in v.t:
            ws = v.wb.create_sheet("Interactions")
            ws.cell(row=1, column=1).value = "Code Name"
            ws.cell(row=1, column=2).value = "Display Name"
            v.ws["interactions"] = ws
            v.t["interactions"] = Table(ws)
        v.tab("interactions").append(code_name=code, display_name=display)
    elif sheet == "population types":
        if "population types" not in v.t:
            ws = v.wb.create_sheet("Population Types")
            _append_table(ws, [["Code Name", "Description"], ["default", "Default"]])
            v.ws["population types"] = ws
            v.t["population types"] = Table(ws)
        v.tab("population types").append(code_name=code, description=display)
    else:
        raise KeyError(sheet)


def _dup_code_sites(v):
    out = []
    existing = {"compartments": [c["name"] for c in v.comps()], "characteristics": [x["name"] for x in v.characs()], "parameters": [p["name"] for p in v.pars()], "interactions": [w["name"] for w in v.inters()], "population types": v.pop_types()}
    for new_sheet in ("parameters", "compartments", "characteristics"):
        if v.tab(new_sheet) is None:
            continue
        for src, names in existing.items():
            for k in _idx(names, 3):
                out.append([new_sheet, src, k])
    return out


def _dup_code_apply(v, site):
    new_sheet, src, k = site
    existing = {"compartments": [c["name"] for c in v.comps()], "characteristics": [x["name"] for x in v.characs()], "parameters": [p["name"] for p in v.pars()], "interactions": [w["name"] for w in v.inters()], "population types": v.pop_types()}
    _new_row(v, new_sheet, existing[src][k], "ZZ duplicate code")


reg("fw.duplicate_code_name", FW, "reject", "framework.py:1485-1486 (same sheet: row indices not unique), 1210-1224 (_validate_names: duplicate code name across compartments, characteristics, parameters, interactions, population types)", _dup_code_sites, _dup_code_apply)


def _display_cells(v):
    out = []
    for sh in ("compartments", "characteristics", "parameters", "interactions"):
        t = v.tab(sh)
        if t is None or "display name" not in t.cols:
            continue
        for r in t.rows:
            out.append((sh, r, t.get(r, "display name")))
    return out


def _dup_display_sites(v):
    cells = _display_cells(v)
    n = len(cells)
    out = []
    for i in range(n):
        for j in (i + 1, n - 1 - i, (i * 7 + 3) % n):
            if 0 <= j < n and j != i and cells[i][2] != cells[j][2]:
                out.append([i, j])
    return out[:40]


def _dup_display_apply(v, site):
    cells = _display_cells(v)
    sh, r, _ = cells[site[0]]
    v.tab(sh).set(r, "display name", cells[site[1]][2])


reg("fw.duplicate_display_name", FW, "reject", "framework.py:1226-1232 _validate_names: duplicate display name", _dup_display_sites, _dup_display_apply)

# The harness' OWN list of reserved names (deliberately not read from atomica): every name that means something inside a parameter function -
# the whitelisted functions and the constant pi (function_parser.py:78-83 'Only calls to functions in the dict below will be permitted'), the time
# variables t and dt (framework.py:1030-1032 'special variables passed in by model.py') - plus the keywords of the flow / population syntax: 'flow'
# ('par:flow'), 'all' and 'total' (population aggregates; docs/examples/databooks: 'All' is a reserved keyword). system.py:88-89 states the rule.
RESERVED_FUNCTIONS = ["max", "min", "exp", "floor", "SRC_POP_AVG", "TGT_POP_AVG", "SRC_POP_SUM", "TGT_POP_SUM", "STITCH_AVG", "STITCH_SUM", "cos", "sin", "sqrt", "ln", "rand", "randn", "sdiv"]
RESERVED = ["pi", "t", "dt", "flow", "all", "total"] + RESERVED_FUNCTIONS
SYMBOLS = [":", ",", ";", "/", "+", "-", "*", "'", '"', " ", "@"]  # system.py:91 RESERVED_SYMBOLS


def _sheets_for_new_row(v):
    return [sh for sh in ("parameters", "compartments", "characteristics") if v.tab(sh) is not None and (sh != "characteristics" or v.comps())]


reg(
    "fw.reserved_code_name",
    FW,
    "reject",
    "framework.py:1218-1219 + system.py:88-89 a code name cannot be a reserved keyword",
    lambda v: [[sh, k] for k in range(len(RESERVED)) for sh in _sheets_for_new_row(v) + ["interactions", "population types"]],
    lambda v, site: _new_row(v, site[0], RESERVED[site[1]], "ZZ reserved name"),
)
ENTRIES["fw.reserved_code_name"].exhaustive = True


def _reserved_casc_apply(v, site):
    what, k = site
    names = _body_by_type(v)
    first = sorted(names.items())[0][1][0]
    if what == "cascade":
        _append_table(_casc_sheet(v), [[RESERVED[k], "Constituents"], ["Stage one", first]])
    else:
        _append_table(_casc_sheet(v), [["zz cascade", "Constituents"], [RESERVED[k], first]])


reg(
    "fw.reserved_cascade_or_stage_name",
    FW,
    "reject",
    "framework.py:1252-1254 a cascade name and 1261-1263 a cascade stage name cannot be a reserved keyword (system.py:88-89)",
    lambda v: [[what, k] for k in range(len(RESERVED)) for what in ("cascade", "stage")] if _body_by_type(v) else [],
    _reserved_casc_apply,
)
ENTRIES["fw.reserved_cascade_or_stage_name"].exhaustive = True
reg(
    "fw.reserved_symbol_in_code_name",
    FW,
    "reject",
    "framework.py:1215-1216 + system.py:91 a code name cannot contain a reserved symbol",
    lambda v: [[sh, k] for sh in _sheets_for_new_row(v) for k in range(len(SYMBOLS))],
    lambda v, site: _new_row(v, site[0], "zz%sq" % SYMBOLS[site[1]], "ZZ reserved symbol"),
)


def _blank_cell_sites(col):
    def f(v):
        out = []
        for sh in ("compartments", "characteristics", "parameters", "interactions"):
            t = v.tab(sh)
            if t is not None and col in t.cols:
                out += [[sh, k] for k in _idx(t.rows, 4)]
        return out

    return f


def _blank_cell_apply(col):
    def f(v, site):
        t = v.tab(site[0])
        t.ws.cell(row=t.rows[site[1]], column=t.cols[col]).value = None

    return f


reg("fw.blank_display_name", FW, "reject", "framework.py:632,712,806,848 valid_content None + 1504-1506 'display name' cannot contain empty cells", _blank_cell_sites("display name"), _blank_cell_apply("display name"))
reg("fw.blank_code_name", FW, "reject", "framework.py:1482-1483 the first column (code name) cannot contain an empty cell", _blank_cell_sites("code name"), _blank_cell_apply("code name"))


def _dup_header_sites(v):
    return [sh for sh in ("compartments", "parameters", "characteristics") if v.tab(sh) is not None and "display name" in v.tab(sh).cols]


def _dup_header_apply(v, site):
    t = v.tab(site)
    t.ws.cell(row=t.r0, column=t.last_col() + 1).value = "Display Name"


reg("fw.duplicate_heading", FW, "reject", "framework.py:1471-1474 duplicate headings are not allowed", _dup_header_sites, _dup_header_apply)

# ---- units and link structure ------------------------------------------------------------------------------------


def _pars_out_of(v, kind):
    """parameters with at least one outflow from a compartment of the given kind -> [(par dict, from comp)]"""
    kinds = v.kind()
    lp = v.links_of_par()
    out = []
    for p in v.pars():
        for a, b in lp.get(p["name"], []):
            if kinds.get(a) == kind:
                out.append((p, a))
                break
    return out


def _fmt_entry(id, rule, kind, good, bad):
    def sites(v):
        return [[k, j] for k in _idx([x for x in _pars_out_of(v, kind) if x[0]["fmt"] == good], 6) for j in range(len(bad))]

    def apply(v, site):
        p = [x for x in _pars_out_of(v, kind) if x[0]["fmt"] == good][site[0]][0]
        v.tab("parameters").set(p["row"], "format", bad[site[1]])

    reg(id, FW, "reject", rule, sites, apply)


_fmt_entry("fw.junction_outflow_wrong_unit", "framework.py:1173-1175 an outflow from a junction must be in 'proportion' units (docs/general/junctions)", "junc", "proportion", ["rate", "probability", "number", "duration"])
_fmt_entry("fw.source_outflow_wrong_unit", "framework.py:1169-1172 an outflow from a source compartment must be in 'number' units", "src", "number", ["rate", "probability", "duration", "proportion"])


def _prop_nonjunc_sites(v):
    return _idx([x for x in _pars_out_of(v, "ord") if x[0]["fmt"] in ("rate", "probability", "number", "duration") and not x[0]["timed"]], 6)


def _prop_nonjunc_apply(v, site):
    p = [x for x in _pars_out_of(v, "ord") if x[0]["fmt"] in ("rate", "probability", "number", "duration") and not x[0]["timed"]][site][0]
    v.tab("parameters").set(p["row"], "format", "proportion")
    v.tab("parameters").set(p["row"], "timescale", None)


reg("fw.proportion_outside_junction", FW, "reject", "framework.py:1177-1178 'proportion' units are only allowed for outflows from junctions", _prop_nonjunc_sites, _prop_nonjunc_apply)


def _ord_comps(v):
    return [c["name"] for c in v.comps() if not (c["src"] or c["sink"] or c["junc"])]


def _same_matrix(v, a, b):
    return any(a in m["rows"] and b in m["cols"] for m in v.matrices)


def _src_in_sites(v):
    srcs = [c["name"] for c in v.comps() if c["src"]]
    return [[s, k] for s in srcs for k, a in enumerate(_ord_comps(v)[:5]) if _same_matrix(v, a, s)]


def _src_in_apply(v, site):
    s, k = site
    v.add_par("zz_new", fmt="rate")
    v.place(_ord_comps(v)[k], s, "zz_new")


reg("fw.inflow_to_source", FW, "reject", "framework.py:1186-1188 a parameter cannot have an inflow to a source compartment", _src_in_sites, _src_in_apply)


def _sink_out_sites(v):
    sinks = [c["name"] for c in v.comps() if c["sink"]]
    return [[s, k] for s in sinks for k, b in enumerate(_ord_comps(v)[:5]) if _same_matrix(v, s, b)]


def _sink_out_apply(v, site):
    s, k = site
    v.add_par("zz_new", fmt="rate")
    v.place(s, _ord_comps(v)[k], "zz_new")


reg("fw.outflow_from_sink", FW, "reject", "framework.py:1166-1168 a parameter cannot have an outflow from a sink compartment", _sink_out_sites, _sink_out_apply)


def _two_links_sites(v):
    out = []
    cells = _par_cells(v)
    for k, (i, r, c, a, b, text) in enumerate(cells[:8]):
        m = v.matrices[i]
        for j, (b2, c2) in enumerate(list(m["cols"].items())[:6]):
            if b2 != b and b2 != a:
                out.append([k, j])
    return out[:30]


def _two_links_apply(v, site):
    i, r, c, a, b, text = _par_cells(v)[site[0]]
    b2 = list(v.matrices[i]["cols"])[site[1]]
    v.place(a, b2, text.split(",")[0].strip())


reg("fw.par_twice_from_same_compartment", FW, "reject", "framework.py:1162-1163 a parameter cannot drive more than one transition from the same compartment", _two_links_sites, _two_links_apply)


def _trans_pars(v):
    lp = v.links_of_par()
    return [p for p in v.pars() if p["name"] in lp]


reg(
    "fw.transition_par_without_format",
    FW,
    "reject",
    "framework.py:1148-1150 a transition parameter needs a format",
    lambda v: _idx(_trans_pars(v), 8),
    lambda v, site: v.tab("parameters").set(_trans_pars(v)[site]["row"], "format", None),
)
reg(
    "fw.transition_par_unknown_format",
    FW,
    "reject",
    "framework.py:1152-1154 a transition parameter must be in number/probability/rate/duration/proportion units",
    lambda v: [[k, j] for k in _idx(_trans_pars(v), 6) for j in range(2)],
    lambda v, site: v.tab("parameters").set(_trans_pars(v)[site[0]]["row"], "format", ["fraction", "per annum"][site[1]]),
)


def _nofn_sites(v):
    return _idx(v.pars(), 10)


def _nofn_apply(v, site):
    p = v.pars()[site]
    t = v.tab("parameters")
    if "function" in t.cols:
        t.set(p["row"], "function", None)
    t.set(p["row"], "databook page", None)


reg("fw.no_function_no_databook_page", FW, "reject", "framework.py:1012-1019 a parameter needs a function or a databook page", _nofn_sites, _nofn_apply)


def _timed_pars(v):
    return [p for p in v.pars() if p["timed"]]


reg(
    "fw.timed_not_duration",
    FW,
    "reject",
    "framework.py:996-998 a timed parameter must be in duration units (docs/general/timed-transitions)",
    lambda v: [[k, j] for k in _idx(_timed_pars(v), 4) for j in range(3)],
    lambda v, site: v.tab("parameters").set(_timed_pars(v)[site[0]]["row"], "format", ["rate", "probability", "number"][site[1]]),
)


def _make_timed_sites(v):
    return _idx([p for p in _trans_pars(v) if not p["timed"] and p["fmt"] in ("rate", "probability", "number")], 6)


def _make_timed_apply(v, site):
    p = [p for p in _trans_pars(v) if not p["timed"] and p["fmt"] in ("rate", "probability", "number")][site]
    v.tab("parameters").set(p["row"], "timed", "y")


reg("fw.timed_flag_on_non_duration", FW, "reject", "framework.py:996-998 a parameter marked timed must be in duration units", _make_timed_sites, _make_timed_apply)
reg(
    "fw.timed_targetable",
    FW,
    "reject",
    "framework.py:1003-1004 a timed parameter cannot be targeted by programs",
    lambda v: _idx(_timed_pars(v), 4),
    lambda v, site: v.tab("parameters").set(_timed_pars(v)[site]["row"], "targetable", "y"),
)
reg(
    "fw.timed_derivative",
    FW,
    "reject",
    "framework.py:975-979, 1000-1001 a timed parameter cannot be a derivative parameter (and a derivative needs a function)",
    lambda v: _idx(_timed_pars(v), 4),
    lambda v, site: v.tab("parameters").set(_timed_pars(v)[site]["row"], "is derivative", "y"),
)
reg(
    "fw.derivative_without_function",
    FW,
    "reject",
    "framework.py:975-976 a derivative parameter needs a function",
    lambda v: _idx([p for p in v.pars() if _blank(p["fn"])], 6),
    lambda v, site: v.tab("parameters").set([p for p in v.pars() if _blank(p["fn"])][site]["row"], "is derivative", "y"),
)


def _ts_pars(v, fmts):
    return [p for p in v.pars() if p["fmt"] in fmts]


reg(
    "fw.proportion_with_timescale",
    FW,
    "reject",
    "framework.py:990-992 a parameter in proportion units cannot have a timescale",
    lambda v: _idx(_ts_pars(v, ("proportion",)), 6),
    lambda v, site: v.tab("parameters").set(_ts_pars(v, ("proportion",))[site]["row"], "timescale", 1),
)
reg(
    "fw.nonpositive_timescale",
    FW,
    "reject",
    "framework.py:993-994 timescales must be > 0",
    lambda v: [[k, j] for k in _idx(_ts_pars(v, ("rate", "probability", "number", "duration")), 6) for j in range(2)],
    lambda v, site: v.tab("parameters").set(_ts_pars(v, ("rate", "probability", "number", "duration"))[site[0]]["row"], "timescale", [0, -1][site[1]]),
)
reg(
    "fw.text_in_numeric_column",
    FW,
    "reject",
    "framework.py:1517-1524 numeric columns (minimum/maximum value, timescale, default value, databook order) must contain numbers",
    lambda v: [[k, c] for k in _idx(v.pars(), 4) for c in ("minimum value", "maximum value", "timescale", "databook order")],
    lambda v, site: v.tab("parameters").set(v.pars()[site[0]]["row"], site[1], "abc"),
)


def _flag_sites(v):
    out = [["compartments", k, c] for k in _idx(v.comps(), 4) for c in ("is source", "is sink", "is junction")]
    out += [["parameters", k, c] for k in _idx(v.pars(), 4) for c in ("targetable", "timed", "is derivative")]
    return out


reg("fw.invalid_flag_value", FW, "reject", "framework.py:631-636, 847-852 + 1507-1510 y/n columns can only contain 'y' or 'n'", _flag_sites, lambda v, site: v.tab(site[0]).set(v.tab(site[0]).rows[site[1]], site[2], "maybe"))


def _two_kinds_sites(v):
    return [[k, j] for k, c in enumerate(v.comps()[:8]) for j in range(2)]


def _two_kinds_apply(v, site):
    c = v.comps()[site[0]]
    t = v.tab("compartments")
    a, b = [("is source", "is sink"), ("is sink", "is junction")][site[1]]
    t.set(c["row"], a, "y")
    t.set(c["row"], b, "y")


reg("fw.two_compartment_kinds", FW, "reject", "framework.py:677-678 a compartment can only be one of sink, source, junction", _two_kinds_sites, _two_kinds_apply)
reg(
    "fw.source_in_databook",
    FW,
    "reject",
    "framework.py:689-690 a source or sink compartment cannot have a databook page (680-681: nor a setup weight)",
    lambda v: _idx([c for c in v.comps() if c["src"] or c["sink"]], 4),
    lambda v, site: v.tab("compartments").set([c for c in v.comps() if c["src"] or c["sink"]][site]["row"], "databook page", [p for p in [c["page"] for c in v.comps()] + [p["page"] for p in v.pars()] if p][0]),
)
reg(
    "fw.unknown_population_type",
    FW,
    "reject",
    "framework.py:700-701, 783-784, 972-973 population type must appear on the 'population types' sheet",
    lambda v: [[sh, k] for sh in ("compartments", "characteristics", "parameters") if v.tab(sh) is not None for k in _idx(v.tab(sh).rows, 3)],
    lambda v, site: v.tab(site[0]).set(v.tab(site[0]).rows[site[1]], "population type", "zz_type"),
)

# ---- cascades --------------------------------------------------------------------------------------------------------


def _append_table(ws, rows):
    r = ws.max_row + 2 if ws.max_row > 1 or ws.cell(row=1, column=1).value is not None else 1
    for i, row in enumerate(rows):
        for j, v in enumerate(row):
            ws.cell(row=r + i, column=j + 1, value=v)


def _casc_sheet(v):
    if "cascades" not in v.ws:
        v.ws["cascades"] = v.wb.create_sheet("Cascades")
    return v.ws["cascades"]


def _body_by_type(v):
    d = {}
    types = v.pop_types()
    for c in v.comps():
        if not c["src"] and not c["sink"]:
            d.setdefault(c["type"] or (types[0] if types else "default"), []).append(c["name"])
    return d


def _unnested_sites(v):
    out = []
    for ty, names in _body_by_type(v).items():
        for i in range(min(len(names), 4)):
            for j in range(min(len(names), 4)):
                if i != j:
                    out.append([ty, i, j])
    return out


def _unnested_apply(v, site):
    ty, i, j = site
    names = _body_by_type(v)[ty]
    _append_table(_casc_sheet(v), [["zz cascade", "Constituents"], ["Stage one", names[i]], ["Stage two", "%s, %s" % (names[i], names[j])]])


reg("fw.unnested_cascade", FW, "reject", "cascade.py:264-266, 298-320 every stage must be a subset of the previous stage (InvalidCascade); framework.py:1274-1277", _unnested_sites, _unnested_apply)


def _later_stage_sites(v):
    out = []
    for ty, names in _body_by_type(v).items():
        if len(names) >= 2:
            out += [[ty, i, j] for i in range(min(len(names), 3)) for j in range(min(len(names), 3)) if i != j]
    return out


def _later_stage_apply(v, site):
    ty, i, j = site
    names = _body_by_type(v)[ty]
    # stage three is a subset of stage one but not of stage two
    _append_table(_casc_sheet(v), [["zz cascade", "Constituents"], ["Stage one", ", ".join(names)], ["Stage two", names[i]], ["Stage three", "%s, %s" % (names[i], names[j])]])


reg(
    "fw.unnested_later_stage",
    FW,
    "reject",
    "cascade.py:264 'A cascade is invalid if any stage does not contain a compartment that appears in subsequent stages', 298-320 each stage is compared with the stage immediately before it (InvalidCascade)",
    _later_stage_sites,
    _later_stage_apply,
)


def _fallback_sites(v):
    names = [n for ns in _body_by_type(v).values() for n in ns]
    t = v.tab("characteristics")
    if t is None or len(_body_by_type(v)) != 1 or len(names) < 2:
        return []
    return [[i, j] for i in range(min(len(names), 3)) for j in range(min(len(names), 3)) if i != j]


def _fallback_apply(v, site):
    names = [n for ns in _body_by_type(v).values() for n in ns]
    if "cascades" in v.ws:
        v.wb.remove(v.ws["cascades"])
    t = v.tab("characteristics")
    t.append(code_name="zz_x1", display_name="ZZ x1", components=names[site[0]])
    t.append(code_name="zz_x2", display_name="ZZ x2", components=names[site[1]])


reg(
    "fw.unnested_fallback_cascade",
    FW,
    "reject",
    "framework.py:1240-1247 without a Cascades sheet the characteristics form the fallback cascade, which must be nested too (cascade.py:298-320, message 313-314)",
    _fallback_sites,
    _fallback_apply,
)


def _multitype_sites(v):
    return _idx(_ord_comps(v), 4) if v.tab("compartments") is not None and _ord_comps(v) else []


def _multitype_apply(v, site):
    types = v.pop_types()
    if not types:
        ws = v.wb.create_sheet("Population Types")
        _append_table(ws, [["Code Name", "Description"], ["default", "Default"], ["zz_type", "Second type"]])
        other = "zz_type"
    elif len(types) == 1:
        v.tab("population types").append(code_name="zz_type", description="Second type")
        other = "zz_type"
    else:
        other = types[1]
    first = _ord_comps(v)[site]
    ftype = [c["type"] for c in v.comps() if c["name"] == first][0] or (types[0] if types else "default")
    if other == ftype:
        other = types[0]
    t = v.tab("compartments")
    r = t.append(code_name="zz_c", display_name="ZZ other type", is_source="n", is_sink="n", is_junction="n")
    t.set(r, "population type", other)
    _append_table(_casc_sheet(v), [["zz cascade", "Constituents"], ["Stage one", "%s, zz_c" % first], ["Stage two", "zz_c"]])


reg(
    "fw.cascade_spans_population_types",
    FW,
    "reject",
    "cascade.py:265-266 (docstring) all compartments of a cascade must belong to the same population type; 292-296",
    _multitype_sites,
    _multitype_apply,
)


def _casc_name_sites(v):
    return [[k, j] for k in _idx(v.cascades, 2) for j in range(3)] if v.cascades else []


def _casc_name_apply(v, site):
    c = v.cascades[site[0]]
    names = [RESERVED[3], v.all_codes()[0], _display_cells(v)[0][2]]
    v.ws["cascades"].cell(row=c["r0"], column=1).value = names[site[1]]


reg("fw.cascade_name_collision", FW, "reject", "framework.py:1251-1259 a cascade name cannot be a reserved keyword nor a code / display name of a framework quantity", _casc_name_sites, _casc_name_apply)

# ---- plots ---------------------------------------------------------------------------------------------------------------


def _plots_apply(v, site):
    if "plots" in v.ws:
        v.wb.remove(v.ws["plots"])
    ws = v.wb.create_sheet("Plots")
    q = _first_comp(v)
    if site == 0:
        _append_table(ws, [["Name", "Type", "Quantities"], ["Plot A", "series", q], ["Plot B", "series", UNDEF]])
    else:
        _append_table(ws, [["Name", "Type", "Quantities"], ["Plot A", "series", q], ["Plot A", "series", q]])


reg("fw.bad_plots_sheet", FW, "reject", "framework.py:1296-1298 duplicate plot names, 1309-1311 plot quantity not defined in the framework", lambda v: [0, 1] if v.comps() else [], _plots_apply)

# ---- harmless edits (accept) ---------------------------------------------------------------------------------------------


def _cap_sites(v):
    return [[k, j] for k in _idx([p for p in v.pars() if p["fmt"] in ("rate", "probability", "number", "duration", "proportion")], 8) for j in range(3)]


def _cap_apply(v, site):
    p = [p for p in v.pars() if p["fmt"] in ("rate", "probability", "number", "duration", "proportion")][site[0]]
    f = p["fmt"]
    v.tab("parameters").set(p["row"], "format", [f.title(), f.upper(), " %s " % f.title()][site[1]])


reg(
    "fw.capitalised_format",
    FW,
    "accept",
    "framework.py:865 (format is stripped), 872-875 'If framework has units that case-insensitively match the standard units, then correct the case'; library sir_framework.xlsx uses 'Probability', 'Duration', 'Rate'",
    _cap_sites,
    _cap_apply,
)


def _ignore_row_sites(v):
    return [[sh, k] for sh in ("compartments", "parameters", "characteristics") if v.tab(sh) is not None and v.tab(sh).rows for k in range(2)]


def _ignore_row_apply(v, site):
    t = v.tab(site[0])
    r = t.rows[0] if site[1] == 0 else t.rows[-1] + 1
    t.ws.insert_rows(r)
    t.ws.cell(row=r, column=1).value = "#ignore this row is a comment"
    t.ws.cell(row=r, column=2).value = "free text, : , ; that would be invalid anywhere else"


reg("fw.ignore_row", FW, "accept", "docs/general/skipping-excel-cells.ipynb + excel.py:293-298 a row whose first cell starts with #ignore is skipped", _ignore_row_sites, _ignore_row_apply)


def _blank_row_apply(v, site):
    t = v.tab(site[0])
    r = t.rows[len(t.rows) // 2] if site[1] == 0 else t.rows[0]
    t.ws.insert_rows(r)


reg("fw.blank_row_in_table", FW, "accept", "framework.py:68-74 on the compartments/parameters/characteristics sheets blank lines are ignored (tables are merged)", _ignore_row_sites, _blank_row_apply)


def _extra_col_apply(v, site):
    t = v.tab(site[0])
    c = t.last_col() + 1
    if site[1] == 0:
        t.ws.cell(row=t.r0, column=c).value = "My Notes"
        for r in t.rows:
            t.ws.cell(row=r, column=c).value = "note %d" % r
    else:  # '#ignore' in every row (heading included): nothing to its right is parsed
        for r in [t.r0] + t.rows:
            t.ws.cell(row=r, column=c).value = "#ignore"
            t.ws.cell(row=r, column=c + 1).value = "free text %d" % r


reg("fw.extra_column", FW, "accept", "docs/general/skipping-excel-cells.ipynb (Frameworks: within each row nothing after a '#ignore' is parsed, excel.py:299-302); columns with an unknown heading are kept untouched (framework.py:1476-1510 only required columns / valid_content are checked)", _ignore_row_sites, _extra_col_apply)


def _extra_sheet_apply(v, site):
    ws = v.wb.create_sheet(["Notes", "My Data"][site])
    _append_table(ws, [["Key", "Value"], ["a", 1], ["b", 2]])
    _append_table(ws, [["Another table"], ["x"]])


reg("fw.extra_sheet", FW, "accept", "framework.py:68-78 every sheet is read into ProjectFramework.sheets; users can add their own sheets", lambda v: [0, 1], _extra_sheet_apply)


def _header_case_apply(v, site):
    t = v.tab(site[0])
    for c in t.ws[t.r0]:
        if isinstance(c.value, str):
            c.value = c.value.upper() if site[1] == 0 else "  %s " % c.value.lower()


reg("fw.header_case_and_spaces", FW, "accept", "framework.py:88-90 column headings are lower-cased; excel.py:304 strings are stripped", _ignore_row_sites, _header_case_apply)


def _move_col_sites(v):
    return [[sh, 0] for sh in ("compartments", "parameters", "characteristics") if v.tab(sh) is not None and v.tab(sh).rows and "display name" in v.tab(sh).cols]


def _move_col_apply(v, site):
    t = v.tab(site[0])
    src = t.cols["display name"]
    dst = t.last_col() + 1
    for r in [t.r0] + t.rows:
        t.ws.cell(row=r, column=dst).value = t.ws.cell(row=r, column=src).value
    t.ws.delete_cols(src)


reg("fw.reorder_columns", FW, "accept", "framework.py:1476-1490 columns are found by heading, not by position", _move_col_sites, _move_col_apply)


def _corner_sites(v):
    return [[i, j] for i in _idx(v.matrices, 2) for j in range(2)] if len(v.pop_types()) <= 1 and len(v.matrices) == 1 else []


def _corner_apply(v, site):
    m = v.matrices[site[0]]
    v.ws["transitions"].cell(row=m["r0"], column=1).value = [None, "Transition matrix"][site[1]]


reg("fw.transition_corner_label", FW, "accept", "framework.py:900-904 an empty corner cell or 'Transition matrix' assigns the matrix to the first population type", _corner_sites, _corner_apply)

reg("fw.identity", FW, "accept", "unchanged valid file (library files shipped with the package / generated valid frameworks)", lambda v: [0], lambda v, site: None)


# ======================================================================================== DATABOOK entries
DB = "databook"
SPECIAL_DB_SHEETS = {"Population Definitions", "Transfers", "Interactions", "Metadata"}
KNOWN_TDVE_HEADINGS = {"units", "uncertainty", "constant", "assumption"}


def _isnum(v):
    return isinstance(v, (int, float)) and not isinstance(v, bool)


def _year(v):
    """heading of a time column: a number or a date (excel.py:1207-1215) -> float year, else None"""
    import datetime

    if _isnum(v):
        return float(v)
    if isinstance(v, (datetime.datetime, datetime.date)):
        return v.year + (v.timetuple().tm_yday - 1) / 366.0
    return None


class TdveTable:
    """one time-dependent-values table (databook quantity page or progbook spending sheet)"""

    def __init__(self, ws, r0, r1):
        self.ws, self.r0, self.r1 = ws, r0, r1
        self.name = _s(ws.cell(row=r0, column=1).value)
        self.cols = {}
        self.years = {}
        for c in ws[r0][1:]:
            v = c.value
            if isinstance(v, str):
                if v.strip().startswith("#ignore"):
                    break
                if v.strip():
                    self.cols[v.strip().lower()] = c.column
            elif _year(v) is not None:
                self.years[_year(v)] = c.column
        self.rows = [r for r in range(r0 + 1, r1 + 1) if not _blank(ws.cell(row=r, column=1).value) and not str(ws.cell(row=r, column=1).value).startswith("#ignore")]

    def label(self, r):
        return _s(self.ws.cell(row=r, column=1).value)

    def const_col(self):
        return self.cols.get("constant") or self.cols.get("assumption")

    def value_cols(self):
        return ([self.const_col()] if self.const_col() else []) + list(self.years.values())

    def has_data(self, r):
        return any(_isnum(self.ws.cell(row=r, column=c).value) for c in self.value_cols())

    def blank_values(self, r):
        for c in self.value_cols():
            self.ws.cell(row=r, column=c).value = None

    def last_col(self):
        return max([1] + list(self.cols.values()) + list(self.years.values()))


def _tdve_tables(ws):
    return [TdveTable(ws, r0, r1) for r0, r1 in xw.table_blocks(ws)]


class DbView:
    """what a databook workbook says (values mode), read with openpyxl only.  `F` (the loaded framework) is only used to
    look up which framework quantity a table belongs to (display name -> code name, default value, format)."""

    def __init__(self, wb, F=None):
        self.wb, self.F = wb, F
        self.ws = {ws.title: ws for ws in wb.worksheets}
        self.pops = []
        if "Population Definitions" in self.ws:
            ws = self.ws["Population Definitions"]
            for r in range(2, ws.max_row + 1):
                if not _blank(ws.cell(row=r, column=1).value):
                    self.pops.append({"code": _s(ws.cell(row=r, column=1).value), "label": _s(ws.cell(row=r, column=2).value), "row": r, "type": _s(ws.cell(row=r, column=3).value)})
        self.tables = []
        for title, ws in self.ws.items():
            if title in SPECIAL_DB_SHEETS or title.startswith("#ignore"):
                continue
            self.tables += _tdve_tables(ws)
        self.tdc = {"Transfers": [], "Interactions": []}
        for title in self.tdc:
            if title in self.ws:
                ws = self.ws[title]
                blocks = xw.table_blocks(ws)
                for i in range(0, len(blocks) - 2, 3):
                    d, m, t = blocks[i : i + 3]
                    hdr = {}
                    for c in ws[t[0]]:
                        if isinstance(c.value, str) and c.value.strip():
                            hdr[c.value.strip().lower()] = c.column
                        elif _year(c.value) is not None:
                            hdr.setdefault("years", []).append(c.column)
                    rows = [r for r in range(t[0] + 1, t[1] + 1) if not _blank(ws.cell(row=r, column=1).value) and ws.cell(row=r, column=1).value != "..."]
                    self.tdc[title].append({"ws": ws, "def": d, "matrix": m, "ts": t, "code": _s(ws.cell(row=d[0] + 1, column=1).value), "hdr": hdr, "rows": rows})

    def spec_of(self, table):
        """framework row of the quantity a TDVE table belongs to (None if unknown)"""
        try:
            return self.F.get_variable(table.name)[0]
        except Exception:
            return None

    def required_tables(self):
        import pandas as pd

        out = []
        for t in self.tables:
            s = self.spec_of(t)
            if s is not None and not pd.isna(s["databook page"]):
                out.append(t)
        return out

    def framework_codes(self):
        F = self.F
        return list(F.comps.index) + list(F.characs.index) + list(F.pars.index)

    def replace_everywhere(self, old, new):
        n = 0
        for ws in self.wb.worksheets:
            for row in ws.iter_rows():
                for c in row:
                    if isinstance(c.value, str) and c.value.strip() == old:
                        c.value = new
                        n += 1
        return n


def _tv_sites(v, tables=None, pred=None, nt=6, nr=3):
    out = []
    tables = v.required_tables() if tables is None else tables
    for i, t in enumerate(tables[:nt]):
        for k, r in enumerate(t.rows[:nr]):
            if pred is None or pred(t, r):
                out.append([i, k])
    return out


def _tr(v, site):
    t = v.required_tables()[site[0]]
    return t, t.rows[site[1]]


def _db_blank_values(v, site):
    t, r = _tr(v, site)
    t.blank_values(r)


reg("db.blank_required_values", DB, "reject", "data.py:512-513 every population row of a framework quantity needs data ('Data values missing')", lambda v: _tv_sites(v, pred=lambda t, r: t.has_data(r)), _db_blank_values, "semantic")


def _has_all_row(t):
    return any(t.label(r) in ("all", "All") for r in t.rows)


def _db_delete_row(v, site):
    t, r = _tr(v, site)
    t.ws.delete_rows(r)


reg(
    "db.delete_population_row",
    DB,
    "reject",
    "data.py:502-510 a table must supply every population of its type unless it has an 'all' row (InvalidDatabook)",
    lambda v: _tv_sites(v, pred=lambda t, r: not _has_all_row(t) and t.label(r) in [p["code"] for p in v.pops] + [p["label"] for p in v.pops]),
    _db_delete_row,
    "semantic",
)


def _db_rename_row(v, site):
    t, r = _tr(v, site)
    t.ws.cell(row=r, column=1).value = "zz_unknown_pop"


reg(
    "db.unknown_population_in_table",
    DB,
    "reject",
    "data.py:502-510 renaming a population row leaves a required population without data (InvalidDatabook)",
    lambda v: _tv_sites(v, pred=lambda t, r: not _has_all_row(t) and t.label(r) in [p["code"] for p in v.pops] + [p["label"] for p in v.pops]),
    _db_rename_row,
    "semantic",
)


def _copy_row(ws, src, dst, ncol):
    for c in range(1, ncol + 1):
        ws.cell(row=dst, column=c).value = ws.cell(row=src, column=c).value


def _db_extra_row(v, site):
    t, r = _tr(v, site)
    t.ws.insert_rows(t.r1 + 1)
    _copy_row(t.ws, r, t.r1 + 1, t.last_col())
    t.ws.cell(row=t.r1 + 1, column=1).value = "zz_extra_pop"


reg(
    "db.extra_unknown_population_row",
    DB,
    "accept",
    "parameters.py:408-416 'Keep only valid populations (discard any extra ones here)': a row for a population that is not defined is ignored",
    lambda v: _tv_sites(v, pred=lambda t, r: t.has_data(r), nt=4, nr=1),
    _db_extra_row,
    "semantic",
)


# ---- 'All' rows: data.py:504-510 an 'all'/'All' row is the fallback for populations WITHOUT a row of their own; parameters.py:408-414 a
#      population's own row always takes precedence; data.py:512-513 every row that is present (the 'All' row included) needs data
ALL_LABELS = ["All", "all"]


def _all_row_sites(v):
    pops = [p["code"] for p in v.pops] + [p["label"] for p in v.pops]
    out = []
    for i, t in enumerate(v.required_tables()[:8]):
        if _has_all_row(t):
            continue
        for k, r in enumerate(t.rows[:3]):
            if t.label(r) in pops and t.has_data(r):
                out += [[i, k, j] for j in range(len(ALL_LABELS))]
    return out


def _add_all_row(t, r, label, with_data=True):
    """append an 'All' row to table t that carries the units and (optionally) the data of row r; returns its row number"""
    new = t.r1 + 1
    t.ws.insert_rows(new)
    _copy_row(t.ws, r, new, t.last_col())
    t.ws.cell(row=new, column=1).value = label
    if not with_data:
        for c in t.value_cols():
            t.ws.cell(row=new, column=c).value = None
    return new


def _all_replaces_row(v, site):
    t = v.required_tables()[site[0]]
    r = t.rows[site[1]]
    _add_all_row(t, r, ALL_LABELS[site[2]])
    t.ws.delete_rows(r)


reg(
    "db.all_row_replaces_population_row",
    DB,
    "accept",
    "data.py:504-510 'If the TDVE table contains an entry for all then ... a fallback value will be available for every population'; parameters.py:408-414: a population without a row of its own takes the 'all'/'All' row - same values, so same results",
    _all_row_sites,
    _all_replaces_row,
    "semantic",
)
ENTRIES["db.all_row_replaces_population_row"].same = True


def _all_with_blank_row(v, site):
    t = v.required_tables()[site[0]]
    r = t.rows[site[1]]
    _add_all_row(t, r, ALL_LABELS[site[2]])
    t.blank_values(r)


reg(
    "db.all_row_with_blank_population_row",
    DB,
    "reject",
    "data.py:512-513 every row that is present needs data ('Data values missing for <quantity> (<population>)'); the 'All' row only stands in for populations that have no row (parameters.py:408-414: `if k in tdve.ts` comes first)",
    _all_row_sites,
    _all_with_blank_row,
    "semantic",
)


def _empty_all_sites(v):
    return [[i, k, j, d] for i, k, j in _all_row_sites(v) for d in (0, 1)]


def _empty_all_row(v, site):
    t = v.required_tables()[site[0]]
    r = t.rows[site[1]]
    _add_all_row(t, r, ALL_LABELS[site[2]], with_data=False)
    if site[3]:
        t.ws.delete_rows(r)


reg(
    "db.empty_all_row",
    DB,
    "reject",
    "data.py:512-513 the 'All' row is a row like any other and needs data ('Data values missing for <quantity> (All)'), whether or not the population rows are present",
    _empty_all_sites,
    _empty_all_row,
    "semantic",
)


def _no_default(v, t):
    import numpy as np

    s = v.spec_of(t)
    try:
        return not np.isfinite(s["default value"])
    except Exception:
        return True


def _db_delete_table(v, site):
    t = v.required_tables()[site]
    for r in range(t.r0, t.r1 + 1):
        for c in range(1, t.ws.max_column + 1):
            t.ws.cell(row=r, column=c).value = None


reg(
    "db.missing_table",
    DB,
    "reject",
    "data.py:481-484 'The databook did not contain a required TDVE table' (InvalidDatabook) for a framework quantity without default value",
    lambda v: [i for i, t in enumerate(v.required_tables()[:10]) if _no_default(v, t)],
    _db_delete_table,
    "semantic",
)
reg(
    "db.missing_table_with_default",
    DB,
    "accept",
    "data.py:485-495 a missing table of a quantity with a framework default value is filled from the default (warning only)",
    lambda v: [i for i, t in enumerate(v.required_tables()[:40]) if not _no_default(v, t)][:6],
    _db_delete_table,
    "semantic",
)

OTHER_UNITS = ["Fraction", "Number", "Duration (years)", "Rate (per year)", "Probability (per year)", "zz units"]


def _units_sites(v):
    out = []
    tabs = list(enumerate(v.required_tables()))
    # tables of unit-less parameters (databook units 'N.A.') first: they are checked by ParameterSet only (parameters.py:401-405)
    na = [(i, t) for i, t in tabs if "units" in t.cols and t.rows and str(t.ws.cell(row=t.rows[0], column=t.cols["units"]).value).strip().lower() == "n.a."]
    for i, t in na[:3] + [x for x in tabs if x not in na][:8]:
        if "units" not in t.cols:
            continue
        for k, r in enumerate(t.rows[:2]):
            cur = t.ws.cell(row=r, column=t.cols["units"]).value
            cur = cur.strip().lower() if isinstance(cur, str) else ""
            for j, u in enumerate(OTHER_UNITS):
                # a different quantity type (the first word differs: 'Rate' for 'Rate (per year)' is a legal legacy spelling, data.py:406-413)
                if u.split()[0].lower() != (cur.split() or [""])[0]:
                    out.append([i, k, j])
    return out


def _units_apply(v, site):
    t = v.required_tables()[site[0]]
    t.ws.cell(row=t.rows[site[1]], column=t.cols["units"]).value = OTHER_UNITS[site[2]]


reg(
    "db.unit_mismatch",
    DB,
    "reject",
    "data.py:515-519 'Unit ... does not match the declared units from the Framework'; parameters.py:401-405 'The units for quantity ... in the databook do not match the units in the framework'",
    _units_sites,
    _units_apply,
    "semantic",
)


def _legacy_units_sites(v):
    out = []
    for i, t in enumerate(v.required_tables()[:8]):
        if "units" in t.cols:
            for k, r in enumerate(t.rows[:2]):
                cur = t.ws.cell(row=r, column=t.cols["units"]).value
                if isinstance(cur, str) and cur.strip():
                    out += [[i, k, j] for j in range(5)]
    return out


def _legacy_units_apply(v, site):
    t = v.required_tables()[site[0]]
    cell = t.ws.cell(row=t.rows[site[1]], column=t.cols["units"])
    cur = cell.value.strip()
    first = cur.split()[0]
    cell.value = [first, None, cur.upper(), first.lower(), " %s " % first.upper()][site[2]]


reg(
    "db.legacy_or_blank_units",
    DB,
    "accept",
    "data.py:406-413 units that are empty or only name the quantity type in any case ('Rate', 'rate', ' RATE ' for 'Rate (per year)'; excel.py:982-984 strips) are migrated to the framework units; 515 comparison is case-insensitive",
    _legacy_units_sites,
    _legacy_units_apply,
    "semantic",
)


PER = ["(per year)", "(per week)", "(per day)", "(per month)"]
SPAN = ["(years)", "(weeks)", "(days)", "(months)"]
_TS_PRIORITY = {"probability": 0, "rate": 1, "duration": 2, "number": 3}


def _timescale_variants(cur):
    """units of the same quantity type as `cur` but another timescale (a different meaning: per week is 52x per year)"""
    words = cur.strip().split(None, 1)
    kind = words[0].lower()
    suffix = " ".join(words[1].lower().split()) if len(words) > 1 else ""
    if kind not in _TS_PRIORITY:
        return []
    pool = SPAN if kind == "duration" else PER
    alts = [x for x in pool if x != suffix]
    out = ["%s %s" % (words[0], a) for a in alts]
    out.append("%s  %s" % (words[0].lower(), alts[0]))  # same wrong timescale in another case / spacing
    if suffix and kind == "number":
        pass  # a bare 'Number' for 'Number (per year)' is the legal legacy form (data.py:412)
    return out


def _ts_tables(v):
    """(table index, current units) of tables whose units carry a quantity type with a timescale; distinct unit strings and probability / rate first"""
    tabs = []
    for i, t in enumerate(v.required_tables()):
        if "units" in t.cols and t.rows:
            cur = t.ws.cell(row=t.rows[0], column=t.cols["units"]).value
            # reference = the units the framework declares (a library databook may hold the legacy bare type, for which the full framework units are of course right)
            try:
                cur = v.F.get_databook_units(v.spec_of(t).name)
            except Exception:
                pass
            if isinstance(cur, str) and _timescale_variants(cur):
                tabs.append((i, cur.strip()))
    seen, first, rest = set(), [], []
    for i, cur in tabs:
        (rest if cur.lower() in seen else first).append((i, cur))
        seen.add(cur.lower())
    first.sort(key=lambda x: (_TS_PRIORITY[x[1].split()[0].lower()], len(x[1].split()) == 1))
    return (first + rest)[:10]


def _ts_units_sites(v):
    return [[i, j] for i, cur in _ts_tables(v) for j in range(len(_timescale_variants(cur)))]


def _ts_units_apply(v, site):
    t = v.required_tables()[site[0]]
    cell = t.ws.cell(row=t.rows[0], column=t.cols["units"])
    ref = dict(_ts_tables(v))[site[0]]
    cell.value = _timescale_variants(ref)[site[1]]


reg(
    "db.unit_timescale_mismatch",
    DB,
    "reject",
    "data.py:406-413 only empty units or the bare quantity type are migrated ('if the user entered something that is wrong, we need to keep it and alert them during validation'); "
    "515-519 'Unit ... does not match the declared units from the Framework' (same type, other timescale: 'Probability (per week)' vs 'Probability (per year)', 'Duration (weeks)' vs 'Duration (years)', 'Number (per year)' vs 'Number'); framework.py:384-434 get_databook_units",
    _ts_units_sites,
    _ts_units_apply,
    "semantic",
)


def _tdc_names(v):
    return [(title, i, t["code"]) for title in ("Transfers", "Interactions") for i, t in enumerate(v.tdc[title])]


def _dup_tdc_sites(v):
    names = _tdc_names(v)
    return [[i, j] for i in range(len(names)) for j in range(len(names)) if i != j and names[i][0] == "Transfers" and names[i][2] != names[j][2]]


def _dup_tdc_apply(v, site):
    names = _tdc_names(v)
    title, i, _ = names[site[0]]
    t = v.tdc[title][i]
    t["ws"].cell(row=t["def"][0] + 1, column=1).value = names[site[1]][2]


reg(
    "db.duplicate_transfer_name",
    DB,
    "reject",
    "data.py:925-926 'Another transfer with name ... already exists'; 426-432 a transfer cannot share its name with an interaction (InvalidDatabook)",
    _dup_tdc_sites,
    _dup_tdc_apply,
)


def _popcode_sites(v):
    codes = v.framework_codes()
    return [[i, j] for i in _idx(v.pops, 3) for j in _idx(codes, 6) if len(codes[j]) > 1]


def _popcode_apply(v, site):
    v.replace_everywhere(v.pops[site[0]]["code"], v.framework_codes()[site[1]])


reg(
    "db.population_named_like_framework_quantity",
    DB,
    "reject",
    "data.py:478-479 'Code name ... has been used for both a population and a framework quantity' (InvalidDatabook)",
    _popcode_sites,
    _popcode_apply,
    "semantic",
)


def _tdc_pop_sites(title):
    def f(v):
        out = []
        for i, t in enumerate(v.tdc[title]):
            used = []
            for r in t["rows"]:
                for c in (1, 3):
                    p = _s(t["ws"].cell(row=r, column=c).value)
                    if p not in used:
                        used.append(p)
            out += [[i, k] for k in range(min(len(used), 3))]
        return out

    return f


def _tdc_pop_apply(title):
    def f(v, site):
        t = v.tdc[title][site[0]]
        ws = t["ws"]
        used = []
        for r in t["rows"]:
            for c in (1, 3):
                p = _s(ws.cell(row=r, column=c).value)
                if p not in used:
                    used.append(p)
        old = used[site[1]]
        for r in range(t["matrix"][0], t["ts"][1] + 1):
            for c in range(1, ws.max_column + 1):
                if _s(ws.cell(row=r, column=c).value) == old:
                    ws.cell(row=r, column=c).value = "zz_unknown_pop"

    return f


reg("db.unknown_population_in_transfer", DB, "reject", "data.py:545-549 a transfer can only connect populations that are defined ('Population ... not recognized')", _tdc_pop_sites("Transfers"), _tdc_pop_apply("Transfers"), "semantic")
reg("db.unknown_population_in_interaction", DB, "reject", "data.py:531-537 an interaction can only connect populations that are defined ('Population ... not recognized')", _tdc_pop_sites("Interactions"), _tdc_pop_apply("Interactions"), "semantic")


def _tdc_row_sites(title, col=None):
    def f(v):
        return [[i, k] for i, t in enumerate(v.tdc[title]) for k in range(min(len(t["rows"]), 3)) if col is None or col in t["hdr"]]

    return f


# a pair that is switched on ('Y' in the matrix, its row is shown) needs data whatever else the row holds: 0 = row entirely empty (what typing 'Y' and
# forgetting the numbers gives), 1 = only the values blanked (units kept), 2 = only an uncertainty left, 3 = only the units left
TDC_ROW_VARIANTS = ["entirely-empty", "values-blank", "only-uncertainty", "only-units"]


def _tdc_row_variant_sites(title):
    def f(v):
        out = []
        for i, t in enumerate(v.tdc[title]):
            for k in range(min(len(t["rows"]), 3)):
                for j, what in enumerate(TDC_ROW_VARIANTS):
                    if what == "only-uncertainty" and "uncertainty" not in t["hdr"]:
                        continue
                    out.append([i, k, j])
        return out

    return f


def _tdc_blank_values(title):
    def f(v, site):
        t = v.tdc[title][site[0]]
        r = t["rows"][site[1]]
        what = TDC_ROW_VARIANTS[site[2]]
        hdr = t["hdr"]
        ws = t["ws"]
        for c in [hdr.get("constant"), hdr.get("assumption")] + hdr.get("years", []):
            if c:
                ws.cell(row=r, column=c).value = None
        if what in ("entirely-empty", "only-uncertainty") and hdr.get("units"):
            ws.cell(row=r, column=hdr["units"]).value = None
        if hdr.get("uncertainty"):
            if what == "only-uncertainty":
                ws.cell(row=r, column=hdr["uncertainty"]).value = 0.1
            elif what in ("entirely-empty", "only-units"):
                ws.cell(row=r, column=hdr["uncertainty"]).value = None

    return f


reg(
    "db.transfer_without_data",
    DB,
    "reject",
    "data.py:545-551 every transfer row that is present (pair switched on) needs data: 'Data values missing for transfer'; excel.py:533-569 every row whose first cell is not '...' is read into a TimeSeries",
    _tdc_row_variant_sites("Transfers"),
    _tdc_blank_values("Transfers"),
    "semantic",
)
reg(
    "db.interaction_without_data",
    DB,
    "reject",
    "data.py:531-539 every interaction row that is present (pair switched on) needs data: 'Data values missing for interaction'; excel.py:533-569",
    _tdc_row_variant_sites("Interactions"),
    _tdc_blank_values("Interactions"),
    "semantic",
)


def _tdc_matrix_cells(v, title):
    """(table index, row index, matrix cell) for data rows whose pair can be found in the Y/N matrix above"""
    out = []
    for i, t in enumerate(v.tdc[title]):
        ws = t["ws"]
        m0, m1 = t["matrix"]
        cols = {_s(c.value): c.column for c in ws[m0][1:] if not _blank(c.value)}
        rows = {_s(ws.cell(row=r, column=1).value): r for r in range(m0 + 1, m1 + 1)}
        for k, r in enumerate(t["rows"][:3]):
            a, b = _s(ws.cell(row=r, column=1).value), _s(ws.cell(row=r, column=3).value)
            if a in rows and b in cols:
                out.append((i, k, ws.cell(row=rows[a], column=cols[b])))
    return out


def _tdc_matrix_no(title):
    def f(v, site):
        cells = _tdc_matrix_cells(v, title)
        cells[site][2].value = "N"

    return f


for _title, _id in (("Transfers", "db.transfer_matrix_says_no_but_row_has_data"), ("Interactions", "db.interaction_matrix_says_no_but_row_has_data")):
    reg(
        _id,
        DB,
        "accept",
        "docs/general/skipping-excel-cells.ipynb (TimeDependentConnections, second table): 'only the first row and first column are parsed, as the rest of the content in the table is inferred from the rows present in the table immediately below'; "
        "excel.py:489-492 'we don't actually parse the matrix, and instead just read in all the TimeSeries instances that are defined' - the row is used as it is",
        (lambda title: lambda v: _idx(_tdc_matrix_cells(v, title), 4))(_title),
        _tdc_matrix_no(_title),
        "semantic",
    )
    ENTRIES[_id].same = True


def _tdc_blank_units(v, site):
    t = v.tdc["Transfers"][site[0]]
    t["ws"].cell(row=t["rows"][site[1]], column=t["hdr"]["units"]).value = None


reg("db.transfer_without_units", DB, "reject", "data.py:552 'Units are missing for transfer'", _tdc_row_sites("Transfers", "units"), _tdc_blank_units, "semantic")


def _sheet_sites(pred):
    return lambda v: [t for t in v.ws if pred(v, t)]


def _db_del_sheet(v, site):
    v.wb.remove(v.ws[site])


reg(
    "db.delete_quantity_sheet",
    DB,
    "reject",
    "data.py:481-484 all tables of the sheet are then missing (InvalidDatabook)",
    _sheet_sites(lambda v, t: t not in SPECIAL_DB_SHEETS and any(x.ws.title == t and _no_default(v, x) for x in v.required_tables())),
    _db_del_sheet,
    "semantic",
)
reg(
    "db.delete_interactions_sheet",
    DB,
    "reject",
    "data.py:531-543 'Required interaction ... not found in databook' (InvalidDatabook)",
    lambda v: ["Interactions"] if v.tdc["Interactions"] and len(v.F.interactions) else [],
    _db_del_sheet,
    "semantic",
)
reg("db.delete_transfers_sheet", DB, "accept", "data.py:353-356 the Transfers sheet is optional", lambda v: ["Transfers"] if "Transfers" in v.ws else [], _db_del_sheet, "semantic")


def _val_cells(v):
    out = []
    for i, t in enumerate(v.required_tables()[:6]):
        for k, r in enumerate(t.rows[:2]):
            for j, c in enumerate(t.value_cols()[:3]):
                out.append([i, k, j])
    return out


def _text_apply(v, site):
    t = v.required_tables()[site[0]]
    t.ws.cell(row=t.rows[site[1]], column=t.value_cols()[site[2]]).value = "abc"


reg("db.text_in_value_cell", DB, "reject", "excel.py:1262-1273 cell_get_number 'Cell ... needs to contain a number', wrapped as InvalidDatabook by data.py:388-392", _val_cells, _text_apply)


def _dup_table_apply(v, site):
    t = v.required_tables()[site]
    ws = t.ws
    r = ws.max_row + 2
    for i, src in enumerate(range(t.r0, t.r1 + 1)):
        _copy_row(ws, src, r + i, t.last_col())


reg("db.duplicate_table", DB, "reject", "data.py:419-420 'A TDVE table ... appears more than once in the databook' (InvalidDatabook)", lambda v: _idx(v.required_tables(), 6), _dup_table_apply)


def _rename_table_apply(v, site):
    t = v.required_tables()[site[0]]
    t.ws.cell(row=t.r0, column=1).value = ["ZZ unknown quantity", None, 42][site[1]]


reg(
    "db.unknown_table_name",
    DB,
    "reject",
    "data.py:394-400 'The variable was not found in the Framework'; excel.py:945-949 the name of a table must be a non-empty string (InvalidDatabook)",
    lambda v: [[i, j] for i in _idx(v.required_tables(), 4) for j in range(3)],
    _rename_table_apply,
)


def _dup_year_sites(v):
    return [i for i, t in enumerate(v.required_tables()[:8]) if len(t.years) >= 2]


def _dup_year_apply(v, site):
    t = v.required_tables()[site]
    ys = sorted(t.years)
    t.ws.cell(row=t.r0, column=t.years[ys[1]]).value = t.ws.cell(row=t.r0, column=t.years[ys[0]]).value  # the heading itself (a number or a date)


reg("db.duplicate_year_column", DB, "reject", "excel.py:1212-1214 'Duplicate year in cell ...' (wrapped as InvalidDatabook)", _dup_year_sites, _dup_year_apply)


def _dup_heading_apply(v, site):
    t = v.required_tables()[site]
    t.ws.cell(row=t.r0, column=t.last_col() + 1).value = "Units"


reg("db.duplicate_heading", DB, "reject", "excel.py:1199-1201 'Duplicate heading in cell ...' (wrapped as InvalidDatabook)", lambda v: [i for i, t in enumerate(v.required_tables()[:6]) if "units" in t.cols], _dup_heading_apply)


def _popname_apply(v, site):
    ws = v.ws["Population Definitions"]
    ws.cell(row=v.pops[site[0]]["row"], column=[1, 1, 1, 2, 1][site[1]]).value = ["all", "t", "a", "B", None][site[1]]


reg(
    "db.invalid_population_name",
    DB,
    "reject",
    "data.py:867-874 population names must be strings of at least two characters and not a reserved keyword (wrapped as InvalidDatabook, 364-368)",
    lambda v: [[i, j] for i in _idx(v.pops, 2) for j in range(5)],
    _popname_apply,
)


POP_RESERVED = [n for n in RESERVED if n == n.lower()]  # data.py:873 compares the lower-cased population name


def _reserved_pop_apply(v, site):
    k, how = site
    name = POP_RESERVED[k]
    v.ws["Population Definitions"].cell(row=v.pops[0]["row"], column=1).value = [name, name.upper(), name.title()][how]


reg(
    "db.reserved_population_name",
    DB,
    "reject",
    "data.py:873-874 'Population name ... is a reserved keyword' (case-insensitive; wrapped as InvalidDatabook 364-368); system.py:88-89; one-letter names also break 867-868",
    lambda v: [[k, how] for k in range(len(POP_RESERVED)) for how in (0, 1, 2)] if v.pops else [],
    _reserved_pop_apply,
)
ENTRIES["db.reserved_population_name"].exhaustive = True


def _poptype_apply(v, site):
    ws = v.ws["Population Definitions"]
    if _blank(ws.cell(row=1, column=3).value):
        ws.cell(row=1, column=3).value = "Population type"
    ws.cell(row=v.pops[site]["row"], column=3).value = "zz_type"


reg("db.unknown_population_type", DB, "reject", "data.py:471-474 'population type ... not found in framework'", lambda v: _idx(v.pops, 3), _poptype_apply, "semantic")


def _db_ignore_row(v, site):
    t = v.required_tables()[site[0]]
    r = t.r0 + 1 if site[1] == 0 else t.r1 + 1
    t.ws.insert_rows(r)
    t.ws.cell(row=r, column=1).value = "#ignore a comment row"
    t.ws.cell(row=r, column=3).value = "not a number"


reg("db.ignore_row", DB, "accept", "docs/general/skipping-excel-cells.ipynb: a row starting with '#ignore' is skipped and does not split the table (excel.py:234-236)", lambda v: [[i, j] for i in _idx(v.required_tables(), 4) for j in range(2)], _db_ignore_row, "semantic")


def _db_ignore_col(v, site):
    t = v.required_tables()[site]
    c = t.ws.max_column + 1
    for r in range(t.r0, t.r1 + 1):
        t.ws.cell(row=r, column=c).value = "#ignore"
        t.ws.cell(row=r, column=c + 1).value = "free text %d" % r


reg("db.ignore_column", DB, "accept", "docs/general/skipping-excel-cells.ipynb: 'add a column of #ignore cells off to the right of the data entry tables, and then any arbitrary content'", lambda v: _idx(v.required_tables(), 4), _db_ignore_col, "semantic")


def _db_ignore_sheet(v, site):
    ws = v.wb.create_sheet("#ignore notes")
    _append_table(ws, [["whatever", 1, "x"], [None, "#ignore"], ["ZZ unknown quantity", "Units", "Constant"]])


reg("db.ignored_sheet", DB, "accept", "data.py:360-361 sheets whose title starts with '#ignore' are skipped", lambda v: [0], _db_ignore_sheet, "semantic")
reg("db.identity", DB, "accept", "unchanged valid databook", lambda v: [0], lambda v, site: None, "semantic")


# ======================================================================================== PROGRAM BOOK entries
PB = "progbook"


class PbView:
    def __init__(self, wb, F=None, D=None):
        self.wb, self.F, self.D = wb, F, D
        self.ws = {ws.title: ws for ws in wb.worksheets}
        self.progs, self.pop_cols, self.comp_cols = [], {}, {}
        ws = self.ws.get("Program targeting")
        if ws is not None:
            sup = {}
            for c in ws[1]:
                if isinstance(c.value, str) and c.value.strip():
                    sup[c.value.strip().lower()] = c.column
            p0 = sup.get("targeted to (populations)")
            c0 = sup.get("targeted to (compartments)")
            if p0 and c0:
                for c in ws[2]:
                    if isinstance(c.value, str) and c.value.strip():
                        if p0 <= c.column < c0:
                            self.pop_cols[c.value.strip()] = c.column
                        elif c.column >= c0:
                            self.comp_cols[c.value.strip()] = c.column
            for r in range(3, ws.max_row + 1):
                if xw.row_is_blank(ws, r):
                    break
                self.progs.append({"code": _s(ws.cell(row=r, column=1).value), "label": _s(ws.cell(row=r, column=2).value), "row": r})
        self.spending = _tdve_tables(self.ws["Spending data"]) if "Spending data" in self.ws else []
        self.effects = []
        ws = self.ws.get("Program effects")
        if ws is not None:
            for r0, r1 in xw.table_blocks(ws):
                hdr = {}
                for c in ws[r0][1:]:
                    if isinstance(c.value, str) and c.value.strip():
                        hdr[c.value.strip()] = c.column
                self.effects.append({"ws": ws, "r0": r0, "r1": r1, "name": _s(ws.cell(row=r0, column=1).value), "hdr": hdr, "rows": list(range(r0 + 1, r1 + 1))})

    def target_marks(self, cols):
        """(prog index, heading) pairs with a 'y'"""
        ws = self.ws["Program targeting"]
        out = []
        for i, p in enumerate(self.progs):
            for h, c in cols.items():
                if _yes(ws.cell(row=p["row"], column=c).value):
                    out.append((i, h))
        return out

    def effect_values(self):
        """(table index, row, program heading) cells holding a program outcome"""
        special = {"baseline value", "coverage interaction", "impact interaction", "uncertainty"}
        out = []
        for i, t in enumerate(self.effects):
            for r in t["rows"]:
                for h, c in t["hdr"].items():
                    if h.lower() not in special and _isnum(t["ws"].cell(row=r, column=c).value):
                        out.append((i, r, h))
        return out

    def spend_row(self, t, label):
        for r in t.rows:
            if t.label(r).lower() == label.lower():
                return r
        return None


def _pb_heading_sites(which):
    def f(v):
        cols = v.pop_cols if which == "pop" else v.comp_cols
        heads = []
        for i, h in v.target_marks(cols):
            if h not in heads:
                heads.append(h)
        return _idx(heads, 4)

    return f


def _pb_heading_apply(which):
    def f(v, site):
        cols = v.pop_cols if which == "pop" else v.comp_cols
        heads = []
        for i, h in v.target_marks(cols):
            if h not in heads:
                heads.append(h)
        v.ws["Program targeting"].cell(row=2, column=cols[heads[site]]).value = "ZZ unknown heading"

    return f


reg("pb.unknown_population_heading", PB, "reject", "programs.py:593-598 'The program book contains population ... while the databook contains ...' (InvalidProgramBook via 490-494)", _pb_heading_sites("pop"), _pb_heading_apply("pop"))
reg("pb.unknown_compartment_heading", PB, "reject", "programs.py:602-614 'The program book contains compartment ... while the Framework contains ...' (InvalidProgramBook)", _pb_heading_sites("comp"), _pb_heading_apply("comp"))


def _pb_effect_name_apply(v, site):
    t = v.effects[site]
    t["ws"].cell(row=t["r0"], column=1).value = "ZZ unknown parameter"


reg("pb.unknown_parameter_in_effects", PB, "reject", "programs.py:801-807 'Program name ... was not found in the framework parameters or in the databook transfers' (InvalidProgramBook via 502-506)", lambda v: _idx(v.effects, 5), _pb_effect_name_apply)


def _pb_effect_prog_sites(v):
    seen = []
    for i, r, h in v.effect_values():
        if (i, h) not in seen:
            seen.append((i, h))
    return _idx(seen, 6)


def _pb_effect_prog_apply(v, site):
    seen = []
    for i, r, h in v.effect_values():
        if (i, h) not in seen:
            seen.append((i, h))
    i, h = seen[site]
    t = v.effects[i]
    t["ws"].cell(row=t["r0"], column=t["hdr"][h]).value = "zz_prog"


reg("pb.unknown_program_in_effects", PB, "reject", "programs.py:859-861 'The heading ... was not recognized as a program name or a special token' (InvalidProgramBook)", _pb_effect_prog_sites, _pb_effect_prog_apply)


def _pb_effect_rows(v):
    rows = []
    for i, r, h in v.effect_values():
        if (i, r) not in rows:
            rows.append((i, r))
    return rows


def _pb_effect_pop_apply(v, site):
    i, r = _pb_effect_rows(v)[site]
    v.effects[i]["ws"].cell(row=r, column=1).value = "ZZ unknown population"


reg("pb.unknown_population_in_effects", PB, "reject", "programs.py:825-827 'Population ... was not found in the databook' (InvalidProgramBook)", lambda v: _idx(_pb_effect_rows(v), 6), _pb_effect_pop_apply)


def _pb_baseline_sites(v):
    return [k for k, (i, r) in enumerate(_pb_effect_rows(v)) if "Baseline value" in v.effects[i]["hdr"] or "baseline value" in {h.lower() for h in v.effects[i]["hdr"]}][:6]


def _pb_baseline_apply(v, site):
    i, r = _pb_effect_rows(v)[site]
    t = v.effects[i]
    c = [c for h, c in t["hdr"].items() if h.lower() == "baseline value"][0]
    t["ws"].cell(row=r, column=c).value = None


reg("pb.missing_baseline", PB, "reject", "programs.py:867-868 'program outcomes are defined but the baseline value is missing' (InvalidProgramBook)", _pb_baseline_sites, _pb_baseline_apply)


def _pb_effect_text_apply(v, site):
    i, r, h = v.effect_values()[site]
    t = v.effects[i]
    t["ws"].cell(row=r, column=t["hdr"][h]).value = "abc"


reg("pb.text_in_outcome_cell", PB, "reject", "programs.py:859-865 a program outcome must be a number ('Error in cell ...', InvalidProgramBook)", lambda v: _idx(v.effect_values(), 6), _pb_effect_text_apply)

SPEND_ROWS = ["Annual spend", "Unit cost"]


def _pb_spend_sites(v):
    return [[i, j] for i, t in enumerate(v.spending[:5]) for j, lab in enumerate(SPEND_ROWS) if v.spend_row(t, lab)]


def _pb_del_spend_row(v, site):
    t = v.spending[site[0]]
    t.ws.delete_rows(v.spend_row(t, SPEND_ROWS[site[1]]))


reg("pb.missing_spending_row", PB, "reject", "programs.py:725-736 every program table needs the 'Annual spend' and 'Unit cost' rows (InvalidProgramBook via 496-500)", _pb_spend_sites, _pb_del_spend_row)


def _pb_blank_spend(v, site):
    t = v.spending[site[0]]
    t.blank_values(v.spend_row(t, SPEND_ROWS[site[1]]))


reg("pb.missing_spending_data", PB, "reject", "programs.py:739-741 'Unit cost data / Spending data for ... was not entered' (InvalidProgramBook)", _pb_spend_sites, _pb_blank_spend)


def _pb_del_sheet_sites(v):
    return [t for t in ("Program targeting", "Spending data", "Program effects") if t in v.ws]


reg("pb.delete_sheet", PB, "reject", "programs.py:489-506 the three sheets 'Program targeting', 'Spending data', 'Program effects' are read unconditionally (InvalidProgramBook)", _pb_del_sheet_sites, lambda v, site: v.wb.remove(v.ws[site]))


def _pb_spend_name_apply(v, site):
    t = v.spending[site[0]]
    t.ws.cell(row=t.r0, column=1).value = ["zz_prog", None][site[1]]


reg("pb.unknown_program_in_spending", PB, "reject", "programs.py:717 a spending table must carry the name of a program of the targeting sheet; excel.py:945-947 (InvalidProgramBook)", lambda v: [[i, j] for i in _idx(v.spending, 4) for j in range(2)], _pb_spend_name_apply)


def _pb_all_apply(v, site):
    p = v.progs[site]
    old = p["code"]
    for ws in v.wb.worksheets:
        for row in ws.iter_rows():
            for c in row:
                if isinstance(c.value, str) and c.value.strip() == old:
                    c.value = "All"


reg("pb.program_named_all", PB, "reject", "programs.py:618-620 a program cannot be named 'all', which is a reserved keyword (InvalidProgramBook)", lambda v: _idx(v.progs, 3), _pb_all_apply)


def _pb_currency_sites(v):
    return [[i, j] for i, t in enumerate(v.spending[:4]) for j, lab in enumerate(SPEND_ROWS) if v.spend_row(t, lab) and "units" in t.cols and len(v.spending) > 0]


def _pb_currency_apply(v, site):
    t = v.spending[site[0]]
    cell = t.ws.cell(row=v.spend_row(t, SPEND_ROWS[site[1]]), column=t.cols["units"])
    cur = cell.value if isinstance(cell.value, str) else "$/year"
    cell.value = "ZZD/" + cur.split("/", 1)[1] if "/" in cur else "ZZD"


reg("pb.multiple_currencies", PB, "reject", "programs.py:747-754 'The progbook contains multiple currencies' (InvalidProgramBook)", _pb_currency_sites, _pb_currency_apply)


def _pb_untarget_sites(v):
    out = []
    for i in _idx(v.progs, 4):
        out += [[i, "pop"]] if any(k == i for k, h in v.target_marks(v.pop_cols)) else []
        out += [[i, "comp"]] if any(k == i for k, h in v.target_marks(v.comp_cols)) else []
    return out


def _pb_untarget_apply(v, site):
    ws = v.ws["Program targeting"]
    cols = v.pop_cols if site[1] == "pop" else v.comp_cols
    for c in cols.values():
        ws.cell(row=v.progs[site[0]]["row"], column=c).value = "N"


reg("pb.program_targets_nothing", PB, "reject", "programs.py:994-1012 ProgramSet.validate: 'Program ... does not target any compartments / populations'", _pb_untarget_sites, _pb_untarget_apply, "semantic")

OPTIONAL_SPEND_ROWS = ["Capacity constraint", "Saturation", "Coverage"]


def _pb_optional_sites(v):
    return [[i, j] for i, t in enumerate(v.spending[:4]) for j, lab in enumerate(OPTIONAL_SPEND_ROWS) if v.spend_row(t, lab)]


def _pb_optional_apply(v, site):
    t = v.spending[site[0]]
    t.blank_values(v.spend_row(t, OPTIONAL_SPEND_ROWS[site[1]]))


reg("pb.blank_optional_rows", PB, "accept", "programs.py:739-741 only unit cost and spending are required; capacity constraint, saturation and coverage may be empty", _pb_optional_sites, _pb_optional_apply, "semantic")


def _pb_ignore_row_apply(v, site):
    t = v.spending[site]
    t.ws.insert_rows(t.r0 + 1)
    t.ws.cell(row=t.r0 + 1, column=1).value = "#ignore comment"
    t.ws.cell(row=t.r0 + 1, column=4).value = "text"


reg("pb.ignore_row_in_spending", PB, "accept", "docs/general/skipping-excel-cells.ipynb (Spending data: same #ignore rules as databook tables)", lambda v: _idx(v.spending, 4), _pb_ignore_row_apply, "semantic")


def _pb_comment_table_apply(v, site):
    ws = v.ws["Program targeting"]
    _append_table(ws, [["Comments below the main table are allowed"], ["second line", 1, 2]])


reg("pb.comment_below_targeting", PB, "accept", "docs/general/skipping-excel-cells.ipynb (Program targeting: extra content can be placed below the main table after a blank row); programs.py:562", lambda v: [0] if "Program targeting" in v.ws else [], _pb_comment_table_apply, "semantic")
reg("pb.identity", PB, "accept", "unchanged valid program book", lambda v: [0], lambda v, site: None, "semantic")


for _id in (
    "fw.identity", "fw.ignore_row", "fw.blank_row_in_table", "fw.extra_column", "fw.extra_sheet", "fw.header_case_and_spaces", "fw.reorder_columns", "fw.transition_corner_label", "fw.capitalised_format",
    "db.identity", "db.ignore_row", "db.ignore_column", "db.ignored_sheet", "db.legacy_or_blank_units", "db.extra_unknown_population_row",
):
    ENTRIES[_id].same = True
