"""Documentation-derived reference for program coverage and outcomes (Programs.rst; DESIGN.md Appendix A items 9-10).
Works on the plain-JSON program description of a ModelSpec (spec['progs'], spec['instr'])."""
import math
import itertools
from . import datainterp


def prev(d, t):
    """stepped interpolation of a spec series: value in force at t = latest entry at or before t (first value before the first entry)"""
    return datainterp.series_value(d, t, method="previous")


def coverage_at(prog, instr, t, dt, eligible):
    """returns dict(spend, capacity_step, fraction, one_off) for one program at time t given the number eligible"""
    one_off = not prog.get("per_year")
    ins = instr or {}
    if prog["name"] in (ins.get("alloc") or {}):
        spend = prev(ins["alloc"][prog["name"]], t)
    else:
        spend = prev(prog["spend"], t)
    if prog["name"] in (ins.get("capacity") or {}):
        cap = prev(ins["capacity"][prog["name"]], t) * (dt if one_off else 1.0)
    else:
        cap = spend * (dt if one_off else 1.0) / prev(prog["cost"], t)
        if prog.get("cap"):
            lim = prev(prog["cap"], t) * (dt if prog.get("cap_per_year", True) else 1.0)
            cap = min(lim, cap)
    if prog["name"] in (ins.get("coverage") or {}):
        frac = prev(ins["coverage"][prog["name"]], t) * (dt if one_off else 1.0)
    elif prog.get("sat"):
        a = prev(prog["sat"], t)
        x = cap / eligible if eligible != 0 else math.inf
        frac = a * math.tanh(x / a) if math.isfinite(x) else a
    else:
        frac = cap / eligible if eligible > cap else 1.0
    frac = min(frac, 1.0)
    return {"spend": spend, "capacity_step": cap, "fraction": frac, "one_off": one_off}


def ref_weights(inter, cov, order):
    n = len(cov)
    w = {}
    subsets = [frozenset(s) for r in range(1, n + 1) for s in itertools.combinations(range(n), r)]
    if inter == "random":
        for s in subsets:
            w[s] = math.prod(cov[i] if i in s else 1 - cov[i] for i in range(n))
    elif inter == "nested":
        idx = sorted(range(n), key=lambda i: cov[i])
        prevc = 0.0
        active = set(range(n))
        for i in idx:
            s = frozenset(active)
            w[s] = w.get(s, 0.0) + (cov[i] - prevc)
            prevc = cov[i]
            active.discard(i)
    else:
        if sum(cov) <= 1:
            for i in range(n):
                w[frozenset([i])] = cov[i]
        else:
            add = [0.0] * n
            used = 0.0
            for i in order:
                add[i] = max(0.0, min(cov[i], 1 - used))
                used += cov[i]
            rp = [((cov[i] - add[i]) / (1 - add[i])) if (1 - add[i]) != 0 else 0.0 for i in range(n)]
            for s in subsets:
                tot = 0.0
                for i in s:
                    tot += add[i] * math.prod((rp[j] if j in s else 1 - rp[j]) for j in range(n) if j != i)
                w[s] = tot
    return w


def outcome(covout, cov_by_prog):
    """expected parameter value for one covout given {program: coverage}; returns (value, ambiguous)
    ambiguous = ties in |outcome - baseline| make the additive fill order (hence the value) implementation-defined"""
    names = list(covout["progs"])
    b = covout["base"]
    deltas = [covout["progs"][k] - b for k in names]
    cov = [cov_by_prog[k] for k in names]
    n = len(names)
    if n == 0:
        return b, False
    if n == 1:
        return b + cov[0] * deltas[0], False
    order = sorted(range(n), key=lambda i: -abs(deltas[i]))
    mags = sorted(abs(d) for d in deltas)
    ties = any(mags[i] == mags[i + 1] for i in range(n - 1))
    inter = covout.get("ci", "additive")
    ambiguous = ties and ((inter == "additive" and sum(cov) > 1) or True)
    w = ref_weights(inter, cov, order)
    expl = {}
    for k, v in (covout.get("imp") or {}).items():
        expl[frozenset(names.index(x.strip()) for x in k.split("+"))] = float(v) - b
    val = b
    for s, ws in w.items():
        if s in expl:
            d = expl[s]
        else:
            far = max(s, key=lambda i: abs(deltas[i]))
            d = deltas[far]
        val += ws * d
    return val, (ambiguous and ties)
