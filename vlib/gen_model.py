"""Hypothesis strategy producing ModelSpecs (plain JSON data) by construction (DESIGN.md 1.1, Appendix D).

Every random choice is a Hypothesis draw.  `profile` biases the generator towards the features a property needs.
"""
import json
from hypothesis import strategies as st

DTS = [1.0, 0.5, 0.25, 0.125, 0.1, 0.2, 1 / 3, 1 / 12, 1 / 52, 0.05, 0.3]
TIMESCALES = [None, None, None, 1.0, 1 / 12, 1 / 52, 1 / 365, 2.0]

DEFAULT_PROFILE = {
    "max_ord": 4,
    "p_source": 0.5,
    "p_sink": 0.6,
    "max_junction_motifs": 2,
    "max_timed_motifs": 2,
    "p_junction": 0.6,
    "p_timed": 0.5,
    "max_pops": 3,
    "p_transfer": 0.5,
    "p_function": 0.4,
    "p_programs": 0.0,
    "extreme": 0.15,  # probability of an extreme value class for any numeric draw
    "allow_negative_functions": False,
    "allow_junction_init": True,
    "max_steps": 40,
    "min_steps": 3,
    "dts": DTS,
    "characs": True,
    "p_limits": 0.3,
    "p_interaction": 0.3,
    "p_time_varying": 0.4,
    "p_yfactor": 0.3,
    "grid_aligned": False,  # if True, end = start + n*dt exactly representable choices only
    "p_deriv": 0.0,
    "p_output_pars": 0.3,
    "smooth_functions": False,
}


def _f(x):
    return float(x)


@st.composite
def number_in(draw, lo, hi):
    return draw(st.floats(min_value=lo, max_value=hi, allow_nan=False, allow_infinity=False))


class G:
    """generation context bound to one draw function"""

    def __init__(self, draw, profile):
        self.draw = draw
        self.p = dict(DEFAULT_PROFILE)
        self.p.update(profile or {})
        self.labels = set()

    def coin(self, prob):
        if prob <= 0:
            return False
        if prob >= 1:
            return True
        # (Hypothesis favours small draws: measured, coin(0.12) comes up about 0.2-0.4 and coin(0.5) about 0.7; the nominal probabilities
        # in this file are therefore lower bounds for how often a feature appears - floats(0,1) would be far more biased still)
        return self.draw(st.integers(1, 1000)) <= int(round(prob * 1000))

    def pick(self, seq):
        return self.draw(st.sampled_from(list(seq)))

    def subset(self, seq, min_size=0, max_size=None):
        seq = list(seq)
        if not seq:
            return []
        return self.draw(st.lists(st.sampled_from(seq), unique=True, min_size=min(min_size, len(seq)), max_size=max_size if max_size is not None else len(seq)))

    def fl(self, lo, hi):
        return self.draw(st.floats(min_value=lo, max_value=hi, allow_nan=False, allow_infinity=False))

    def extreme(self):
        return self.coin(self.p["extreme"])

    # ---- value classes -------------------------------------------------
    def val_size(self):
        if self.extreme():
            c = self.pick(["zero", "tiny", "huge"])
            self.labels.add("size:" + c)
            return {"zero": 0.0, "tiny": self.fl(1e-9, 1e-3), "huge": self.fl(1e6, 1e10)}[c]
        c = self.pick(["zero", "small", "ord", "ord"])
        return {"zero": 0.0, "small": self.fl(0.01, 10), "ord": self.fl(10, 1e4)}[c]

    def val_for(self, fmt):
        ex = self.extreme()
        if fmt in ("rate", "probability"):
            if ex:
                c = self.pick(["zero", "tiny", "large", "xlarge"])
                self.labels.add("rate:" + c)
                return {"zero": 0.0, "tiny": self.fl(1e-9, 1e-4), "large": self.fl(3, 60), "xlarge": self.fl(100, 1e5)}[c]
            return self.fl(0.001, 2.5)
        if fmt == "duration":
            if ex:
                c = self.pick(["tiny", "short", "huge"])
                self.labels.add("duration:" + c)
                return {"tiny": self.fl(1e-6, 1e-3), "short": self.fl(0.005, 0.2), "huge": self.fl(100, 1e6)}[c]
            return self.fl(0.1, 12)
        if fmt == "number":
            if ex:
                c = self.pick(["zero", "huge"])
                self.labels.add("number:" + c)
                return {"zero": 0.0, "huge": self.fl(1e5, 1e9)}[c]
            return self.fl(0.1, 2000)
        if fmt == "proportion":
            c = self.pick(["zero", "ord", "ord", "one", "above"])
            return {"zero": 0.0, "ord": self.fl(0.01, 1), "one": 1.0, "above": self.fl(1, 3)}[c]
        return self.fl(0, 10)

    def timed_duration(self, dt, ts):
        """duration (in units of the timescale) of a timed parameter, chosen as a ratio to the step size"""
        ts = ts or 1.0
        c = self.pick(["int", "int", "half", "below1", "frac", "long"])
        self.labels.add("timedD:" + c)
        if c == "int":
            r = float(self.draw(st.integers(1, 12)))
        elif c == "half":
            r = self.draw(st.integers(0, 8)) + 0.5
        elif c == "below1":
            r = self.fl(0.01, 0.99)
        elif c == "frac":
            r = self.fl(1.0, 10.0)
        else:
            r = float(self.draw(st.integers(13, self.p.get("max_bins", 60))))
        return r * dt / ts

    def series(self, fmt, years, constant=False, positive=False):
        """databook entry for one (quantity, pop): assumption or sparse year values"""

        def v():
            x = self.val_for(fmt)
            if positive and x <= 0:
                x = 0.5
            return x

        if constant or not self.coin(self.p["p_time_varying"]):
            return {"a": v()}
        if fmt in ("rate", "probability", "number") and len(years) >= 4 and self.coin(0.2):
            # arrivals that stop: positive at the start, ramping to exactly 0 and staying there (pulses / on-off histories downstream)
            self.labels.add("data:stops-to-zero")
            k = self.pick([2, 3])
            return {"t": [years[1], years[k]], "v": [v(), 0.0]}
        ys = self.subset(years, min_size=1)
        ys = sorted(ys)
        self.labels.add("data:years%d" % min(len(ys), 3))
        return {"t": ys, "v": [v() for _ in ys]}


def par_sources_links(links, par):
    """(source, destination) compartment names of the links driven by a parameter"""
    return [(a, b) for (a, b), v in links.items() if v and v != ">" and par in v]


def _expr(g, names, depth, signed=False):
    """non-negative (unless signed) arithmetic expression over names; denominators are bounded away from 0 except in the capped "rawdiv" form"""
    d = g.draw

    def leaf():
        k = g.pick(["const", "name", "name", "t", "dt"] if names else ["const", "t", "dt"])
        if k == "const":
            return repr(g.pick([0.0, 0.5, 1.0, 2.0, 0.01, 10.0, 0.3]))
        if k == "name":
            return g.pick(names)
        if k == "t":
            return "(t - 1990)"
        return "dt"

    if depth <= 0:
        return leaf()
    ops = ["leaf", "add", "mul", "div", "max", "min", "expneg", "sqrt", "frac", "cmp", "pow", "rawdiv"]
    if not g.p["smooth_functions"]:
        ops += ["floor"]
    if signed:
        ops += ["sub", "sub", "neg"]
    k = g.pick(ops)
    a = _expr(g, names, depth - 1)
    b = _expr(g, names, depth - 1)
    if k == "leaf":
        return leaf()
    if k == "add":
        return "(%s + %s)" % (a, b)
    if k == "mul":
        return "(%s * %s)" % (a, repr(g.pick([0.5, 2.0, 0.01, 10.0, 1.0])))
    if k == "div":
        return "(%s / (%s + %s))" % (a, b, repr(g.pick([1.0, 0.1, 100.0])))
    if k == "frac":
        return "(%s / (%s + %s + 1))" % (a, a, b)
    if k == "rawdiv":
        # the denominator may be exactly 0: documented division gives 0 for 0/0 and inf for x/0 (capped here so the value stays usable)
        g.labels.add("fn:division-by-possibly-zero")
        return "min((%s / %s), %s)" % (a, b, repr(g.pick([1.0, 5.0, 1e3])))
    if k == "max":
        return "max(%s, %s)" % (a, b)
    if k == "min":
        return "min(%s, %s)" % (a, b)
    if k == "expneg":
        return "exp(-(%s))" % a
    if k == "sqrt":
        return "sqrt(%s)" % a
    if k == "floor":
        return "floor(%s)" % a
    if k == "cmp":
        return "((%s > %s) * %s)" % (a, b, _expr(g, names, 0))
    if k == "pow":
        return "(%s ** %s)" % (a, repr(g.pick([0.5, 1.0, 0.25])))
    if k == "sub":
        return "(%s - %s)" % (a, b)
    if k == "neg":
        return "(-%s)" % a
    return leaf()


@st.composite
def model_specs(draw, profile=None):
    g = G(draw, profile)
    p = g.p
    spec = {"comps": [], "characs": [], "pars": [], "links": [], "inter": [], "cascades": []}
    links = {}  # (src,dst) -> list of par names or ">"
    par_sources = {}  # par -> set of source comps already driven
    pars = {}  # name -> dict
    comp_kind = {}
    group_of = {}  # timed comp -> duration par name

    # ---- settings (drawn first: timed durations are chosen relative to dt) -------------------------------------------------------------------------------
    dt = g.pick(p["dts"])
    start = g.pick([2000.0, 2000.0, 2001.0, 2000.5, 1999.75])
    nsteps = draw(st.integers(p["min_steps"], p["max_steps"]))
    if p["grid_aligned"] or g.coin(0.7):
        end = start + nsteps * dt
    else:
        end = start + nsteps * dt - g.pick([0.3, 0.5, 0.9]) * dt
        g.labels.add("settings:end-off-grid")
    spec["settings"] = {"start": start, "end": end, "dt": dt}
    g.labels.add("dt:%.4g" % dt)


    def add_comp(name, kind, db=True):
        spec["comps"].append({"name": name, "kind": kind, "db": bool(db) and kind in ("ord", "junc")})
        comp_kind[name] = kind

    def new_par(fmt, **kw):
        name = "k%d" % len(pars)
        d = {"name": name, "fmt": fmt, "ts": None, "fn": None, "db": True, "min": None, "max": None, "tgt": False, "timed": False, "deriv": False}
        d.update(kw)
        pars[name] = d
        par_sources[name] = set()
        return name

    def attach(src, dst, par):
        links.setdefault((src, dst), [])
        if links[(src, dst)] == ">":
            return False
        if src in par_sources[par]:
            return False
        links[(src, dst)].append(par)
        par_sources[par].add(src)
        return True

    def trans_fmt():
        return g.pick(["rate", "rate", "probability", "number", "duration"])

    def par_for_edge(src, allow_reuse=True):
        """an ordinary transition parameter for an edge out of ordinary/timed compartment src (new or reused)"""
        reusable = [n for n, d in pars.items() if d["fmt"] in ("rate", "probability", "number", "duration") and not d["timed"] and src not in par_sources[n] and not d.get("_source_only") and not d.get("_output")]
        if allow_reuse and reusable and g.coin(0.25):
            g.labels.add("par:shared-across-links")
            return g.pick(reusable)
        fmt = trans_fmt()
        ts = g.pick(TIMESCALES)
        if ts not in (None, 1.0):
            g.labels.add("timescale!=1")
        return new_par(fmt, ts=ts)

    # ---- ordinary compartments, chain + extra edges ---------------------------
    n_ord = draw(st.integers(1, p["max_ord"]))
    ords = ["c%d" % i for i in range(n_ord)]
    for c in ords:
        add_comp(c, "ord")
    for i in range(n_ord - 1):
        attach(ords[i], ords[i + 1], par_for_edge(ords[i]))
    if n_ord >= 2:
        n_extra = draw(st.integers(0, n_ord))
        for _ in range(n_extra):
            a = g.pick(ords)
            b = g.pick([x for x in ords if x != a])
            if links.get((a, b)) and g.coin(0.5):
                g.labels.add("link:two-parameters")
            attach(a, b, par_for_edge(a))
            if ords.index(b) < ords.index(a):
                g.labels.add("graph:cycle")

    want_sink = g.coin(p["p_sink"])
    if want_sink:
        add_comp("snk", "sink")
    # ---- timed motifs -----------------------------------------------------------
    timed_groups = []
    n_timed = draw(st.integers(0, p["max_timed_motifs"])) if g.coin(p["p_timed"]) else 0
    for m in range(n_timed):
        dpar = new_par("duration", timed=True, ts=g.pick([None, None, 1.0, 1 / 12, 1 / 52]))
        members = ["t%da" % m]
        if g.coin(0.5):
            members.append("t%db" % m)
            if g.coin(0.3):
                members.append("t%dc" % m)
        for c in members:
            add_comp(c, "ord")
            group_of[c] = dpar
        timed_groups.append((dpar, members))
        g.labels.add("timed:group%d" % len(members))
        # inflow into first member from an ordinary compartment
        feeder = g.pick(ords)
        attach(feeder, members[0], par_for_edge(feeder))
        # in-group moves (time preserving), possibly through an in-group junction
        if len(members) >= 2:
            if len(members) == 3 and g.coin(0.5):
                jn = "jg%d" % m
                add_comp(jn, "junc", db=g.coin(0.3) if p["allow_junction_init"] else False)
                group_of[jn] = dpar
                attach(members[0], jn, par_for_edge(members[0], allow_reuse=False))
                if g.coin(0.4):
                    # residual form: stated proportion to one member, the remainder ('>') to the other
                    attach(jn, members[1], new_par("proportion"))
                    links[(jn, members[2])] = ">"
                    g.labels.add("timed:in-group-residual-junction")
                else:
                    for tgt in members[1:]:
                        attach(jn, tgt, new_par("proportion"))
                g.labels.add("timed:in-group-junction")
                if g.coin(0.5):
                    # a second time-preserving inflow into the in-group junction (from another member of the group)
                    attach(g.pick(members[1:]), jn, par_for_edge(members[1], allow_reuse=False))
                    g.labels.add("timed:in-group-junction-two-inflows")
            else:
                for a, b in zip(members[:-1], members[1:]):
                    attach(a, b, par_for_edge(a, allow_reuse=False))
                if len(members) >= 2 and g.coin(0.3):
                    attach(members[-1], members[0], par_for_edge(members[-1], allow_reuse=False))
                    g.labels.add("timed:in-group-cycle")
        # flush of every member to something outside the group (ordinary compartment)
        for c in members:
            tgt = g.pick(ords + (["snk"] if want_sink else []))
            attach(c, tgt, dpar)
            if tgt == "snk":
                g.labels.add("timed:flush-into-sink")
        # extra ordinary exits
        for c in members:
            if g.coin(0.4):
                attach(c, g.pick(ords), par_for_edge(c))
                g.labels.add("timed:extra-exit")

    # ---- source / sink ------------------------------------------------------------
    non_junc = [c["name"] for c in spec["comps"] if c["kind"] == "ord"]
    if g.coin(p["p_source"]):
        add_comp("src", "src")
        tgt = g.pick(non_junc)
        attach("src", tgt, new_par("number", ts=g.pick(TIMESCALES), _source_only=True))
        g.labels.add("has:source")
    if want_sink:
        for c in g.subset(non_junc, min_size=1):
            attach(c, "snk", par_for_edge(c))
        g.labels.add("has:sink")

    # ---- junction motifs (outside duration groups) ------------------------------------
    juncs = []
    n_j = draw(st.integers(0, p["max_junction_motifs"])) if g.coin(p["p_junction"]) else 0

    def up_groups(j, seen=None):
        seen = seen or set()
        out = set()
        for (a, b), v in links.items():
            if b == j and a not in seen:
                if comp_kind[a] == "junc":
                    out |= up_groups(a, seen | {j})
                elif a in group_of:
                    out.add(group_of[a])
        return out

    def down_groups(j, seen=None):
        seen = seen or set()
        out = set()
        for (a, b), v in links.items():
            if a == j and b not in seen:
                if comp_kind[b] == "junc":
                    out |= down_groups(b, seen | {j})
                elif b in group_of:
                    out.add(group_of[b])
        return out

    pending_residual_chain = []
    for m in range(n_j):
        jn = "j%d" % m
        add_comp(jn, "junc", db=g.coin(0.4) if p["allow_junction_init"] else False)
        juncs.append(jn)
        # feeders: ordinary or timed compartments (any parameter kind), or an earlier junction (chain)
        feeders = g.subset(non_junc, min_size=1, max_size=2)
        for f in feeders:
            attach(f, jn, par_for_edge(f))
        timed_members = [c for c in group_of if comp_kind[c] == "ord"]
        if timed_members and g.coin(0.25):
            tc = g.pick(timed_members)
            dpar_ = group_of[tc]
            for (a, b), v in list(links.items()):
                if a == tc and v != ">" and dpar_ in v:
                    v.remove(dpar_)
                    if not v:
                        del links[(a, b)]
                    par_sources[dpar_].discard(tc)
            attach(tc, jn, dpar_)
            g.labels.add("timed:flush-into-junction")
        if m > 0 and g.coin(0.5):
            # earlier junction feeds this one (acyclic: only earlier -> later)
            up = g.pick(juncs[:-1])
            if links.get((up, jn)) is None and not (up_groups(up) & down_groups(jn)):
                attach(up, jn, new_par("proportion"))
                g.labels.add("junction:chain")
        ug = up_groups(jn)
        targets = [c for c in non_junc + (["snk"] if "snk" in comp_kind else []) if group_of.get(c) not in ug or c not in group_of]
        targets = [c for c in targets if not (c in group_of and group_of[c] in ug)]
        chosen = g.subset(targets, min_size=1, max_size=3)
        residual = g.coin(0.4)
        for i, tgt in enumerate(chosen):
            if residual and i == len(chosen) - 1 and len(chosen) >= 2:
                links[(jn, tgt)] = ">"
                g.labels.add("junction:residual")
            else:
                # proportion parameter, possibly shared with another junction's outflow
                reusable = [n for n, d in pars.items() if d["fmt"] == "proportion" and jn not in par_sources[n]]
                if reusable and g.coin(0.2):
                    attach(jn, tgt, g.pick(reusable))
                else:
                    attach(jn, tgt, new_par("proportion"))
        if residual and len(chosen) == 1:
            # a residual junction needs at least the residual link; give it one proportion link and one residual
            others = [c for c in targets if c != chosen[0]]
            if others:
                links[(jn, g.pick(others))] = ">"
                g.labels.add("junction:residual")
        if len(chosen) >= 2:
            g.labels.add("junction:fan%d" % len(chosen))
        pending_residual_chain.append(jn)

    for jn in juncs[:-1]:
        res_edges = [(a, b) for (a, b), v in links.items() if a == jn and v == ">"]
        later = [x for x in juncs[juncs.index(jn) + 1 :] if (jn, x) not in links]
        if res_edges and later and g.coin(0.4):
            tgt = g.pick(later)
            if not (up_groups(jn) & down_groups(tgt)):
                del links[res_edges[0]]
                links[(jn, tgt)] = ">"
                g.labels.add("junction:residual-into-junction")
    if not pars:
        new_par("rate")  # a framework needs at least one parameter
    # ---- characteristics ---------------------------------------------------------------
    body = [c["name"] for c in spec["comps"] if c["kind"] in ("ord", "junc")]
    characs = []
    if p["characs"] and g.coin(0.7):
        # nested family, largest first (valid default cascade)
        order = draw(st.permutations(body))
        sizes = sorted(set(draw(st.lists(st.integers(1, len(body)), min_size=1, max_size=3))), reverse=True)
        for i, sz in enumerate(sizes):
            characs.append({"name": "x%d" % i, "inc": list(order[:sz]), "den": None, "db": False})
        if len(characs) >= 2 and g.coin(0.4):
            # written on the sheet BY REFERENCE: a larger characteristic lists the next smaller one among its components ("inc" stays the
            # flattened list of compartments, which is what it means; "inc_ref" is what the Components cell says)
            for a_, b_ in zip(characs[:-1], characs[1:]):
                a_["inc_ref"] = [b_["name"]] + [c_ for c_ in a_["inc"] if c_ not in b_["inc"]]
            g.labels.add("charac:includes-characteristic")
        if g.coin(0.5) and len(characs) >= 2:
            characs.append({"name": "xf", "inc": list(characs[-1]["inc"][:1]), "den": characs[0]["name"], "db": False})
            g.labels.add("charac:denominator")
    if len(characs) >= 2 and g.coin(0.5):
        # sheet order is free because an explicit cascade is always emitted: a fraction may be listed before its denominator
        characs = [characs[-1]] + characs[:-1] if characs[-1]["den"] is not None else list(reversed(characs))
        g.labels.add("charac:sheet-order-shuffled")
    spec["characs"] = characs
    if characs:
        nested = sorted([x for x in characs if x["den"] is None], key=lambda x: -len(x["inc"]))
        spec["cascades"] = [{"name": "main", "stages": [["S " + x["name"], [x["name"]]] for x in nested]}]

    # ---- interactions ---------------------------------------------------------------------
    # (populations are drawn below; interactions only matter for aggregation parameters)
    n_pops = draw(st.integers(1, p["max_pops"]))
    pops = ["p" + "abcdefgh"[i] for i in range(n_pops)]
    if n_pops >= 2 and g.coin(p["p_interaction"]):
        spec["inter"] = [{"name": "w0"}]

    # ---- functions on parameters -----------------------------------------------------------
    comp_names = [c["name"] for c in spec["comps"] if c["kind"] == "ord"]
    charac_names = [x["name"] for x in characs]
    order_pars = list(pars)
    for i, name in enumerate(order_pars):
        d = pars[name]
        if d["timed"]:
            continue
        if n_pops >= 2 and par_sources[name] and not d.get("_source_only") and g.coin(p.get("p_agg_transition", 0.05)):
            q = g.pick(comp_names + [n for n in order_pars[:i]])
            args = [q]
            if spec["inter"] and g.coin(0.7):
                args.append("w0")
                if g.coin(0.4):
                    args.append(g.pick(comp_names))
            d["fn"] = "%s(%s)" % (g.pick(["SRC_POP_AVG", "SRC_POP_SUM", "TGT_POP_AVG", "TGT_POP_SUM"]), ", ".join(args))
            d["db"] = g.coin(0.3)
            g.labels.add("par:aggregation-drives-transition")
            continue
        if g.coin(p["p_function"]):
            earlier = [n for n in order_pars[:i] if pars[n]["fmt"] != "proportion" or True]
            earlier = [n for n in earlier if not pars[n]["timed"] or True]
            names = comp_names + charac_names + earlier
            signed = p["allow_negative_functions"] and g.coin(0.5)
            depth = draw(st.integers(0, 2))
            fn = _expr(g, names, depth, signed=signed)
            if d["fmt"] == "proportion":
                fn = "(%s / (%s + 1))" % (fn, fn) if not signed else fn
            if d["fmt"] == "duration":
                fn = "(%s + %s)" % (fn, repr(g.pick([0.05, 0.5, 2.0])))
            d["fn"] = fn
            d["db"] = g.coin(0.3)
            g.labels.add("par:function")
            if d["fmt"] not in ("proportion", "duration") and not d.get("_source_only") and g.coin(p["p_deriv"]):
                d["deriv"] = True
                d["db"] = True  # the databook supplies the initial value
                d["fn"] = "(%s - %s * %s)" % (repr(g.pick([0.0, 0.1, 1.0])), repr(g.pick([0.0, 0.5, 1.0, 2.0])), g.pick(comp_names[:1] + [name, name]))
                g.labels.add("par:derivative")
            if signed:
                g.labels.add("par:signed-function")
    # aggregation / output-only parameters
    if g.coin(p["p_output_pars"]):
        tr_pars = [n for n, d in pars.items() if par_sources[n] and not d["timed"]]
        names = comp_names + charac_names + list(pars)
        k = g.pick(["flowsum", "expr", "agg", "agg"] if n_pops >= 2 else ["flowsum", "expr"])
        if k == "flowsum" and tr_pars:
            a = g.pick(tr_pars)
            sel = "%s:flow" % a
            if g.coin(0.5):
                # the other documented ways of naming flows: by the compartments they connect, optionally restricted to a parameter
                (ls, ld) = g.pick(par_sources_links(links, a))
                sel = g.pick(["%s:" % ls, ":%s" % ld, "%s:%s" % (ls, ld), "%s:%s:%s" % (ls, ld, a), "::%s" % a, ":%s:%s" % (ld, a), "%s::%s" % (ls, a)])
                g.labels.add("par:flow-output-by-compartments")
            nm = new_par(None, fn=sel, db=False, _output=True)
            g.labels.add("par:flow-output")
        elif k == "expr":
            nm = new_par(None, fn=_expr(g, names, 2), db=False, _output=True)
            g.labels.add("par:output-expr")
        elif k == "agg":
            q = g.pick(comp_names + [n for n in pars if not pars[n].get("_output")])
            fnname = g.pick(["SRC_POP_AVG", "SRC_POP_SUM", "TGT_POP_AVG", "TGT_POP_SUM"])
            args = [q]
            if spec["inter"] and g.coin(0.7):
                args.append("w0")
                if g.coin(0.5):
                    args.append(g.pick(comp_names))
            nm = new_par(None, fn="%s(%s)" % (fnname, ", ".join(args)), db=False, _output=True)
            g.labels.add("par:aggregation")

    # ---- limits -----------------------------------------------------------------------------
    for name, d in pars.items():
        if d["timed"]:
            continue
        if g.coin(p["p_limits"]):
            k = g.pick(["min", "max", "both"])
            if k in ("min", "both"):
                d["min"] = g.pick([0.0, 0.0, 0.05, 1.0])
            if k in ("max", "both"):
                d["max"] = g.pick([0.5, 1.0, 5.0, 1000.0])
                if d["min"] is not None and d["max"] < d["min"]:
                    d["max"] = d["min"] + 1.0
            if d["fmt"] == "duration" and (d["min"] is None or d["min"] <= 0):
                d["min"] = 0.01 if d["min"] is not None else None
            g.labels.add("par:limits")

    # ---- data ---------------------------------------------------------------------------------------
    years = [start + k for k in (-3.0, 0.0, 1.0, 2.5, 4.0, 30.0)]
    data = {"years": [start, start + 1.0, start + 5.0], "q": {}, "yf": {}, "myf": {}, "tr": [], "iw": {}}
    for c in spec["comps"]:
        if c["db"]:
            data["q"][c["name"]] = {pop: {"t": [start], "v": [g.val_size()]} if g.coin(0.7) else {"a": g.val_size()} for pop in pops}
            if c["kind"] == "junc":
                g.labels.add("junction:initialised")
            if g.coin(p.get("comp_yfactor", 0.0)):
                data["yf"][c["name"]] = {pop: g.pick([0.5, 2.0, 1.5]) for pop in g.subset(pops, min_size=1)}
                g.labels.add("data:comp-y-factor")
    # a junction that gets its initial people INDIRECTLY: it has no databook entry of its own and no default value, but a databook
    # characteristic "xi" = ordinary compartment + junction is entered together with that compartment, so the junction starts with the
    # remainder (and must be flushed before the first step like any other initialised junction)
    free_j = [c for c in spec["comps"] if c["kind"] == "junc" and not c["db"]]
    dbc = [c for c in spec["comps"] if c["kind"] == "ord" and c["db"] and c["name"].startswith("c")]
    if free_j and dbc and g.coin(p.get("p_indirect_junction", 0.12)):
        j, oc = g.pick(free_j), g.pick(dbc)
        j["free"] = True
        spec["characs"].append({"name": "xi", "inc": [oc["name"], j["name"]], "den": None, "db": True})
        extra = {pop: g.pick([0.0, 1.0, 50.0, 200.0, 1e3]) for pop in pops}
        data["q"]["xi"] = {}
        for pop in pops:
            e = data["q"][oc["name"]][pop]
            v = (e["v"][0] if "v" in e else e["a"]) * data["yf"].get(oc["name"], {}).get(pop, 1.0)
            data["q"]["xi"][pop] = {"t": [start], "v": [v + extra[pop]]}
        spec["indirect_init"] = {j["name"]: {"charac": "xi", "other": oc["name"]}}
        g.labels.add("junction:initialised-indirectly")
    for name, d in pars.items():
        if not d["db"]:
            continue
        fmt = d["fmt"] or "rate"
        if d["timed"]:
            data["q"][name] = {pop: {"a": g.timed_duration(dt, d["ts"])} for pop in pops}
            if g.coin(p.get("p_timed_yfactor", 0.0)):
                # calibration factor on the duration: keep value*factor on the same ratio classes by dividing the value
                for pop in g.subset(pops, min_size=1):
                    f = g.pick([2.0, 0.5, 3.0, 1.5])
                    data["yf"].setdefault(name, {})[pop] = f
                    if g.coin(0.5):
                        data["q"][name][pop]["a"] = data["q"][name][pop]["a"] / f
                g.labels.add("timed:y-factor")
            if g.coin(p.get("p_timed_yfactor", 0.0) / 2):
                data["myf"][name] = g.pick([2.0, 0.5])
                g.labels.add("timed:meta-y-factor")
        else:
            data["q"][name] = {pop: g.series(fmt, years, positive=(fmt == "duration")) for pop in pops}
        if g.coin(p["p_yfactor"]) and not d["timed"]:
            data["yf"][name] = {pop: g.pick([0.5, 2.0, 1.0, 0.0, 1.3]) for pop in g.subset(pops, min_size=1)}
            if fmt == "duration":
                data["yf"][name] = {k: (v if v > 0 else 1.5) for k, v in data["yf"][name].items()}
            g.labels.add("data:y-factor")
        if g.coin(p["p_yfactor"] / 2) and not d["timed"]:
            data["myf"][name] = g.pick([0.5, 2.0, 1.1])
    # the parameter set may interpolate a parameter stepwise ("previous") instead of linearly
    for name, d in pars.items():
        if d["db"] and not d["timed"] and not d["deriv"] and name in data["q"] and g.coin(p.get("p_stepped_interpolation", 0.06)):
            if any(len(e.get("t") or []) >= 2 for e in data["q"][name].values()):
                for e in data["q"][name].values():
                    e["m"] = "previous"
                g.labels.add("data:stepped-interpolation")
    # some parameters are entered as a single "All" row of the databook table (identical data for every population)
    data["all_rows"] = []
    if n_pops >= 2:
        for name, d in pars.items():
            if d["db"] and not d["timed"] and name in data["q"] and g.coin(p.get("p_all_row", 0.15)):
                first = pops[0]
                own = []
                if g.coin(0.4):
                    # the "All" row is only a fallback: these populations ALSO have a row of their own (with other numbers), which wins
                    own = g.subset(pops[1:], min_size=1)
                    data.setdefault("all_rows_own", {})[name] = own
                    g.labels.add("data:all-row-with-own-rows")
                for pop in pops[1:]:
                    if pop not in own:
                        data["q"][name][pop] = json.loads(json.dumps(data["q"][name][first]))
                data["all_rows"].append(name)
                g.labels.add("data:all-row")
    # every plain junction gets at least one strictly positive constant proportion (C01 domain)
    for jn in [c["name"] for c in spec["comps"] if c["kind"] == "junc"]:
        outs = [v for (a, b), v in links.items() if a == jn and v != ">"]
        has_res = any(v == ">" for (a, b), v in links.items() if a == jn)
        flat = [x for v in outs for x in v]
        if flat and not has_res:
            k = flat[0]
            d = pars[k]
            if d["fn"] is None:
                data["q"][k] = {pop: {"a": g.fl(0.05, 1.5)} for pop in pops}
                data["yf"].pop(k, None)
                if k in data["all_rows"]:
                    data["all_rows"].remove(k)
                    data.get("all_rows_own", {}).pop(k, None)
    # transfers
    if n_pops >= 2 and g.coin(p["p_transfer"]):
        n_tr = draw(st.integers(1, 2))
        for i in range(n_tr):
            e = {}
            pairs = [(a, b) for a in pops for b in pops if a != b]
            for a, b in g.subset(pairs, min_size=1, max_size=3 if n_pops < 3 else 6):
                u = g.pick(["rate", "rate", "number", "duration", "probability"])  # "probability" is the older spelling of a per-year rate, still accepted for transfers
                ent = g.series(u, years, positive=(u == "duration"))
                ent["u"] = u
                if g.coin(0.2):
                    ent["yf"] = g.pick([0.5, 2.0])
                e["%s>%s" % (a, b)] = ent
            data["tr"].append({"name": "tr%d" % i, "e": e})
        g.labels.add("has:transfer")
    for w in spec["inter"]:
        pairs = [(a, b) for a in pops for b in pops]
        data["iw"][w["name"]] = {"%s>%s" % (a, b): {"a": g.pick([0.0, 1.0, 0.5, 2.0])} for a, b in g.subset(pairs, min_size=1)}
        if g.coin(0.3):
            # interaction weights that change over time (entered for years; interpolated like any other databook series)
            for key in list(data["iw"][w["name"]]):
                if g.coin(0.6):
                    ys = sorted({start + g.pick([0.0, 1.0, 2.5, 4.0, -3.0]) for _ in range(3)})
                    data["iw"][w["name"]][key] = {"t": ys, "v": [g.pick([0.0, 1.0, 0.5, 2.0, 0.1]) for _ in ys]}
            g.labels.add("interaction:time-varying")
    # ---- programs and instructions -------------------------------------------------------------------
    spec["progs"] = None
    spec["instr"] = None
    if g.coin(p["p_programs"]):
        sim_end = start + nsteps * dt
        elig = [c["name"] for c in spec["comps"] if c["kind"] == "ord"]
        n_pr = draw(st.integers(1, 3))
        plist = []
        for i in range(n_pr):
            pr = {"name": "G" + "abc"[i], "pops": g.subset(pops, min_size=1), "comps": g.subset(elig, min_size=1, max_size=3)}
            y0 = g.pick([start, start - 1.0])

            def money():
                return g.pick([0.0, 10.0, 100.0, 1000.0, 1e5]) if g.coin(0.3) else g.fl(1.0, 5000.0)

            pr["spend"] = {"t": [y0], "v": [money()]}
            if g.coin(0.3):
                pr["spend"] = {"t": [y0, start + g.pick([1, 2, 3]) * dt], "v": [money(), money()]}
                g.labels.add("prog:spend-time-varying")
                if g.coin(0.4):
                    # both entries lie after the first simulated (and possibly active) time: before the first entry its value holds
                    f = start + g.pick([1, 2]) * dt
                    pr["spend"]["t"] = [f, f + g.pick([1, 2, 3]) * dt]
                    g.labels.add("prog:series-starts-after-sim-start")
            pr["cost"] = {"t": [y0], "v": [g.pick([0.5, 1.0, 10.0, 200.0]) if g.coin(0.5) else g.fl(0.1, 500.0)]}
            if g.coin(0.15):
                f = start + g.pick([0, 1, 2]) * dt
                pr["cost"] = {"t": [f, f + g.pick([1, 2]) * dt], "v": [pr["cost"]["v"][0], g.fl(0.1, 500.0)]}
                g.labels.add("prog:unit-cost-time-varying")
            pr["per_year"] = g.coin(0.4)
            if not pr["per_year"] and g.coin(0.3):
                pr["legacy_units"] = True
                g.labels.add("prog:legacy-one-off-units")
            if g.coin(0.3):
                pr["cap"] = {"t": [y0], "v": [g.pick([0.0, 1.0, 50.0, 1e4])]}
                pr["cap_per_year"] = g.coin(0.5)
                g.labels.add("prog:capacity-constraint")
            if g.coin(0.3):
                pr["sat"] = {"t": [y0], "v": [g.pick([0.2, 0.5, 0.9, 1.0, 2.0])]}
                g.labels.add("prog:saturation")
            plist.append(pr)
        # candidate targets: non-timed, non-derivative parameters; number format only for transition parameters
        cands = []
        for name, d in pars.items():
            if d["timed"] or d["deriv"]:
                continue
            if (d["fn"] or "").startswith(("SRC_POP", "TGT_POP")) or ":" in (d["fn"] or ""):
                continue  # aggregations are computed after the overwrite; parameters depending on flows are output-only and cannot be overwritten
            if d["fmt"] == "number" and not par_sources[name]:
                continue
            cands.append(name)
        covouts = []
        for name in g.subset(cands, min_size=1, max_size=3):
            pars[name]["tgt"] = True
            fmt = pars[name]["fmt"]

            def outcome():
                if fmt in ("rate", "probability", "proportion"):
                    return g.pick([0.0, 1.0, 0.5]) if g.coin(0.3) else g.fl(0.0, 1.0)
                if fmt == "number":
                    return g.fl(0.0, 2.0)
                if fmt == "duration":
                    return g.fl(0.05, 5.0)
                return g.fl(0.0, 10.0)

            for pop in g.subset(pops, min_size=1):
                prs = g.subset([q["name"] for q in plist], min_size=1)
                co = {"par": name, "pop": pop, "base": outcome(), "progs": {q: outcome() for q in prs}, "ci": g.pick(["additive", "random", "nested"])}
                if len(prs) >= 2 and g.coin(0.3):
                    co["imp"] = {"+".join(prs[:2]): outcome()}
                    g.labels.add("prog:explicit-interaction")
                covouts.append(co)
            g.labels.add("prog:target-%s%s" % (fmt, "" if par_sources[name] else "-nontransition"))
        spec["progs"] = {"years": [start], "progs": plist, "covouts": covouts}
        k0 = draw(st.integers(0, max(0, nsteps - 1)))
        ystart = start + k0 * dt + g.pick([0.0, 0.0, 0.5 * dt])
        ins = {"start": ystart, "stop": None, "alloc": {}, "capacity": {}, "coverage": {}}
        if g.coin(0.4):
            ins["stop"] = ystart + draw(st.integers(1, max(1, nsteps))) * dt + g.pick([0.0, 0.3 * dt])
            g.labels.add("instr:stop-year")
        for q in plist:
            if g.coin(0.3):
                ins["alloc"][q["name"]] = {"t": [ystart], "v": [g.fl(0.0, 5000.0)]}
                g.labels.add("instr:alloc")
                if g.coin(0.3):
                    f = ystart + g.pick([1, 2]) * dt
                    ins["alloc"][q["name"]] = {"t": [f, f + g.pick([1, 2]) * dt], "v": [g.fl(0.0, 5000.0), g.fl(0.0, 5000.0)]}
                    g.labels.add("instr:alloc-series-starts-after-program-start")
            if g.coin(0.15):
                ins["capacity"][q["name"]] = {"t": [ystart], "v": [g.fl(0.0, 2000.0)]}
                g.labels.add("instr:capacity")
                if g.coin(0.3):
                    f = ystart + g.pick([0, 1, 2]) * dt
                    ins["capacity"][q["name"]] = {"t": [f, f + g.pick([1, 2, 3]) * dt], "v": [g.fl(0.0, 2000.0), g.fl(0.0, 2000.0)]}
                    g.labels.add("instr:capacity-time-varying")
            if g.coin(0.15):
                ins["coverage"][q["name"]] = {"t": [ystart], "v": [g.fl(0.0, 1.2)]}
                g.labels.add("instr:coverage")
                if g.coin(0.3):
                    f = ystart + g.pick([0, 1, 2]) * dt
                    ins["coverage"][q["name"]] = {"t": [f, f + g.pick([1, 2, 3]) * dt], "v": [g.fl(0.0, 1.2), g.fl(0.0, 1.2)]}
                    g.labels.add("instr:coverage-time-varying")
        if plist and g.coin(0.03):
            # a pure coverage scenario: every program has a coverage overwrite, at least one of them changing over time
            for q in plist:
                f = ystart + g.pick([0, 1]) * dt
                ins["coverage"][q["name"]] = {"t": [f, f + g.pick([1, 2, 3]) * dt], "v": [g.fl(0.0, 1.0), g.fl(0.0, 1.0)]}
            g.labels.add("instr:coverage-on-every-program")
        spec["instr"] = ins
        g.labels.add("has:programs")
    # ---- optional second population type (cross-type interaction and aggregation) ---------------------------------
    extra_pops = []
    if g.coin(p.get("p_second_type", 0.0)):
        spec["pop_types"] = ["hum", "vec"]
        for c in spec["comps"]:
            c["type"] = "hum"
        for x in characs:
            x["type"] = "hum"
        for d in pars.values():
            d["type"] = "hum"
        for w in spec["inter"]:
            w["from"], w["to"] = "hum", "hum"
        spec["comps"] += [{"name": "v0", "kind": "ord", "db": True, "type": "vec"}, {"name": "v1", "kind": "ord", "db": True, "type": "vec"}]
        vpops = ["qa", "qb"][: draw(st.integers(1, 2))]
        extra_pops = [{"name": q, "type": "vec"} for q in vpops]
        pars["kv0"] = {"name": "kv0", "fmt": "rate", "ts": None, "fn": None, "db": True, "min": None, "max": None, "tgt": False, "timed": False, "deriv": False, "type": "vec"}
        pars["kv1"] = {"name": "kv1", "fmt": g.pick(["rate", "probability"]), "ts": None, "fn": None, "db": True, "min": None, "max": None, "tgt": False, "timed": False, "deriv": False, "type": "vec"}
        links[("v0", "v1")] = ["kv0"]
        links[("v1", "v0")] = ["kv1"]
        spec["inter"].append({"name": "w1", "from": "hum", "to": "vec"})
        q = g.pick(comp_names[:2] + [n for n, d in list(pars.items())[:2] if d.get("type") == "hum" and not (d.get("fn") or "").startswith(("SRC_", "TGT_"))])
        args = [q, "w1"] + ([g.pick(comp_names[:1])] if g.coin(0.4) else [])
        pars["kv1"]["fn"] = "%s(%s)" % (g.pick(["SRC_POP_AVG", "SRC_POP_SUM"]), ", ".join(args))
        pars["kv1"]["db"] = False
        for c in ("v0", "v1"):
            data["q"][c] = {q_: {"t": [start], "v": [g.val_size()]} for q_ in vpops}
        data["q"]["kv0"] = {q_: g.series("rate", years) for q_ in vpops}
        data["iw"]["w1"] = {"%s>%s" % (a, b): {"a": g.pick([0.0, 1.0, 0.5, 2.0])} for a in pops for b in vpops if g.coin(0.8)}
        g.labels.add("second-population-type")
        if g.coin(0.5):
            # the second type has a junction of its own with a residual outflow (its transition matrix is a separate table on the sheet)
            spec["comps"].append({"name": "jv", "kind": "junc", "db": False, "type": "vec"})
            for nm, fmt in (("kv2", "rate"), ("qv", "proportion")):
                pars[nm] = {"name": nm, "fmt": fmt, "ts": None, "fn": None, "db": True, "min": None, "max": None, "tgt": False, "timed": False, "deriv": False, "type": "vec"}
            links[("v0", "jv")] = ["kv2"]
            links[("jv", "v0")] = ["qv"]
            links[("jv", "v1")] = ">"
            data["q"]["kv2"] = {q_: g.series("rate", years) for q_ in vpops}
            data["q"]["qv"] = {q_: {"a": g.pick([0.0, 0.25, 0.6, 1.0, 1.3])} for q_ in vpops}
            g.labels.add("second-population-type:residual-junction")
    spec["data"] = data
    spec["pops"] = pops + extra_pops
    if g.coin(0.5):
        spec["comps"] = list(draw(st.permutations(spec["comps"])))  # the sheet order of compartments is free
        g.labels.add("comps:sheet-order-shuffled")
    n_first = len([c for c in spec["comps"] if c.get("type", "hum") == "hum" or "type" not in c])
    if n_first >= 2 and g.coin(p.get("p_split_transitions", 0.15)):
        spec["split_transitions"] = {"k": draw(st.integers(1, n_first - 1)), "rev": g.coin(0.5)}
        g.labels.add("transitions:split-matrix")
    spec["pars"] = [{k: v for k, v in d.items() if not k.startswith("_")} for d in pars.values()]
    spec["links"] = [[a, b, v] for (a, b), v in links.items() if v]
    g.labels.add("pops:%d" % n_pops)
    spec["labels"] = sorted(g.labels)
    return spec
