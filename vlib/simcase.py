"""Shared plumbing for the simulation properties: build + run a ModelSpec, common discards."""
import numpy as np
from . import build, oracles
from .runner import Discard, HarnessError


def quiet():
    import atomica as at
    import logging

    at.logger.setLevel(logging.CRITICAL)


def two_step(P, ps, progset=None, instructions=None, name="run"):
    """documented two-step use of run_model: build (initial state, junctions not yet flushed), then process.
    returns (result, preflush) with preflush = {(pop, comp): size at index 0 before the initial junction flush}"""
    import atomica as at

    m = at.Model(P.settings, P.framework, ps, progset, instructions)
    pre = {}
    for pop in m.pops:
        for c in pop.comps:
            pre[(pop.name, c.name)] = float(np.asarray(c.vals)[0])
    m.process()
    return at.Result(model=m, parset=ps, name=name), pre


def atomica_frame(e):
    """innermost frame of the traceback that lies in the atomica package -> 'file:line'"""
    import traceback, os

    where = "?"
    while e is not None:
        for fr in traceback.extract_tb(e.__traceback__):
            if os.sep + "atomica" + os.sep in fr.filename:
                where = "%s:%d" % (os.path.basename(fr.filename), fr.lineno)
        e = e.__cause__
    return where


def run_spec(spec, check_domain=True, b=None):
    """Build and run.  A spec the generator believes valid but atomica cannot build or run is not a violation of the
    simulation properties (it is what C18's acceptance chain decides); it is discarded here and counted by exception site."""
    quiet()
    try:
        b = b or build.build_all(spec)
        res, pre = two_step(b["P"], b["ps"], b["progset"], b["instructions"])
    except HarnessError:
        raise
    except Exception as e:
        raise Discard("atomica raised %s at %s (decided by C18)" % (type(e).__name__, atomica_frame(e)))
    b["preflush"] = pre
    if check_domain:
        oracles.check_overflow(res, spec=spec)
        oracles.check_junction_domain(res, pre)
        preflush_domain(spec, pre)
    return b, res


def labels_of(spec):
    if "lib" in spec:
        return ["lib:" + spec["lib"], "lib-dt:%.4g" % spec["dt"]] + (["lib-programs"] if spec.get("progs") else [])
    return list(spec.get("labels", []))


def run_any(case, check_domain=True):
    """case is a ModelSpec or a library case ({"lib": ...}, see vlib.libcase); returns (b, res) like run_spec"""
    if "lib" not in case:
        return run_spec(case, check_domain=check_domain)
    from . import libcase

    quiet()
    try:
        P, ps, res, pre = libcase.run(case)
    except Exception as e:
        raise Discard("library case: atomica raised %s at %s" % (type(e).__name__, atomica_frame(e)))
    if check_domain:
        oracles.check_overflow(res)
        oracles.check_junction_domain(res, pre)
    return {"P": P, "ps": ps, "preflush": pre, "progset": None, "instructions": None}, res


def preflush_domain(spec, pre):
    """The initial junction flush uses the parameter values computed from the PRE-flush state, which atomica does not record.
    Recompute them from the inputs with the reference simulator: a plain junction that starts with people while its proportions
    (pre-flush) sum to <= 0 makes the model ill-posed and is outside the domain of C01/C02/C04."""
    juncs = [c["name"] for c in spec["comps"] if c["kind"] == "junc"]
    started = [(pop, j) for (pop, j), x in pre.items() if j in juncs and x > 0]
    if not started:
        return
    from . import refsim

    if len(spec.get("pop_types") or []) > 1:
        # junctions only exist in the first population type of generated specs: evaluate the flush on that part alone
        import copy

        t0 = spec["pop_types"][0]
        sub = copy.deepcopy(spec)
        sub["pop_types"] = None
        drop_c = {c["name"] for c in spec["comps"] if c.get("type", t0) != t0}
        drop_p = {p_["name"] for p_ in spec["pars"] if p_.get("type", t0) != t0}
        sub["comps"] = [c for c in sub["comps"] if c["name"] not in drop_c]
        sub["pars"] = [p_ for p_ in sub["pars"] if p_["name"] not in drop_p]
        sub["characs"] = [x for x in sub.get("characs", []) if x.get("type", t0) == t0]
        sub["links"] = [l for l in sub["links"] if l[0] not in drop_c and l[1] not in drop_c]
        sub["pops"] = [q for q in sub["pops"] if isinstance(q, str) or q.get("type", t0) == t0]
        sub["pops"] = [q if isinstance(q, str) else q["name"] for q in sub["pops"]]
        sub["inter"] = [w for w in sub.get("inter", []) if w.get("from", t0) == t0 and w.get("to", t0) == t0]
        spec = sub
    try:
        sim = refsim.RefSim(spec, initial_only=True)
        state0 = sim.initial_state()
        pv = sim.eval_pars(state0, 0)
    except Discard:
        raise
    except Exception as e:
        # a junction starts with people but the pre-flush proportions cannot be recomputed independently: whether the model is
        # well-posed is then unknown, and an ill-posed one must not be judged
        raise Discard("junction initialised with people and the pre-flush parameter values could not be recomputed (%s)" % type(e).__name__)
    # push the contents down the junction DAG by the documented rule; a plain junction that holds or receives people while its
    # (pre-flush) proportions sum to <= 0 yields NaN in the reference as well: ill-posed
    import numpy as np

    sim.flush(state0, pv)
    for pop, d in state0.items():
        for c, v in d.items():
            if not np.all(np.isfinite(np.asarray(v, dtype=float))):
                raise Discard("plain junction holds or receives people in the initial flush while its proportions (pre-flush) sum to <= 0")
