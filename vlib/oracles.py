"""Invariant monitors: pure functions of a finished atomica Result (DESIGN.md 1.5).

They read comp.vals, link.vals, link.source/dest, comp.inlinks/outlinks and the per-bin matrices `_vals`
of timed objects.  Links are keyed by (pops, source, dest, parameter|anon), never by their random names.
"""
import numpy as np
from .runner import Violation, Discard
from .build import link_key


def kinds():
    from atomica.model import SourceCompartment, SinkCompartment, JunctionCompartment, ResidualJunctionCompartment, TimedCompartment, TimedLink

    return SourceCompartment, SinkCompartment, JunctionCompartment, ResidualJunctionCompartment, TimedCompartment, TimedLink


def tol(*xs):
    return 1e-9 * max(1.0, *[abs(float(x)) for x in xs])


def all_comps(res):
    for pop in res.model.pops:
        for c in pop.comps:
            yield pop, c


def all_links(res):
    for pop in res.model.pops:
        for l in pop.links:
            yield pop, l


def check_junction_domain(res, preflush=None):
    check_finite_inputs(res)
    if preflush:
        Src, Snk, Junc, ResJ, Timed, TLink = kinds()
        for pop, c in all_comps(res):
            if isinstance(c, Junc) and not isinstance(c, ResJ) and preflush.get((pop.name, c.name), 0) > 0:
                # proportions in force for the initial flush are not recorded separately; the stored index-0 values are the
                # post-flush ones.  If those sum to <= 0 the flush was (or would be) ill-posed as well.
                s0 = sum(max(float(np.asarray(l.parameter.vals)[0]), 0.0) for l in c.outlinks)
                if not (s0 > 0):
                    raise Discard("plain junction initialised with people while its proportions sum to <= 0")


def check_finite_inputs(res):
    """C01/C02/C04 domain: a plain junction that RECEIVES people (finite, non-zero inflow) while its proportions sum to <= 0
    makes the model ill-posed; the statement excludes it.  (A junction receiving nobody is inside the domain.)"""
    Src, Snk, Junc, ResJ, Timed, TLink = kinds()
    for pop, c in all_comps(res):
        if isinstance(c, Junc) and not isinstance(c, ResJ):
            s = sum(np.maximum(np.asarray(l.parameter.vals, dtype=float), 0.0) for l in c.outlinks)
            inflow = sum((np.asarray(l.vals, dtype=float) for l in c.inlinks), np.zeros_like(res.t))
            with np.errstate(invalid="ignore"):
                bad = np.isfinite(inflow) & (inflow != 0) & ~(s > 0)
            if bad.any():
                raise Discard("plain junction receives people while its proportions sum to <= 0")


def _explained_by_function_domain(res, spec, pop, par, ti):
    """Is the non-finite value of this parameter at ti what its own function gives for the same-step values atomica REPORTS for the
    dependencies (x/0, ln(0), sqrt of a negative number ...)?  True = outside the domain of the flow properties.  False = the reported
    inputs give a finite value, so the non-finite number was made by the engine itself and the case must be judged."""
    import math
    from . import expr

    if spec is None or "pars" not in spec:
        return True
    sp = {p_["name"]: p_ for p_ in spec["pars"]}.get(par.name)
    if sp is None or not sp.get("fn"):
        return True  # data / transfer parameter: non-finite data is not generated, leave the decision as it was
    fn = sp["fn"]
    if fn.startswith(("SRC_POP", "TGT_POP")) or sp.get("deriv"):
        return True
    env = {"t": float(res.t[ti]), "dt": float(res.model.dt)}
    try:
        for nm in expr.names(fn):
            if nm in ("t", "dt"):
                continue
            if ":" in nm:
                return True
            v = None
            for group in (pop.comps, pop.characs, pop.pars):
                for o in group:
                    if o.name == nm:
                        v = float(np.asarray(o.vals, dtype=float)[ti])
            if v is None:
                return True
            env[nm] = v
        val = expr.evaluate(fn, env, probe=False)
    except Exception:
        return True
    if not all(math.isfinite(x) for x in env.values()):
        return True
    return not math.isfinite(val)


def check_overflow(res, limit=1e100, spec=None):
    """float overflow through explosive feedback is outside every property's domain (magnitudes up to 1e12 are generated);
    so is a parameter that is NaN while every stock is still finite (a function such as sqrt of a negative value: C06 decides parameters)"""
    T = len(res.t)
    first_bad_stock = T
    for pop, c in all_comps(res):
        v = np.asarray(c.vals, dtype=float)
        bad = np.nonzero(~np.isfinite(v))[0]
        if bad.size:
            first_bad_stock = min(first_bad_stock, int(bad[0]))
    cands = []
    for pop in res.model.pops:
        for par in pop.pars:
            pv = np.asarray(par.vals, dtype=float)
            bad = np.nonzero(~np.isfinite(pv))[0]
            if bad.size and int(bad[0]) <= first_bad_stock and (par.links or getattr(par, "_is_dynamic", False)):
                cands.append((int(bad[0]), pop, par))
    if cands:
        # the EARLIEST non-finite parameters are the origin; later ones are consequences of the stocks they spoiled
        i0 = min(c[0] for c in cands)
        if True:
            for ti_, pop, par in [c for c in cands if c[0] == i0]:
                if not _explained_by_function_domain(res, spec, pop, par, ti_):
                    continue
                raise Discard("a parameter is NaN or infinite while all stocks are still finite (function outside its domain, e.g. x/0; parameters are decided by C06)")
    for pop, c in all_comps(res):
        v = np.asarray(c.vals, dtype=float)
        with np.errstate(invalid="ignore"):
            if (~np.isfinite(v)).any() or (np.abs(v) > limit).any():
                big = True
            else:
                big = False
        if big:
            for pop2 in res.model.pops:
                for par in pop2.pars:
                    pv = np.asarray(par.vals, dtype=float)
                    with np.errstate(invalid="ignore"):
                        if (np.abs(pv[np.isfinite(pv)]) > limit).any():
                            raise Discard("float overflow (values above 1e100) through explosive feedback")
            with np.errstate(invalid="ignore"):
                if (np.abs(v[np.isfinite(v)]) > limit).any():
                    raise Discard("float overflow (values above 1e100) through explosive feedback")


def junction_initial_domain(model):
    """before processing: a junction initialised > 0 whose proportions sum to <= 0 (plain) is outside the domain"""
    pass


def conservation(res, prop="C01"):
    """(a) stock balance for every non-source, non-junction compartment, (b) junction pass-through, (c) head count.
    returns dict of feature flags for non-triviality"""
    Src, Snk, Junc, ResJ, Timed, TLink = kinds()
    T = len(res.t)
    feats = set()
    total_next = np.zeros(T)
    source_out = np.zeros(T)
    for pop, c in all_comps(res):
        v = np.asarray(c.vals, dtype=float)
        inflow = sum((np.asarray(l.vals, dtype=float) for l in c.inlinks), np.zeros(T))
        outflow = sum((np.asarray(l.vals, dtype=float) for l in c.outlinks), np.zeros(T))
        if isinstance(c, Src):
            source_out += outflow
            if (outflow[:-1] > 0).any():
                feats.add("source")
            continue
        if not (np.all(np.isfinite(v)) and np.all(np.isfinite(inflow)) and np.all(np.isfinite(outflow))):
            raise Violation(prop, "nonfinite/%s" % type(c).__name__, "non-finite stock or flow in %s/%s" % (pop.name, c.name))
        if isinstance(c, Junc):
            err = np.abs(inflow - outflow)
            scale = 1e-9 * np.maximum(1.0, np.abs(inflow))
            bad = np.nonzero(err > scale)[0]
            if bad.size:
                i = int(bad[0])
                raise Violation(prop, "junction-pass-through/%s" % type(c).__name__, "junction %s/%s at index %d: inflow %r outflow %r" % (pop.name, c.name, i, inflow[i], outflow[i]))
            if np.abs(v).max() != 0:
                i = int(np.nonzero(v)[0][0])
                raise Violation(prop, "junction-not-empty", "junction %s/%s holds %r at index %d" % (pop.name, c.name, v[i], i))
            if isinstance(c, TLink) or c.duration_group:
                # per-bin pass-through inside duration groups
                inb = sum((l._vals for l in c.inlinks))
                outb = sum((l._vals for l in c.outlinks))
                e = np.abs(inb - outb)
                sc_ = 1e-9 * np.maximum(1.0, np.abs(inb))
                if (e > sc_).any():
                    k, i = [int(x[0]) for x in np.nonzero(e > sc_)]
                    raise Violation(prop, "junction-pass-through/per-bin", "junction %s/%s bin %d index %d: in %r out %r" % (pop.name, c.name, k, i, inb[k, i], outb[k, i]))
            if (inflow[:-1] > 0).any():
                feats.add("junction")
            continue
        pred = v[:-1] + inflow[:-1] - outflow[:-1]
        err = np.abs(v[1:] - pred)
        scale = 1e-9 * np.maximum(1.0, np.maximum(np.abs(v[:-1]), np.maximum(inflow[:-1], outflow[:-1])))
        bad = np.nonzero(err > scale)[0]
        if bad.size:
            i = int(bad[0])
            raise Violation(prop, "stock-balance/%s" % type(c).__name__, "%s/%s index %d: x[t]=%r in=%r out=%r x[t+1]=%r expected %r" % (pop.name, c.name, i, v[i], inflow[i], outflow[i], v[i + 1], pred[i]))
        total_next += v
        if isinstance(c, Timed):
            if (np.asarray(c.flush_link.vals)[:-1] > 0).any():
                feats.add("timed-flush")
            for l in c.outlinks:
                if isinstance(l, TLink) and (np.asarray(l.vals)[:-1] > 0).any():
                    feats.add("time-preserving-link")
        for l in c.outlinks:
            if l.dest.pop is not c.pop and (np.asarray(l.vals)[:-1] > 0).any():
                feats.add("transfer")
    # (c) head count
    d = total_next[1:] - total_next[:-1]
    err = np.abs(d - source_out[:-1])
    scale = 1e-9 * np.maximum(1.0, np.maximum(np.abs(total_next[:-1]), source_out[:-1]))
    bad = np.nonzero(err > scale * 10)[0]
    if bad.size:
        i = int(bad[0])
        raise Violation(prop, "head-count", "index %d: total %r -> %r but source outflow %r" % (i, total_next[i], total_next[i + 1], source_out[i]))
    return feats


def sign_and_overdraw(res, prop="C02"):
    Src, Snk, Junc, ResJ, Timed, TLink = kinds()
    feats = set()
    for pop, c in all_comps(res):
        v = np.asarray(c.vals, dtype=float)
        if not np.all(np.isfinite(v)):
            raise Violation(prop, "nonfinite-stock/%s" % type(c).__name__, "%s/%s has non-finite size (first index %d)" % (pop.name, c.name, int(np.nonzero(~np.isfinite(v))[0][0])))
        if (v < 0).any():
            i = int(np.nonzero(v < 0)[0][0])
            raise Violation(prop, "negative-stock/%s" % type(c).__name__, "%s/%s = %r at index %d" % (pop.name, c.name, v[i], i))
        if isinstance(c, Timed):
            b = c._vals
            if not np.all(np.isfinite(b)) or (b < 0).any():
                raise Violation(prop, "negative-or-nonfinite-bin", "%s/%s has a negative or non-finite bin" % (pop.name, c.name))
    for pop, l in all_links(res):
        v = np.asarray(l.vals, dtype=float)
        if not np.all(np.isfinite(v)):
            i = int(np.nonzero(~np.isfinite(v))[0][0])
            raise Violation(prop, "nonfinite-flow/%s" % type(l.source).__name__, "link %s is %r at index %d" % (link_key(l), v[i], i))
        # a residual computed as inflow - sum(outflows) may be negative in the last bits: that is rounding, not a reverse flow
        thr = -1e-12 * max(1.0, float(np.max(np.abs(v))), float(sum(np.max(np.abs(np.asarray(k.vals, dtype=float))) for k in l.source.inlinks)) if isinstance(l.source, Junc) else 0.0)
        if (v < (thr if isinstance(l.source, Junc) else 0.0)).any():
            i = int(np.nonzero(v < (thr if isinstance(l.source, Junc) else 0.0))[0][0])
            raise Violation(prop, "negative-flow/%s" % type(l.source).__name__, "link %s = %r at index %d" % (link_key(l), v[i], i))
    for pop, c in all_comps(res):
        if isinstance(c, (Src, Junc, Snk)):
            continue
        v = np.asarray(c.vals, dtype=float)
        outflow = sum((np.asarray(l.vals, dtype=float) for l in c.outlinks), np.zeros(len(v)))
        bad = np.nonzero(outflow > v * (1 + 1e-12) + 1e-9 * np.maximum(1.0, v) * 1e-3)[0]
        if bad.size:
            i = int(bad[0])
            raise Violation(prop, "overdraw/%s" % type(c).__name__, "%s/%s index %d: outflow %r exceeds size %r" % (pop.name, c.name, i, outflow[i], v[i]))
    return feats


def check_structure(spec, res, prop, what=("links", "residual", "timed")):
    """The built model has the structure the FRAMEWORK states (read from the ModelSpec, i.e. the inputs - never from atomica's own
    objects): the same links between the same compartments within each population, junctions with a '>' outflow are residual
    junctions (and only those), and exactly the compartments that a timed parameter flows out of keep elapsed time.  The flow rules
    are checked per link by the properties' oracles; this makes sure no link, residual marking or duration group was lost on the way
    from the framework to the model."""
    from collections import Counter

    Src, Snk, Junc, ResJ, Timed, TLink = kinds()
    if "comps" not in spec:
        return
    types = spec.get("pop_types") or [None]
    ctype = {c["name"]: c.get("type", types[0]) for c in spec["comps"]}
    ptype = {}
    for p in spec["pops"]:
        if isinstance(p, str):
            ptype[p] = types[0]
        else:
            ptype[p["name"]] = p.get("type", types[0])
    timed_pars = {p["name"] for p in spec["pars"] if p.get("timed")}
    exp_links = {}
    residual_j = set()
    timed_c = set()
    for a, b, w in spec["links"]:
        if w == ">":
            exp_links.setdefault(ctype[a], Counter())[(a, b, None)] += 1
            residual_j.add(a)
        else:
            for par in w:
                exp_links.setdefault(ctype[a], Counter())[(a, b, None if par in timed_pars else par)] += 1
                if par in timed_pars:
                    timed_c.add(a)
    for pop in res.model.pops:
        ty = ptype.get(pop.name, types[0])
        if "links" in what:
            got = Counter()
            for l in pop.links:
                if l.source.pop is pop and l.dest.pop is pop:
                    pn = l.parameter.name if l.parameter is not None else None
                    got[(l.source.name, l.dest.name, None if pn in timed_pars else pn)] += 1
            exp = exp_links.get(ty, Counter())
            if got != exp:
                missing = sorted((exp - got).elements(), key=repr)
                extra = sorted((got - exp).elements(), key=repr)
                raise Violation(prop, "structure/links", "population %s: the framework's transition matrix states links that the model lacks %r / the model has links the framework does not state %r" % (pop.name, missing[:6], extra[:6]))
        for c in pop.comps:
            if ctype.get(c.name) != ty:
                continue
            if "residual" in what and isinstance(c, Junc):
                if (c.name in residual_j) != isinstance(c, ResJ):
                    raise Violation(prop, "structure/residual-junction", "population %s junction %s: the framework %s a residual ('>') outflow but the model built it as %s" % (pop.name, c.name, "gives it" if c.name in residual_j else "does not give it", type(c).__name__))
            if "timed" in what and not isinstance(c, (Junc, Src, Snk)):
                if (c.name in timed_c) != isinstance(c, Timed):
                    raise Violation(prop, "structure/timed-compartment", "population %s compartment %s: the framework %s a timed outflow but the model built it as %s" % (pop.name, c.name, "gives it" if c.name in timed_c else "does not give it", type(c).__name__))
