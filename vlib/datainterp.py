"""Own implementation of the documented databook interpolation rules (Parameters.rst "Value precedence"):
exact at entered years, linear in between, constant outside the data range, or the constant assumption."""


def series_value(d, t, method=None):
    """d = {"a": x} and/or {"t": [...], "v": [...]} (a spec databook entry); an entry may carry its own interpolation method "m"
    ("previous" = stepped; the parameter set's documented per-parameter interpolation method), used when none is given"""
    method = method or d.get("m") or "linear"
    ts = list(d.get("t") or [])
    vs = list(d.get("v") or [])
    if not ts:
        return float(d["a"]) if d.get("a") is not None else float("nan")
    pairs = sorted(zip(ts, vs))
    ts = [p[0] for p in pairs]
    vs = [p[1] for p in pairs]
    if len(ts) == 1 or t <= ts[0]:
        return float(vs[0])
    if t >= ts[-1]:
        return float(vs[-1])
    for i in range(len(ts) - 1):
        t0, t1 = ts[i], ts[i + 1]
        if t0 <= t <= t1:
            if method == "previous":
                return float(vs[i + 1]) if t == t1 else float(vs[i])
            if t == t1:
                return float(vs[i + 1])
            return float(vs[i] + (vs[i + 1] - vs[i]) * (t - t0) / (t1 - t0))
    raise AssertionError("unreachable")
