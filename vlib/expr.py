"""Independent evaluator for parameter-function strings (DESIGN.md 1.3).

Parses the string with Python's own `ast` (after the documented ':' -> '___' mangling of flow selectors), accepts only
numbers, names, + - * / ** unary minus, comparisons and calls to a fixed set of functions with positional arguments, and
evaluates with plain float arithmetic.  Division follows the documented rule "x/y is 0 where x is 0".  Nothing from
atomica.function_parser is used.
"""
import ast
import math


class Unsupported(Exception):
    pass


class Ambiguous(Exception):
    """the value hinges on a discontinuity within rounding distance (comparison of nearly equal operands, floor at an integer):
    numpy's and Python's pow/exp may differ in the last bit, so neither outcome can be called wrong"""


def _div(a, b):
    if a == 0:
        return 0.0
    if b == 0:
        # IEEE: the sign of the infinity is the product of the signs, and a zero denominator may be negative (False * negative = -0.0)
        return math.copysign(math.inf, math.copysign(1.0, a) * math.copysign(1.0, b)) if not math.isnan(a) else math.nan
    return a / b


def _sqrt(x):
    return math.sqrt(x) if x >= 0 else math.nan


def _ln(x):
    if x > 0:
        return math.log(x)
    return -math.inf if x == 0 else math.nan


def _exp(x):
    try:
        return math.exp(x)
    except OverflowError:
        return math.inf


FUNCS = {
    "max": lambda *a: max(a) if not any(isinstance(x, float) and math.isnan(x) for x in a) else math.nan,
    "min": lambda *a: min(a) if not any(isinstance(x, float) and math.isnan(x) for x in a) else math.nan,
    "exp": _exp,
    "floor": lambda x: float(math.floor(x)) if math.isfinite(x) else x,
    "sqrt": _sqrt,
    "ln": _ln,
    "sin": math.sin,
    "cos": math.cos,
    "sdiv": _div,
}
CONSTS = {"pi": math.pi}
BIN = {
    ast.Add: lambda a, b: a + b,
    ast.Sub: lambda a, b: a - b,
    ast.Mult: lambda a, b: a * b,
    ast.Div: _div,
}
CMP = {ast.Lt: lambda a, b: a < b, ast.LtE: lambda a, b: a <= b, ast.Gt: lambda a, b: a > b, ast.GtE: lambda a, b: a >= b, ast.Eq: lambda a, b: a == b, ast.NotEq: lambda a, b: a != b}


def _pow(a, b):
    try:
        r = a**b
    except ZeroDivisionError:
        return math.inf
    except OverflowError:
        return math.inf
    if isinstance(r, complex):
        return math.nan
    return r


def parse(s):
    return ast.parse(s.replace(":", "___").strip(), mode="eval")


def names(s):
    """free names of the expression (function names and constants excluded), with ':' restored"""
    tree = parse(s)
    out = []
    for node in ast.walk(tree):
        if isinstance(node, ast.Name) and node.id not in FUNCS and node.id not in CONSTS and not node.id.endswith("_POP_AVG") and not node.id.endswith("_POP_SUM"):
            n = node.id.replace("___", ":")
            if n not in out:
                out.append(n)
    return out


def evaluate(s, env, probe=True):
    """env: name (with ':' for flows) -> float.

    probe=True: the value is also computed with every model quantity and every transcendental intermediate result (exp, ln, sin,
    cos, non-integer powers) nudged by +-1e-11 relative; if that changes a discrete decision the expression sits on a
    discontinuity (comparison, floor) within rounding distance - numpy and libm differ in the last bit there - and Ambiguous is raised.
    Only DISCRETE decisions are compared (never the value), so a smooth but ill-conditioned expression is not flagged."""
    v0, d0 = _evaluate(s, env, 0.0)
    if probe and d0:
        for eps in (1e-11, -1e-11):
            v1, d1 = _evaluate(s, env, eps)
            if d1 != d0:
                raise Ambiguous("a discrete decision (comparison, floor, zero test of a division) changes when the inputs are nudged by %g relative: %r -> %r" % (eps, d0, d1))
    return v0


def _evaluate(s, env, eps):
    """returns (value, list of the discrete decisions taken on the way: comparison outcomes, floor values, zero tests of divisions)"""
    tree = parse(s)
    count = [0]
    decisions = []

    def nudge(x):
        if eps == 0.0 or not math.isfinite(x):
            return x
        count[0] += 1
        return x * (1.0 + (eps if count[0] % 2 else -eps))

    def ev(n):
        if isinstance(n, ast.Expression):
            return ev(n.body)
        if isinstance(n, ast.Constant):
            if isinstance(n.value, bool) or not isinstance(n.value, (int, float)):
                raise Unsupported("constant %r" % (n.value,))
            return float(n.value)
        if isinstance(n, ast.Name):
            if n.id in CONSTS:
                return CONSTS[n.id]
            key = n.id.replace("___", ":")
            if key not in env:
                raise Unsupported("unknown name %s" % key)
            return float(env[key]) if key in ("t", "dt") else nudge(float(env[key]))
        if isinstance(n, ast.UnaryOp):
            if isinstance(n.op, ast.USub):
                return -ev(n.operand)
            if isinstance(n.op, ast.UAdd):
                return +ev(n.operand)
            raise Unsupported("unary op")
        if isinstance(n, ast.BinOp):
            a, b = ev(n.left), ev(n.right)
            if isinstance(n.op, ast.Pow):
                return _pow(a, b) if float(b).is_integer() else nudge(_pow(a, b))
            if type(n.op) in BIN:
                if isinstance(n.op, ast.Div):
                    decisions.append((a == 0, b == 0))
                return BIN[type(n.op)](a, b)
            raise Unsupported("binary op %s" % type(n.op).__name__)
        if isinstance(n, ast.Compare):
            if len(n.ops) != 1:
                raise Unsupported("chained comparison")
            a, b = ev(n.left), ev(n.comparators[0])
            decisions.append(bool(CMP[type(n.ops[0])](a, b)))
            return 1.0 if CMP[type(n.ops[0])](a, b) else 0.0
        if isinstance(n, ast.Call):
            if not isinstance(n.func, ast.Name) or n.func.id not in FUNCS or n.keywords:
                raise Unsupported("call")
            args = [ev(a) for a in n.args]
            r = float(FUNCS[n.func.id](*args))
            if n.func.id == "floor":
                decisions.append(r)
            return nudge(r) if n.func.id in ("exp", "ln", "sin", "cos") else r
        raise Unsupported(type(n).__name__)

    return ev(tree), decisions
