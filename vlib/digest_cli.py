"""python -m vlib.digest_cli <case.json> : run the ModelSpec in this (fresh) process and print the result digest.
Used by C08 to compare runs across processes started with different PYTHONHASHSEED values."""
import sys, json, os, warnings

if __name__ == "__main__":
    warnings.filterwarnings("ignore")
    sys.path.insert(0, os.path.dirname(os.path.dirname(os.path.abspath(__file__))))
    from vlib import runner

    runner.setup_paths()
    from vlib import simcase, canon

    spec = json.load(open(sys.argv[1]))
    b, res = simcase.run_spec(spec, check_domain=False)
    print("DIGEST " + canon.result_digest(res))
