"""python -m vlib.digest_cli <case.json> : run the ModelSpec in this (fresh) process and print the result digest.
Used by C08 to compare runs across processes started with different PYTHONHASHSEED values."""
import sys, json, os, warnings

if __name__ == "__main__":
    warnings.filterwarnings("ignore")
    sys.path.insert(0, os.path.dirname(os.path.dirname(os.path.abspath(__file__))))
    from vlib import runner

    runner.setup_paths()
    from vlib import simcase, canon

    d = json.load(open(sys.argv[1]))
    if "spec" in d and "comps" not in d:
        from props import c08

        simcase.quiet()
        b = c08.build_project(d["spec"], d.get("scen"), d.get("partial"))
        res, _ = simcase.two_step(b["P"], b["ps"], b["progset"], b["instructions"])
    else:
        b, res = simcase.run_spec(d, check_domain=False)
    print("DIGEST " + canon.result_digest(res))
