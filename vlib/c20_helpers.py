"""Helpers for C20: vocabulary of requestable quantities, own reference values, result digest.

Nothing in here calls PlotData / cascade functions: the reference values are sums over the arrays of the model objects
(Result.get_variable / Population.links) and over the databook entries (spec JSON or ProjectData time series).
"""
import re
import hashlib
import numpy as np

AVERAGED_UNITS = ("", "fraction", "proportion", "probability")  # documented: dimensionless quantities are averaged by default
UNDOCUMENTED_DEFAULT_UNITS = ("rate", "duration")  # the docs do not say which default these get: only consistency is asserted
_TOKEN = re.compile(r":?[A-Za-z_]\w*(?::\w*){0,2}")


# --------------------------------------------------------------------------- vocabulary


def vocab_from_spec(spec):
    """what a request may name, read off the ModelSpec JSON (no simulation needed)"""
    kinds = {c["name"]: c["kind"] for c in spec["comps"]}
    groups = {}

    def add(cls, name, weightable):
        groups.setdefault(cls, []).append([name, bool(weightable)])

    for c in spec["comps"]:
        if c["kind"] in ("ord", "junc"):
            add("N", c["name"], True)
    for x in spec.get("characs", []):
        add("frac" if x.get("den") else "N", x["name"], True)
    par_sources = {}
    flows = {}

    def flow(sel, src):
        flows.setdefault(sel, []).append(src)

    timed = {p["name"] for p in spec["pars"] if p.get("timed")}
    for a, b, what in spec["links"]:
        flow("%s:%s" % (a, b), a)
        flow("%s:" % a, a)
        flow(":%s" % b, a)
        if what != ">":
            for k in what:
                par_sources.setdefault(k, []).append(a)
                flow("%s:flow" % k, a)
                if k not in timed:
                    flow("%s:%s:%s" % (a, b, k), a)
                    flow("::%s" % k, a)
    has_transfer = bool(spec["data"].get("tr"))
    for sel, srcs in sorted(flows.items()):
        # with transfers, 'a:' / ':b' / 'a:a' also match the transfer links: still ordinary sources
        add("F", sel, all(kinds[s] == "ord" for s in srcs))
    tr_sources = {k.split(">")[0] for tr in spec["data"].get("tr", []) for k in tr["e"]}
    if has_transfer and set(spec["pops"]) <= tr_sources:  # 'c:c' matches the transfer links, which exist only in populations people leave
        for c in spec["comps"]:
            if c["kind"] == "ord":
                add("F", "%s:%s" % (c["name"], c["name"]), True)
    for p in spec["pars"]:
        cls = "par:%s" % (p.get("fmt") or "none")
        srcs = par_sources.get(p["name"], [])
        w = bool(srcs) and not p.get("timed") and all(kinds[s] == "ord" for s in srcs) and p.get("fmt") in ("rate", "probability", "number", "duration")
        add(cls, p["name"], w)
    in_cascade = {n for c in spec.get("cascades", []) for st_ in c["stages"] for n in st_[1]}
    # the nested family is what the framework's explicit cascade is made of (other characteristics, e.g. the one that initialises a junction indirectly, are not part of it)
    nested = sorted([x for x in spec.get("characs", []) if not x.get("den") and (x["name"] in in_cascade or not in_cascade)], key=lambda x: -len(x["inc"]))  # largest first (sheet order is free)
    years = sorted({t for bypop in spec["data"]["q"].values() for d in bypop.values() for t in d.get("t", [])} | set(spec["data"]["years"]))
    return {
        "pops": list(spec["pops"]),
        "groups": groups,
        "start": spec["settings"]["start"],
        "end": spec["settings"]["end"],
        "dt": spec["settings"]["dt"],
        "fw_cascades": [{"name": c["name"], "stages": [[s[0], list(s[1])] for s in c["stages"]]} for c in spec.get("cascades", [])],
        "nested": [[x["name"], list(x["inc"])] for x in nested],
        "body": [c["name"] for c in spec["comps"] if c["kind"] in ("ord", "junc")],
        "data_names": [c["name"] for c in spec["comps"] if c.get("db")],
        "nodata_names": [c["name"] for c in spec["comps"] if c["kind"] in ("ord", "junc") and not c.get("db")] + [x["name"] for x in nested],
        "data_years": years,
        "plots": False,
    }


def vocab_from_result(P, res):
    """the same vocabulary for a library project (read off the framework / model objects)"""
    from atomica.model import SourceCompartment, SinkCompartment, JunctionCompartment

    m = res.model
    p0 = m.pops[0]
    pops = [p for p in m.pops if p.type == p0.type]

    def everywhere(name):
        return all(name in p for p in pops)

    groups = {}

    def add(cls, name, weightable):
        groups.setdefault(cls, []).append([name, bool(weightable)])

    def plain(c):
        return not isinstance(c, (SourceCompartment, SinkCompartment, JunctionCompartment))

    for c in p0.comps:
        if not isinstance(c, (SourceCompartment, SinkCompartment)) and everywhere(c.name):
            add("N", c.name, True)
    for x in p0.characs:
        if everywhere(x.name):
            add("frac" if x.units != "Number of people" else "N", x.name, True)
    for par in p0.pars:
        if par.vals is None or not everywhere(par.name) or any(p.get_variable(par.name)[0].vals is None for p in pops):
            continue
        u = par.units if isinstance(par.units, str) and par.units else "none"
        w = bool(par.links) and all(plain(l.source) for p in pops for l in p.get_variable(par.name)[0].links) and all(p.get_variable(par.name)[0].links for p in pops)
        add("par:%s" % u.lower(), par.name, w)
    seen = {}
    for l in p0.links:
        if l.source.pop is not l.dest.pop:
            continue
        for sel in ("%s:%s" % (l.source.name, l.dest.name), l.name if l.name.endswith(":flow") else None):
            if sel:
                seen.setdefault(sel, []).append(plain(l.source))
    for sel, ws in sorted(seen.items()):
        ok = True
        for p in pops:
            try:
                ok = ok and len(p.get_variable(sel)) > 0
            except Exception:
                ok = False
        if ok:
            add("F", sel, all(ws))
    F = P.framework
    casc = []
    for name, df in F.cascades.items():
        casc.append({"name": name, "stages": [[str(r.iloc[0]), [x.strip() for x in str(r.iloc[1]).split(",")]] for _, r in df.iterrows()]})
    D = P.data
    const = sorted({c for cs in casc for s in cs["stages"] for c in s[1]})
    data_names = [c for c in const if c in D.tdve and any(ts.has_time_data for ts in D.tdve[c].ts.values())]
    years = sorted({float(t) for c in data_names for ts in D.tdve[c].ts.values() for t in ts.t} | {float(t) for t in D.tvec})
    return {
        "pops": [p.name for p in pops],
        "groups": groups,
        "start": float(m.t[0]),
        "end": float(m.t[-1]),
        "dt": float(m.dt),
        "fw_cascades": casc,
        "nested": [],
        "body": [],
        "data_names": data_names,
        "nodata_names": [c for c in const if c not in data_names],
        "data_years": years,
        "plots": "plots" in F.sheets and not F.sheets["plots"][0].empty,
    }


# --------------------------------------------------------------------------- own reference values


class Ref:
    """values of requestable quantities computed from the model objects of a Result"""

    def __init__(self, res):
        self.res = res
        self.m = res.model
        self.t = np.array(res.model.t, dtype=float)
        self.dt = float(res.model.dt)
        self.pops = {p.name: p for p in self.m.pops}
        self.all_links = [l for p in self.m.pops for l in p.links]
        self._cache = {}

    # -- links matched by a flow selector, by the documented meaning of the selector
    def links(self, pop, sel):
        p = self.pops[pop]
        if sel.endswith(":flow"):
            return [l for l in self.all_links if l.source.pop is p and l.name == sel]
        tok = sel.split(":")
        if len(tok) == 2:
            tok.append("")
        src, dst, par = tok
        out = []
        for l in self.all_links:
            if src:
                if not (l.source.pop is p and l.source.name == src):
                    continue
                if dst and l.dest.name != dst:
                    continue
            elif dst:
                if not (l.dest.pop is p and l.dest.name == dst):
                    continue
            else:
                if l.source.pop is not p:
                    continue
            if par and not (l.parameter is not None and l.parameter.name == par):
                continue
            out.append(l)
        return out

    def var(self, pop, name):
        return self.res.get_variable(name, pop)[0]

    def units(self, pop, name):
        if ":" in name:
            return "Number of people"
        return self.var(pop, name).units

    def value(self, pop, name):
        """annualised flow for selectors, recorded values for everything else (a fresh array)"""
        key = ("v", pop, name)
        if key not in self._cache:
            if ":" in name:
                ls = self.links(pop, name)
                if not ls:
                    raise KeyError("selector %s matches no link in %s" % (name, pop))
                v = np.zeros(self.t.shape)
                for l in ls:
                    v = v + np.asarray(l.vals, dtype=float)
                v = v / self.dt
            else:
                from atomica.model import Characteristic

                x = self.var(pop, name)
                if isinstance(x, Characteristic) and x.denominator is None:
                    # a characteristic without denominator IS the sum of its member compartments: summed here, not read back
                    v = np.zeros(self.t.shape)
                    for comp in x.get_included_comps():  # nested characteristics flattened to compartments
                        v = v + np.asarray(comp.vals, dtype=float)
                else:
                    if x.vals is None:
                        raise KeyError("%s was not recorded" % name)
                    v = np.array(x.vals, dtype=float)
            self._cache[key] = v
        return self._cache[key].copy()

    def weight(self, pop, name):
        """documented weight of an output: compartment size / characteristic value / size of the source compartments of the links"""
        if ":" in name:
            ls = self.links(pop, name)
        else:
            from atomica.model import Parameter

            x = self.var(pop, name)
            if isinstance(x, Parameter):
                ls = list(x.links)
                if not ls:
                    raise KeyError("no weight for non-transition parameter %s" % name)
            else:
                return np.array(x.vals, dtype=float)
        w = np.zeros(self.t.shape)
        for l in ls:
            w = w + np.asarray(l.source.vals, dtype=float)
        return w

    def popsize(self, pop):
        """number of people in the population: every compartment except births and deaths"""
        from atomica.model import SourceCompartment, SinkCompartment

        tot = np.zeros(self.t.shape)
        for c in self.pops[pop].comps:
            if not isinstance(c, (SourceCompartment, SinkCompartment)):
                tot = tot + np.asarray(c.vals, dtype=float)
        return tot

    def formula(self, pop, expr):
        toks = []

        def sub(mo):
            tok = mo.group(0)
            if tok in ("t", "dt"):
                return tok
            toks.append(tok)
            return "_v[%d]" % (len(toks) - 1)

        code = _TOKEN.sub(sub, expr)
        vals = [self.value(pop, tk) for tk in toks]
        with np.errstate(all="ignore"):
            out = eval(code, {"__builtins__": {}}, {"_v": vals, "t": self.t, "dt": self.dt})  # noqa: S307 - arithmetic over our own generated templates
        return np.broadcast_to(np.asarray(out, dtype=float), self.t.shape).copy()


def combine(parts, method, weights=None):
    """own aggregate of a list of arrays; returns (values, mask of points where the aggregate is defined)"""
    parts = [np.asarray(p, dtype=float) for p in parts]
    ok = np.ones(parts[0].shape, dtype=bool)
    with np.errstate(all="ignore"):
        if method == "sum":
            tot = 0
            for p in parts:
                tot = tot + p
            return tot, ok
        if method == "average":
            tot = 0
            for p in parts:
                tot = tot + p
            return tot / len(parts), ok
        if method == "weighted":
            num = 0
            den = 0
            for p, w in zip(parts, weights):
                num = num + p * w
                den = den + w
            ok = np.isfinite(den) & (den > 0)
            for p, w in zip(parts, weights):
                # products that underflow (denormal or flushed to 0) lose digits: value x weight / weight is then not value
                ok = ok & ~((p != 0) & (w != 0) & (np.abs(p * w) < 1e-280))
            return np.where(ok, num / np.where(ok, den, 1.0), np.nan), ok
    raise ValueError(method)


def default_method(units):
    """documented default aggregation of a quantity with these units: 'sum', 'average' or None (not documented)"""
    if isinstance(units, str):
        if units in AVERAGED_UNITS:
            return "average"
        if units in UNDOCUMENTED_DEFAULT_UNITS:
            return None
    return "sum"


def mismatch(got, exp, scale, rtol, mask=None):
    """index of the first point where got differs from exp by more than rtol*scale (NaN == NaN, inf == inf), or None"""
    got = np.asarray(got, dtype=float)
    exp = np.asarray(exp, dtype=float)
    if got.shape != exp.shape:
        return "shape %s vs %s" % (got.shape, exp.shape)
    scale = np.broadcast_to(np.asarray(scale, dtype=float), exp.shape)
    with np.errstate(all="ignore"):
        # (subnormal numbers carry only a few significant bits: differences below 1e-300 are rounding of the subnormal range, not values)
        same = (got == exp) | (np.isnan(got) & np.isnan(exp)) | (np.abs(got - exp) <= rtol * np.where(np.isfinite(scale), scale, 0.0) + 1e-300)
    if mask is not None:
        same = same | ~mask
    if np.all(same):
        return None
    return int(np.argmin(same))


# --------------------------------------------------------------------------- databook entries


def spec_entry(spec, name, pop, year):
    """databook value of (quantity, population) in exactly this year, from the spec JSON; NaN if there is none"""
    d = spec["data"]["q"].get(name, {}).get(pop)
    if d is None:
        return np.nan
    val = np.nan
    for t, v in zip(d.get("t", []), d.get("v", [])):
        if float(t) == float(year):
            val = float(v)
    return val


def data_entry(D, name, pop, year):
    """the same from a ProjectData (library projects); an 'all' row stands for every population (ProjectData.get_ts)"""
    if name not in D.tdve:
        return np.nan
    tss = D.tdve[name].ts
    ts = tss[pop] if pop in tss else tss["all"] if "all" in tss else tss["All"] if "All" in tss else None
    if ts is None:
        return np.nan
    val = np.nan
    for t, v in zip(ts.t, ts.vals):
        if float(t) == float(year):
            val = float(v)
    return val


# --------------------------------------------------------------------------- digest


def _h(a):
    if a is None:
        return "None"
    a = np.ascontiguousarray(np.asarray(a, dtype=float))
    return "%s:%s" % (a.shape, hashlib.sha1(a.tobytes()).hexdigest())


def digest(res):
    """{key: hash} over every array the Result holds (stocks, elapsed-time bins, characteristics, parameters, flows, time grid, interactions)"""
    m = res.model
    out = {("t",): _h(m.t), ("dt",): repr(m.dt), ("name",): res.name, ("pop_names",): repr(list(res.pop_names)), ("npops",): len(m.pops)}
    for pop in m.pops:
        out[("pop", pop.name)] = "%s|%s|%d|%d|%d|%d" % (pop.label, pop.type, len(pop.comps), len(pop.characs), len(pop.pars), len(pop.links))
        for c in pop.comps:
            out[("comp", pop.name, c.name)] = _h(c.vals)
            if getattr(c, "_vals", None) is not None and np.ndim(c._vals) == 2:
                out[("bins", pop.name, c.name)] = _h(c._vals)
        for x in pop.characs:
            out[("charac", pop.name, x.name)] = _h(x.vals)
        for p in pop.pars:
            out[("par", pop.name, p.name)] = _h(p.vals)
            out[("parmeta", pop.name, p.name)] = "%r|%r|%r" % (p.units, p.timescale, p.scale_factor)
        n = {}
        for l in pop.links:
            k = ("link", pop.name, l.source.name, l.dest.pop.name, l.dest.name, l.parameter.name if l.parameter is not None else "anon")
            n[k] = n.get(k, 0) + 1
            out[k + (n[k],)] = _h(l.vals)
            if getattr(l, "_vals", None) is not None and np.ndim(l._vals) == 2:
                out[k + (n[k], "bins")] = _h(l._vals)
    for k, v in (getattr(m, "interactions", None) or {}).items():
        out[("interaction", k)] = _h(v)
    cache = getattr(m, "_program_cache", None) or {}
    for part in ("capacities", "prop_coverage"):
        for k, v in (cache.get(part) or {}).items():
            out[("program_cache", part, k)] = _h(v)
    return out


def digest_diff(a, b):
    keys = sorted(set(a) | set(b), key=repr)
    return [k for k in keys if a.get(k) != b.get(k)]
