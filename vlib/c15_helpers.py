"""Helpers for C15: library-model environment, fault/recording tap around Model.process, own objective arithmetic.

Nothing in here calls Measurable.get_objective_val / calibration._calculate_objective: the objective values are
recomputed from the integrated model's arrays (stocks, parameters, link flows, spending) with the documented rules

    optimisation term  = sum over the requested populations and over the simulation times t with t == year
                         (single year) or low <= t < high (period) of the quantity; link flows are annualised (flow/dt);
                         a program name means the spending on that program (stepwise 'previous' interpolation of the
                         instructions' allocation, else of the program book);  Minimize weight +1, Maximize weight -1,
                         AtMost / AtLeast contribute inf when the total is above / below the threshold and 0 otherwise
    calibration term   = weight * metric(data, model interpolated linearly at the data times), metric 'fractional'
                         = sum |fit-obs|/max(obs,1), 'meansquare' = sqrt(mean((fit-obs)^2)), 'wape' = sum |fit-obs| / (mean(obs)+1e-6)
"""
import math
import numpy as np

MODELS = ("tb_simple", "udt", "hypertension")  # library projects with a program book
TRANSFER_MODEL = "udt_ageing"  # udt framework, two populations and an ageing transfer (built programmatically, no programs): calibration only
CAL_MODELS = MODELS + (TRANSFER_MODEL,)
_CACHE = {}


class InjectedFault(Exception):
    """raised by the tap instead of running the k-th simulation"""


def at_mod():
    if "at" not in _CACHE:
        import atomica as at
        import logging

        at.logger.setLevel(logging.CRITICAL)
        _CACHE["at"] = at
    return _CACHE["at"]


def pristine(model):
    """cached, never modified project of a library model"""
    key = ("P", model)
    if key not in _CACHE:
        at = at_mod()
        _CACHE[key] = _ageing_project(at) if model == TRANSFER_MODEL else at.demo(model, do_run=False)
    return _CACHE[key]


def _ageing_project(at):
    """udt cascade in two populations with a transfer young -> old (ProjectData.new recipe of DESIGN appendix B)"""
    F = at.ProjectFramework(at.LIBRARY_PATH / "udt_framework.xlsx")
    D = at.ProjectData.new(F, np.arange(2016, 2021), pops={"young": "Young", "old": "Old"}, transfers={"age": "Ageing"})
    base = {"all_people": 6000.0, "all_dx": 3600.0, "all_tx": 1800.0, "num_diag": 1000.0, "num_initiate": 490.0, "num_loss": 240.0}
    for pop, scale in (("young", 1.0), ("old", 0.5)):
        for q, v in base.items():
            D.tdve[q].ts[pop].insert(2016, v * scale)
    D.transfers[0].ts[("young", "old")] = at.TimeSeries(t=[2016], vals=[0.05], units="probability")
    return at.Project(framework=F, databook=D, do_run=False)


def fresh(model, settings):
    """deep copy of the library project with the case's time settings -> (P, parset, progset)"""
    import sciris as sc

    P = sc.dcp(pristine(model))
    P.settings.update_time_vector(start=float(settings["start"]), end=float(settings["end"]), dt=float(settings["dt"]))
    if settings.get("shift"):
        # the start year is moved on its own afterwards (Project.update_settings(sim_start=...)): the end year is then no longer start + k*dt
        P.settings.update_time_vector(start=float(settings["start"]) + float(settings["shift"]))
    return P, P.parsets[0], (P.progsets[0] if len(P.progsets) else None)


def grid_size(start, end, dt):
    """number of points of ProjectSettings.tvec for (start, end, dt) - pure python, used by the generator"""
    n = (end - start) / dt
    if abs(n - round(n)) < 1e-9 * max(1.0, abs(n)):
        n = round(n)
    else:
        n = math.ceil(n)
    return int(n) + 1


def catalogue():
    """names and default numbers of the library models (deterministic; computed once per process)"""
    if "cat" in _CACHE:
        return _CACHE["cat"]
    at = at_mod()
    cat = {}
    for name in CAL_MODELS:
        P = pristine(name)
        pg, ps = (P.progsets[0] if len(P.progsets) else None), P.parsets[0]
        F = P.framework
        m = at.Model(P.settings, F, ps, pg, at.ProgramInstructions(start_year=2018.0) if pg is not None else None)
        pop = m.pops[0]
        links = sorted(set((l.source.name, l.dest.name) for l in pop.links))
        data = []
        for q, tdve in P.data.tdve.items():
            for pn, ts in tdve.ts.items():
                if ts.has_time_data and q in ps.pars and pn in P.data.pops:
                    data.append((q, pn, float(ts.t[0]), float(ts.vals[0])))
        cat[name] = {
            "start": float(P.settings.sim_start),
            "data_end": float(P.data.tvec[-1]),
            "pops": list(P.data.pops.keys()),
            "comps": list(F.comps.index),
            "characs": list(F.characs.index),
            "pars": list(F.pars.index),
            "flows": [k for k in pop.link_lookup.keys()],
            "links": ["%s:%s" % l for l in links] + [":" + d for d in sorted(set(l[1] for l in links))] + [s + ":" for s in sorted(set(l[0] for l in links))],
            "progs": [(p.name, float(p.spend_data.vals[0])) for p in pg.programs.values()] if pg is not None else [],
            "ypars": list(ps.pars.keys()),
            "total_vars": _total_vars(P, pop),
            "transfers": [("%s_from_%s" % (code, src), dst) for code, by_src in ps.transfers.items() for src, par in by_src.items() for dst in par.y_factor.keys()],
            "data": data,
        }
    _CACHE["cat"] = cat
    return cat


AVERAGED_UNITS = ("", "fraction", "proportion", "probability", "rate")  # PlotData: population aggregation defaults to the average for these, to the sum otherwise


def agg_kind(units):
    """'average' | 'sum' | None (not generated: e.g. durations, where the calibrate docstring says average and PlotData sums)"""
    u = (units or "").strip().lower()
    if u in AVERAGED_UNITS:
        return "average"
    if u in ("number", "number of people"):
        return "sum"
    return None


def _total_vars(P, pop):
    """[(quantity, 'sum'|'average')] of the databook quantities that have a row for every population (a 'Total' row can be added to their table)"""
    out = []
    if len(P.data.pops) < 2:
        return out
    for q, tdve in P.data.tdve.items():
        if not all(pn in tdve.ts for pn in P.data.pops):
            continue
        series = [v for v in pop.comps + pop.characs + pop.pars if v.name == q]
        if series and agg_kind(series[0].units):
            out.append((q, agg_kind(series[0].units)))
    return out


def own_total_series(model, name):
    """documented population aggregate of a quantity: sum over the populations for numbers, (unweighted) population average for everything else"""
    arrs, kind = [], None
    for pop in model.pops:
        for v in pop.comps + pop.characs + pop.pars:
            if v.name == name:
                arrs.append(np.asarray(v.vals, dtype=float))
                kind = agg_kind(v.units)
    if not arrs or kind is None:
        raise KeyError(name)
    tot = np.sum(arrs, axis=0)
    return tot / len(arrs) if kind == "average" else tot


# --------------------------------------------------------------------------- tap around Model.process


class Tap:
    """counts calls of atomica.model.Model.process, optionally raises InjectedFault instead of the fail_at-th call and
    hands every integrated model to `record`.  The original method is restored on exit."""

    def __init__(self, fail_at=None, record=None):
        self.fail_at = fail_at
        self.record = record
        self.n = 0
        self.fired = False
        self.values = []

    def __enter__(self):
        import atomica.model as am

        self._cls = am.Model
        self._orig = am.Model.__dict__["process"]
        tap = self
        orig = self._orig

        def process(model, *a, **k):
            tap.n += 1
            if tap.fail_at is not None and tap.n == tap.fail_at:
                tap.fired = True
                raise InjectedFault("injected at simulation %d" % tap.n)
            out = orig(model, *a, **k)
            if tap.record is not None:
                tap.values.append(tap.record(model))
            return out

        am.Model.process = process
        return self

    def __exit__(self, *exc):
        self._cls.process = self._orig
        return False


def in_chain(e, cls):
    seen = 0
    while e is not None and seen < 10:
        if isinstance(e, cls):
            return True
        e = e.__cause__ or e.__context__
        seen += 1
    return False


# --------------------------------------------------------------------------- own arithmetic


def step_value(t_pts, v_pts, t):
    """stepwise ('previous') interpolation with constant extrapolation"""
    order = sorted(range(len(t_pts)), key=lambda i: t_pts[i])
    ts = [float(t_pts[i]) for i in order]
    vs = [float(v_pts[i]) for i in order]
    out = vs[0]
    for a, b in zip(ts, vs):
        if a <= t:
            out = b
    return out


def own_spend(progset, instructions, prog, t):
    """spending on prog at time t: allocation overwrite if there is one, else the program book (both stepwise)"""
    if instructions is not None and prog in instructions.alloc:
        ts = instructions.alloc[prog]
    else:
        ts = progset.programs[prog].spend_data
    tp, vp = list(ts.t), list(ts.vals)
    if not tp:
        return float(ts.assumption)
    return step_value(tp, vp, float(t))


def time_mask(tvec, tspec):
    """tspec: {'idx': k} single simulation time | {'range': [low, high]} meaning low <= t < high"""
    tvec = np.asarray(tvec, dtype=float)
    if "idx" in tspec:
        return tvec == tvec[int(tspec["idx"])]
    lo, hi = tspec["range"]
    lo = -math.inf if lo == "-inf" else float(lo)
    hi = math.inf if hi == "inf" else float(hi)
    return (tvec >= lo) & (tvec < hi)


def tspec_arg(tvec, tspec):
    """the `t` argument for a Measurable"""
    if "idx" in tspec:
        return float(np.asarray(tvec)[int(tspec["idx"])])
    lo, hi = tspec["range"]
    return [float(lo), math.inf if hi == "inf" else float(hi)]


def _pop_series(pop, name, dt):
    """list of arrays (already annualised for links) of quantity `name` in population object `pop`; None if not defined there"""
    for group in (pop.comps, pop.characs, pop.pars):
        for v in group:
            if v.name == name:
                return [np.asarray(v.vals, dtype=float)]
    if name.endswith(":flow"):
        par = name[: -len(":flow")]
        out = [np.asarray(l.vals, dtype=float) / dt for l in pop.links if l.parameter is not None and l.parameter.name == par]
        return out or None
    if ":" in name:
        src, dst = name.split(":")[:2]
        comps = set(c.name for c in pop.comps)
        if (src and src not in comps) or (dst and dst not in comps):
            return None
        return [np.asarray(l.vals, dtype=float) / dt for l in pop.links if (not src or l.source.name == src) and (not dst or l.dest.name == dst)]
    return None


def own_quantity(model, name, tspec, pops):
    """documented total of one quantity (no weight, no threshold)"""
    mask = time_mask(model.t, tspec)
    if name in model.progset.programs:
        return float(np.sum(np.array([own_spend(model.progset, model.program_instructions, name, t) for t in np.asarray(model.t)[mask]], dtype=float)))
    total = 0.0
    found = False
    for pop in model.pops:
        if pops and pop.name not in pops:
            continue
        series = _pop_series(pop, name, model.dt)
        if series is None:
            continue
        found = True
        for arr in series:
            total += float(np.sum(arr[mask]))
    if not found:
        raise KeyError(name)
    return total


HARD = ("atmost", "atleast", "incby", "decby")


def target_state(m, q):
    """(violated, borderline) of a hard target spec for the quantity value q.
    atmost / atleast: q against m['threshold'].  decby / incby: q against the value m['base'] of the same quantity under the caller's
    original instructions: a decrease by the fraction d is met when q <= base*(1-d) (abs: q <= base-d), an increase by i when
    q >= base*(1+i) (abs: q >= base+i); quantities are non-negative, so relative to a baseline of exactly 0 a decrease target is met
    only by q == 0 and an increase target by every q.  borderline = the comparison can round either way (own product vs the code's quotient)."""
    c = m["cls"]
    if c in ("atmost", "atleast"):
        need, exact = m["threshold"], True
        violated = q > need if c == "atmost" else q < need
    else:
        base, a, frac = m["base"], float(m["amount"]), m["target_type"] == "frac"
        sign = 1.0 if c == "incby" else -1.0
        if frac and base == 0:
            return ((q > 0) if c == "decby" else False), False
        need = base * (1.0 + sign * a) if frac else base + sign * a
        exact = (not frac) or a == 0
        violated = q < need if c == "incby" else q > need
    near = abs(q - need) <= 1e-12 * max(1.0, abs(need))
    return bool(violated), bool(near and (q != need or not exact))


def own_term(model, m, value=None):
    """objective contribution of one measurable spec m = {cls, name, t, pops, threshold | base+amount+target_type}"""
    v = own_quantity(model, m["name"], m["t"], m.get("pops")) if value is None else value
    c = m["cls"]
    if c == "min":
        return v
    if c == "max":
        return -v
    if c in HARD:
        return math.inf if target_state(m, v)[0] else 0.0
    raise ValueError(c)


def any_borderline(model, meas):
    return any(m["cls"] in HARD and target_state(m, own_quantity(model, m["name"], m["t"], m.get("pops")))[1] for m in meas)


def own_objective(model, meas):
    tot = 0.0
    for m in meas:
        tot += own_term(model, m)
    return tot


def make_measurable(at, m, tvec):
    t = tspec_arg(tvec, m["t"])
    pops = list(m["pops"]) if m.get("pops") else None
    c = m["cls"]
    if c == "min":
        return at.MinimizeMeasurable(m["name"], t, pop_names=pops)
    if c == "max":
        return at.MaximizeMeasurable(m["name"], t, pop_names=pops)
    if c == "atmost":
        return at.AtMostMeasurable(m["name"], t, m["threshold"], pop_names=pops)
    if c == "atleast":
        return at.AtLeastMeasurable(m["name"], t, m["threshold"], pop_names=pops)
    if c == "incby":
        return at.IncreaseByMeasurable(m["name"], t, m["amount"], pop_names=pops, target_type=m["target_type"])
    if c == "decby":
        return at.DecreaseByMeasurable(m["name"], t, m["amount"], pop_names=pops, target_type=m["target_type"])
    if c == "plain":
        return at.Measurable(m["name"], t, pop_names=pops, weight=m["weight"])
    raise ValueError(c)


# ---- calibration


def own_metric(obs, fit, metric):
    obs = np.asarray(obs, dtype=float)
    fit = np.asarray(fit, dtype=float)
    if metric == "fractional":
        return float(np.sum(np.abs(fit - obs) / np.maximum(obs, 1.0)))
    if metric == "meansquare":
        return float(np.sqrt(np.mean((fit - obs) ** 2)))
    if metric == "wape":
        return float(np.sum(np.abs(fit - obs)) / (np.mean(obs) + 1e-6))
    raise ValueError(metric)


def own_cal_objective(model, data, outputs):
    """outputs: expanded (var, pop, weight, metric); data outside the simulated period is not compared"""
    tot = 0.0
    tvec = np.asarray(model.t, dtype=float)
    keep = np.ones(tvec.shape, dtype=bool)
    for var, pop_name, w, metric in outputs:
        ts = data.get_ts(var, pop_name)
        if ts is None or not ts.has_time_data:
            continue
        if pop_name.lower() == "total":
            series = [own_total_series(model, var)]  # compared with the databook's 'Total' row
        else:
            pop = [p for p in model.pops if p.name == pop_name][0]
            series = _pop_series(pop, var, model.dt)
        if series is None:
            raise KeyError(var)
        dt_pts = sorted(zip([float(x) for x in ts.t], [float(x) for x in ts.vals]))
        obs_t = np.array([a for a, _ in dt_pts])
        obs_v = np.array([b for _, b in dt_pts])
        mt, mv = tvec[keep], series[0][keep]
        fit = np.interp(obs_t, mt, mv, left=np.nan, right=np.nan)
        ok = np.isfinite(obs_v) & np.isfinite(fit)
        if not ok.any():
            continue  # no data point inside the simulated period: nothing to compare (not generated)
        tot += w * own_metric(obs_v[ok], fit[ok], metric)
    return tot


# ---- canonical snapshots


def snapshot(P, **objs):
    from vlib.canon import canon

    snap = {"settings": canon(P.settings), "data": canon(P.data), "project-parsets": tuple(P.parsets.keys()), "project-results": len(P.results)}
    for k, o in objs.items():
        snap[k] = canon(o)
    return snap


def snapshot_diff(a, b):
    """None or (what, detail)"""
    from vlib.canon import diff

    for k in a:
        if a[k] != b[k]:
            d = diff(a[k], b[k]) if isinstance(a[k], tuple) and isinstance(b[k], tuple) and k not in ("project-parsets",) else [(k, a[k], b[k])]
            return k, repr(d[:4])
    return None
