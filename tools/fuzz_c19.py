#!/venv/bin/python
"""atheris (libFuzzer) target for C19: byte-level fuzzing of atomica.parse_function / evaluate_plot_string.

usage (atheris lives in /verif/.deps):
  PYTHONPATH=/verif/.deps /venv/bin/python tools/fuzz_c19.py [--campaign empty|seeded|seeded-ascii] [--out findings.json]
        [--work dir] [--crash] [libFuzzer options, e.g. -max_total_time=60 -runs=100000 -seed=1] [corpus_dir]

The semantic oracle is inside the target (props.c19.check_pf_string / check_ps_string, i.e. the
independent validator of vlib/exprsafe.py plus the dependency and fixed-environment value checks).
Oracle violations do not stop the campaign: the shortest input per root-cause bucket is recorded and
written to --out when the run ends (with --crash the first violation aborts like a classic fuzz target).
Nothing the validator rejects is ever evaluated: parse_function only compiles, and the eval used by
evaluate_plot_string is intercepted (the plot-string half of the target is skipped when the
interception cannot be verified).
Source under test: $VERIF_ATOMICA_SRC (default /repo).
"""
import os
import sys
import json
import time
import atexit
import tempfile
import zlib
import warnings

VERIF = os.path.dirname(os.path.dirname(os.path.abspath(__file__)))
sys.path.insert(0, VERIF)
from vlib import runner  # noqa: E402

runner.setup_paths()
warnings.filterwarnings("ignore")

TOKENS = (
    ["max", "min", "exp", "floor", "cos", "sin", "sqrt", "ln", "sdiv", "rand", "randn", "pi", "SRC_POP_AVG", "TGT_POP_SUM", "STITCH_AVG"]
    + ["qx", "qy", "t", "dt", ":flow", ":", "::", "___", "__", "_"]
    + ["+", "-", "*", "/", "**", "//", "%", "@", "<<", ">>", "&", "|", "^", "~", "<", "<=", ">", ">=", "==", "!=", " is ", " in ", " not ", " and ", " or "]
    + ["(", ")", "[", "]", "{", "}", ",", ".", ":=", "=", ";", "#", "\\n", "\\t", " ", "'", '"', "f'", 'f"', "b'", "{{", "!r"]
    + ["lambda", "lambda:", " if ", " else ", " for ", " in ", "await ", "yield", "yield from ", "None", "True", "False", "...", "1j", "1e9", "0", "1", "2", ".5", "0x1", "1_0"]
    + [".real", ".T", ".dot(", ".tofile(", "key=", "out=", "*qx", "**qx", "[0]", "[1:2]", "()", "(qx)", "foo(", "abs(", "getattr(", "vars(", "['a']", "{'a':'b'}", "'a'"]
)


def write_dict(path):
    with open(path, "w") as f:
        for i, tok in enumerate(TOKENS):
            esc = "".join(c if (32 <= ord(c) < 127 and c not in '"\\') else "\\x%02x" % ord(c) for c in tok.replace("\\n", "\n").replace("\\t", "\t"))
            f.write('kw%d="%s"\n' % (i, esc))


def seed_corpus(corpus, ascii_only):
    from props import c19

    seeds = set()
    for cls, fr in c19.fragment_list():
        seeds.add(fr)
        seeds.add(c19.PF_CONTEXTS[zlib.crc32(fr.encode()) % len(c19.PF_CONTEXTS)].format(fr))
        seeds.add(c19.PS_CONTEXTS[zlib.crc32(fr.encode()) % len(c19.PS_CONTEXTS)].format(fr))
    seeds.update(c19.PS_FRAGMENTS)
    seeds.update(["(min((huPs+hsPs) / max((J_uPstest:+J_sPstest:), 1e-15),10))/365", "J_active:huPs * :huPt/max((:huPt+huPs:hddd+huPs:haP),1e-15)", "SRC_POP_AVG(b_rate,contacts,alive)", "x/y", "1/2/x", "-x**2", "{'New active':['pd_div:flow','nd_div:flow']}"])
    for i, s in enumerate(sorted(seeds)):
        if ascii_only and not all(ord(c) < 128 for c in s):
            continue
        with open(os.path.join(corpus, "seed%04d" % i), "wb") as f:
            f.write(s.encode("utf-8"))
    return len(seeds)


def main():
    args = sys.argv[1:]
    opts = {"campaign": "empty", "out": None, "work": None, "crash": False}
    rest = []
    i = 0
    while i < len(args):
        a = args[i]
        if a in ("--campaign", "--out", "--work"):
            opts[a[2:]] = args[i + 1]
            i += 2
        elif a == "--crash":
            opts["crash"] = True
            i += 1
        else:
            rest.append(a)
            i += 1
    work = opts["work"] or tempfile.mkdtemp(prefix="c19fuzz_")
    os.makedirs(work, exist_ok=True)
    corpus = [a for a in rest if not a.startswith("-")]
    if not corpus:
        corpus = [os.path.join(work, "corpus")]
        os.makedirs(corpus[0], exist_ok=True)
        rest.append(corpus[0])
    dict_path = os.path.join(work, "c19.dict")
    write_dict(dict_path)
    if not any(a.startswith("-dict=") for a in rest):
        rest.insert(0, "-dict=" + dict_path)
    if not any(a.startswith("-max_len=") for a in rest):
        rest.insert(0, "-max_len=2048")
    if not any(a.startswith("-artifact_prefix=") for a in rest):
        rest.insert(0, "-artifact_prefix=" + os.path.join(work, "crash-"))
    if not any(a.startswith("-timeout=") for a in rest):
        rest.insert(0, "-timeout=20")

    import atheris

    with atheris.instrument_imports(include=["atomica.function_parser", "vlib.exprsafe"], enable_loader_override=False):
        import atomica.function_parser  # noqa
        from vlib import exprsafe  # noqa
    from props import c19
    from vlib.runner import Violation, Discard
    import atomica.utils as utils

    if opts["campaign"].startswith("seeded"):
        seed_corpus(corpus[0], ascii_only=opts["campaign"].endswith("ascii"))

    guard_active = c19._install_guard(utils)
    state = {"executions": 0, "findings": {}, "status_counts": {}, "crash": None, "t0": time.time(), "plot_fuzzed": bool(guard_active)}
    last_dump = [time.time()]

    def record(bucket, target, src, detail):
        cur = state["findings"].get(bucket)
        if cur is None or len(src) < len(cur["src"]):
            state["findings"][bucket] = {"target": target, "src": src, "detail": detail[:1500]}
            last_dump[0] = 0.0  # write the findings file at the end of this execution
        if opts["crash"]:
            raise RuntimeError("C19 oracle violation [%s] %s" % (bucket, detail))

    def dump():
        if opts["out"]:
            tmp = opts["out"] + ".tmp"
            with open(tmp, "w") as f:
                json.dump({k: v for k, v in state.items() if k != "t0"}, f)
            os.replace(tmp, opts["out"])

    atexit.register(dump)

    def test_one_input(data):
        state["executions"] += 1
        try:
            src = data.decode("utf-8")
        except UnicodeDecodeError:
            src = data.decode("latin-1")
        try:
            try:
                v, fcn, labels = c19.check_pf_string(src)
                st = v.status
                if st == "allowed" and fcn is not None:
                    try:
                        c19._evaluate_fixed_env(src, v, fcn)
                    except Discard:
                        pass
            except Violation as e:
                st = "violation"
                record(e.bucket, "pf", src, e.detail)
            state["status_counts"]["pf:" + st] = state["status_counts"].get("pf:" + st, 0) + 1
            if guard_active:
                try:
                    labs = c19.check_ps_string(src, harmless=False)
                    st = labs[0] if labs else "ps:?"
                except Violation as e:
                    st = "ps:violation"
                    record(e.bucket, "ps", src, e.detail)
                key = ":".join(st.split(":")[:2])
                state["status_counts"][key] = state["status_counts"].get(key, 0) + 1
        except RuntimeError:
            raise
        except (Violation, Discard):
            raise
        except BaseException as e:  # noqa - a harness bug: let libFuzzer keep the input
            state["crash"] = "%s: %s on %r" % (type(e).__name__, e, src[:200])
            dump()
            raise
        # libFuzzer leaves through C exit(): atexit handlers of the interpreter may not run, so the file is kept current
        if time.time() - last_dump[0] > 1.0:
            last_dump[0] = time.time()
            dump()

    atheris.Setup([sys.argv[0]] + rest, test_one_input)
    atheris.Fuzz()


if __name__ == "__main__":
    main()
