#!/venv/bin/python
"""Regenerate MANIFEST.json from the property modules that exist (props/cXX.py with REGISTER = True)."""
import os, sys, json, importlib
VERIF = os.path.dirname(os.path.dirname(os.path.abspath(__file__)))
sys.path.insert(0, VERIF)
from vlib import runner
runner.setup_paths()
props = [json.loads(l) for l in open(os.path.join(VERIF, "properties.jsonl"))]
NA = json.load(open(os.path.join(VERIF, "tools", "not_applicable.json")))
WIP = json.load(open(os.path.join(VERIF, "tools", "wip.json")))  # modules still being built: not registered yet
checks, na = [], []
for p in props:
    pid = p["id"]
    fn = os.path.join(VERIF, "props", pid.lower() + ".py")
    if pid in NA or pid in WIP or not os.path.exists(fn):
        na.append({"property_id": pid, "reason": NA.get(pid, "check not built yet (work in progress); see DESIGN.md section 2")})
        continue
    mod = importlib.import_module("props." + pid.lower())
    checks.append({
        "property_id": pid,
        "quick_cmd": "/venv/bin/python check.py %s --tier quick" % pid,
        "thorough_cmd": "/venv/bin/python check.py %s --tier thorough" % pid,
        "evidence_file": "evidence/%s.json" % pid,
        "replay_cmd_template": "/venv/bin/python check.py %s --replay {path}" % pid,
        "engine": "hypothesis-sharded",
        "level_claimed": {"category": getattr(mod, "LEVEL", "exploration"), "text": getattr(mod, "LEVEL_TEXT", "generated-input search against an explicit oracle; no counterexample among the generated cases, class coverage reported, mutants killed"), "design_ref": "DESIGN.md section 2, " + pid},
        "level_note": "; ".join(getattr(mod, "ASSUMPTIONS", [])) or "none",
        "technique": getattr(mod, "TECHNIQUE", "property-based testing (Hypothesis) against an explicit oracle"),
    })
man = {
    "version": 1,
    "setup_cmd": "/venv/bin/python tools/setup.py",
    "hooks": {"guard": "ATOMICA_VERIF", "enable": "no source hooks are needed: checks import /repo's working tree directly (fault injection is done by monkey-patching from the harness)", "baseline_off_cmd": "cd /repo && /venv/bin/python -m pytest -ra -q -p no:cacheprovider --timeout=900 --continue-on-collection-errors", "source_commits": [], "add_only": True},
    "engines": [{"name": "hypothesis-sharded", "path": "vlib/runner.py", "serves_properties": [c["property_id"] for c in checks], "kind_free_text": "Hypothesis 6.168 strategies/state machines sharded over 16 processes, replay tier, shrinking to JSON replay files, known-findings protocol"}],
    "checks": checks,
    "not_applicable": na,
    "notes": "All checks: /venv/bin/python check.py <id> --tier quick|thorough ; VERIF_SEED honoured; exit 0/1/2 = held / VIOLATION / harness error.",
}
json.dump(man, open(os.path.join(VERIF, "MANIFEST.json"), "w"), indent=1)
import jsonschema
jsonschema.validate(man, json.load(open("/root/.vp/MANIFEST.schema.json")))
print("MANIFEST ok: %d checks, %d not_applicable" % (len(checks), len(na)))
