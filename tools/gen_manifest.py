#!/venv/bin/python
"""Regenerate MANIFEST.json from the property modules that exist (props/cXX.py with REGISTER = True)."""
import os, sys, json, importlib
VERIF = os.path.dirname(os.path.dirname(os.path.abspath(__file__)))
sys.path.insert(0, VERIF)
from vlib import runner
runner.setup_paths()
props = [json.loads(l) for l in open(os.path.join(VERIF, "properties.jsonl"))]
NA = json.load(open(os.path.join(VERIF, "tools", "not_applicable.json")))
WIP = json.load(open(os.path.join(VERIF, "tools", "wip.json")))  # modules still being built: not registered yet
TECH = {
 "C01": ("property-based testing: generated models + library models, invariant oracle (stock balance, junction pass-through, head count)", "exploration of generated ModelSpecs and perturbed library projects; every index and compartment of every run is checked against the conservation invariants computed from the recorded arrays"),
 "C02": ("property-based testing: extreme-value generated models, sign/overdraw invariants + one-step replay of the rescale rule", "exploration with extreme value classes forced on; ratio preservation decided by an independent one-step replay from atomica's own state"),
 "C03": ("exhaustive enumeration of time-grid settings + property-based differential testing against an independent reference simulator (one-step replay and free run)", "grid predicate over an enumerated product of (start, span, dt) plus drawn triples; every link of every generated/library model replayed by the documented conversion rules; free run of a reference simulator written from the documentation"),
 "C04": ("property-based testing: junction-biased generated models, split law recomputed from recorded inflows, initial-flush reference", "exploration of junction sub-graphs; split law and initial flush recomputed independently"),
 "C05": ("property-based testing: duration/step ratio classes, black-box occupancy and release-timing relations + cohort-exact bin replay", "exploration over D/dt ratio classes incl. integer-up-to-rounding; black-box inequalities/equalities on arrivals, occupancy and timed outflow, and per-bin replay"),
 "C06": ("property-based differential testing: every parameter at every index recomputed by the precedence chain (own interpolation, own expression evaluator); model-based histories of TimeSeries edits against a dict model", "exploration of dependency graphs, data patterns, factors, limits, scenarios and derivative parameters; independent recomputation of every value"),
 "C07": ("property-based testing: truth-first initial conditions with perturbation classes, acceptance/refusal oracle", "exploration of inclusion structures and data classes; accepted states must reproduce the databook, refusals must be BadInitialization"),
 "C08": ("model-based/stateful property testing: operation sequences over a project pool, digest and canonical-form invariants, fresh-process differential", "exploration of operation histories (runs, copies, pickles, save/load, interleaved projects) with bitwise digests and structural equality of inputs; sampled fresh processes with different hash seeds"),
 "C09": ("metamorphic property-based testing: intervention vs baseline pairs compared before the intervention year", "exploration of (model, intervention kind, Y) with a metamorphic equality oracle"),
 "C10": ("metamorphic property-based testing: restart vs tail of the parent run (bitwise on dyadic grids), spreadsheet round trip of the saved state", "exploration of (model, Y, restart chain, spreadsheet) with an equality oracle on all trajectories"),
 "C11": ("property-based testing of the coverage functions against a documentation-derived reference and algebraic laws", "exploration of direct function arguments (bounds, monotonicity, precedence, step independence)"),
 "C12": ("property-based testing: weight probing through linearity, reference distribution, convexity laws", "exploration of coverage cubes x outcome tables; the implementation's combination weights are read off and checked to be a distribution with the right marginals"),
 "C13": ("property-based differential testing: coverage, outcome and parameter conversion recomputed per step; reports compared with the run", "exploration of generated models with program sets and instructions"),
 "C14": ("property-based testing of constraint functions with a validity-predicate oracle (sum, bounds, unchanged-if-feasible, set-up errors)", "exploration of proposal/bound vectors and constraint objects without simulation"),
 "C15": ("property-based testing + fault enumeration: exception injected at every evaluation index, canonical-form comparison of caller state, own objective", "small optimisation/calibration problems; every fault point k=1..N of a reference run enumerated"),
 "C16": ("property-based round-trip testing with content projections + operation histories compared with rebuild(export(obj))", "exploration of generated and library books, editing histories up to length 4"),
 "C17": ("property-based testing of sampled runs: pairwise-distinct fingerprints across worker/sample counts, source canon", "exploration of (samples, workers, seeds); the OS schedule is not owned by the harness"),
 "C18": ("structured mutation fuzzing of workbooks with a verdict catalogue + acceptance chain for generated valid frameworks", "catalogue x sites x base files (drawn in quick, enumerated in thorough)"),
 "C19": ("exhaustive enumeration of AST node types/nestings + grammar-based property testing + coverage-guided fuzzing (atheris) against an independent AST whitelist; arithmetic differential", "node enumeration is exhaustive to depth 2 (quick) / 3 (thorough); the rest is exploration"),
 "C20": ("metamorphic property-based testing: every ordered subset of a request, own sums as reference, result digest", "exploration of results x request permutations (permutations of a drawn list enumerated completely)"),
}
checks, na = [], []
for p in props:
    pid = p["id"]
    fn = os.path.join(VERIF, "props", pid.lower() + ".py")
    if pid in NA or pid in WIP or not os.path.exists(fn):
        na.append({"property_id": pid, "reason": NA.get(pid, "check not built yet (work in progress); see DESIGN.md section 2")})
        continue
    mod = importlib.import_module("props." + pid.lower())
    checks.append({
        "property_id": pid,
        "quick_cmd": "/venv/bin/python check.py %s --tier quick" % pid,
        "thorough_cmd": "/venv/bin/python check.py %s --tier thorough" % pid,
        "evidence_file": "evidence/%s.json" % pid,
        "replay_cmd_template": "/venv/bin/python check.py %s --replay {path}" % pid,
        "engine": "hypothesis-sharded",
        "level_claimed": {"category": getattr(mod, "LEVEL", "exploration"), "text": getattr(mod, "LEVEL_TEXT", TECH.get(pid, ("", "generated-input search against an explicit oracle"))[1] + "; no counterexample among the generated cases (counts, class histogram and samples in the evidence file), sensitivity shown by mutants and independently seeded changes (DESIGN.md section 8)"), "design_ref": "DESIGN.md section 2, " + pid},
        "level_note": "; ".join(getattr(mod, "ASSUMPTIONS", [])) or "none",
        "technique": getattr(mod, "TECHNIQUE", TECH.get(pid, ("property-based testing (Hypothesis) against an explicit oracle",))[0]),
    })
man = {
    "version": 1,
    "setup_cmd": "/venv/bin/python tools/setup.py",
    "hooks": {"guard": "ATOMICA_VERIF", "enable": "no source hooks are needed: checks import /repo's working tree directly (fault injection is done by monkey-patching from the harness)", "baseline_off_cmd": "cd /repo && /venv/bin/python -m pytest -ra -q -p no:cacheprovider --timeout=900 --continue-on-collection-errors", "source_commits": [], "add_only": True},
    "engines": [{"name": "hypothesis-sharded", "path": "vlib/runner.py", "serves_properties": [c["property_id"] for c in checks], "kind_free_text": "Hypothesis 6.168 strategies/state machines sharded over 16 processes, replay tier, shrinking to JSON replay files, known-findings protocol"}],
    "checks": checks,
    "not_applicable": na,
    "notes": "All checks: /venv/bin/python check.py <id> --tier quick|thorough ; VERIF_SEED honoured; exit 0/1/2 = held / VIOLATION / harness error.",
}
json.dump(man, open(os.path.join(VERIF, "MANIFEST.json"), "w"), indent=1)
import jsonschema
jsonschema.validate(man, json.load(open("/root/.vp/MANIFEST.schema.json")))
print("MANIFEST ok: %d checks, %d not_applicable" % (len(checks), len(na)))
