#!/venv/bin/python
"""Offline setup: make sure hypothesis (and atheris, for C19's fuzz tier) are importable by /venv/bin/python."""
import os, subprocess, sys
VERIF = os.path.dirname(os.path.dirname(os.path.abspath(__file__)))
WH = "/opt/veriftools/wheels"
def have(mod, extra=None):
    env = dict(os.environ)
    if extra: env["PYTHONPATH"] = extra
    return subprocess.run([sys.executable, "-c", "import " + mod], env=env, capture_output=True).returncode == 0
if not have("hypothesis"):
    subprocess.run([sys.executable, "-m", "pip", "install", "--no-index", "--find-links", WH, "hypothesis"], check=True)
deps = os.path.join(VERIF, ".deps")
if not have("atheris", deps):
    r = subprocess.run([sys.executable, "-m", "pip", "install", "--no-index", "--find-links", WH, "--target", deps, "atheris"], capture_output=True, text=True)
    print("atheris install rc=%d (optional)" % r.returncode)
print("setup ok")
