#!/bin/bash
# usage: run_mutants.sh Cxx  -> runs every tools/mutants/cxx_*.diff against the quick tier, prints one line each
P=$1; p=$(echo $P | tr A-Z a-z)
for m in /verif/tools/mutants/${p}_*.diff; do /verif/tools/mutation_selftest.py $m $P 2>&1 | tail -1; done
