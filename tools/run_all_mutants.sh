#!/bin/bash
# runs every mutant against its property's quick tier; summary in $1 (default /tmp/mutants_summary.txt)
OUT=${1:-/tmp/mutants_summary.txt}; : > $OUT
for P in C01 C02 C03 C04 C05 C06 C07 C08 C09 C10 C11 C12 C13 C14 C15 C16 C17 C18 C19 C20; do
  p=$(echo $P | tr A-Z a-z)
  for m in /verif/tools/mutants/${p}_*.diff; do
    [ -f "$m" ] || continue
    r=$(/verif/tools/mutation_selftest.py $m $P 2>&1 | tail -1)
    echo "$P $(basename $m): $r" >> $OUT
  done
done
echo ALL MUTANTS DONE >> $OUT
