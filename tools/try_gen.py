#!/venv/bin/python
"""Developer tool: draw N specs with a profile and tally what atomica says about them."""
import sys, os, json, collections, time, traceback, warnings
warnings.filterwarnings("ignore")
sys.path.insert(0, os.path.dirname(os.path.dirname(os.path.abspath(__file__))))
from vlib import runner; runner.setup_paths()
import hypothesis
from hypothesis import given, settings, HealthCheck, Phase
from vlib import gen_model, build, oracles
import atomica as at
at.logger.setLevel("CRITICAL")
N = int(sys.argv[1]) if len(sys.argv) > 1 else 200
seed = int(sys.argv[2]) if len(sys.argv) > 2 else 1
profile = json.loads(sys.argv[3]) if len(sys.argv) > 3 else {}
tally = collections.Counter(); labels = collections.Counter(); first = {}
t0 = time.time()
@hypothesis.seed(seed)
@settings(max_examples=N, database=None, deadline=None, suppress_health_check=list(HealthCheck), phases=[Phase.generate])
@given(gen_model.model_specs(profile))
def test(spec):
    for l in spec["labels"]: labels[l] += 1
    try:
        tally["ok"] += 1
        try:
            from vlib import simcase
            b, res = simcase.run_spec(spec)
            oracles.conservation(res)
            oracles.sign_and_overdraw(res)
        except runner.Discard as d:
            tally["discard:" + d.reason] += 1
        except runner.Violation as v:
            k = "VIOL:" + v.bucket
            tally[k] += 1; first.setdefault(k, (spec, v.detail))
    except Exception as e:
        tb = traceback.extract_tb(e.__traceback__)
        k = "%s:%s @%s:%d" % (type(e).__name__, str(e)[:150].replace("\n", " "), os.path.basename(tb[-1].filename), tb[-1].lineno)
        tally[k] += 1; first.setdefault(k, (spec, traceback.format_exc()[-1500:]))
test()
print("time %.1fs for %d" % (time.time() - t0, N))
for k, v in tally.most_common(): print(v, k)
print(dict(labels.most_common()))
for i, (k, (spec, detail)) in enumerate(first.items()):
    json.dump({"case": spec, "bucket": k, "detail": detail}, open("/tmp/fail_%d.json" % i, "w"))
for k, (spec, detail) in list(first.items())[:int(os.environ.get("SHOW", "3"))]:
    print("=" * 30, k); print(detail); print(json.dumps(spec)[:3000])
