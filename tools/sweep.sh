#!/bin/bash
# usage: [SWEEP_PROPS='C01 C02'] sweep.sh <seed> [tier]   - run every registered check once; one summary line per check; evidence/replays go to a scratch dir
SEED=${1:-1}; TIER=${2:-quick}
cd "$(dirname "$0")/.."
OUT=$(mktemp -d /tmp/verif_sweep_XXXX)
IDS=${SWEEP_PROPS:-$(/venv/bin/python -c "import json; print(' '.join(c['property_id'] for c in json.load(open('MANIFEST.json'))['checks']))")}
for id in $IDS; do
  VERIF_SEED=$SEED VERIF_OUT_DIR=$OUT /venv/bin/python check.py $id --tier $TIER > $OUT/$id.log 2>&1; rc=$?
  echo "rc=$rc $(grep -E "^$id tier" $OUT/$id.log | tail -1)"
  grep -E "^detail|^VIOLATION|HARNESS" $OUT/$id.log | cut -c1-400
done
echo "sweep done (logs in $OUT)"
