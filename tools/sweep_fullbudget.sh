#!/bin/bash
# quick tier of every check at the full case budget (generation time cap lifted) for the given seeds - used on a loaded machine
cd "$(dirname "$0")/.."
for SEED in "$@"; do VERIF_TIME_CAP=600 tools/sweep.sh $SEED quick; done
