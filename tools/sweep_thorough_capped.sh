#!/bin/bash
# thorough tier of every check with the generation cap cut to $2 seconds (default 600): a prefix of the full thorough exploration
cd "$(dirname "$0")/.."
VERIF_TIME_CAP=${2:-600} tools/sweep.sh ${1:-1} thorough
