#!/venv/bin/python
"""Sensitivity self-test: apply one patch to a scratch copy of /repo/atomica and require the check to fail.

usage: mutation_selftest.py <patch.diff> <Cxx> [--tier quick] [--keep]
The copy lives under /tmp and is removed afterwards; evidence/replays of the run go to a scratch dir.
exit 0 = mutant killed (check exited 1), 1 = mutant survived, 2 = could not run.
"""
import os, sys, shutil, subprocess, tempfile, argparse

VERIF = os.path.dirname(os.path.dirname(os.path.abspath(__file__)))


def main():
    ap = argparse.ArgumentParser()
    ap.add_argument("patch")
    ap.add_argument("prop")
    ap.add_argument("--tier", default="quick")
    ap.add_argument("--seed", default="1")
    a = ap.parse_args()
    work = tempfile.mkdtemp(prefix="atomica_mut_")
    try:
        shutil.copytree("/repo/atomica", os.path.join(work, "atomica"), ignore=shutil.ignore_patterns("__pycache__"))
        r = subprocess.run(["patch", "-p1", "-s", "-i", os.path.abspath(a.patch)], cwd=work, capture_output=True, text=True)
        if r.returncode != 0:
            print("PATCH FAILED:", r.stdout, r.stderr)
            return 2
        env = dict(os.environ, VERIF_ATOMICA_SRC=work, VERIF_OUT_DIR=os.path.join(work, "out"), VERIF_SEED=a.seed)
        r = subprocess.run([sys.executable, os.path.join(VERIF, "check.py"), a.prop, "--tier", a.tier], env=env, capture_output=True, text=True, cwd=VERIF)
        tail = "\n".join(r.stdout.strip().splitlines()[-6:])
        print(tail[:3000])
        if r.returncode == 1 and "VIOLATION property=%s" % a.prop.upper() in r.stdout:
            print("MUTANT KILLED: %s by %s" % (os.path.basename(a.patch), a.prop))
            return 0
        if r.returncode == 0:
            print("MUTANT SURVIVED: %s vs %s" % (os.path.basename(a.patch), a.prop))
            return 1
        print("CHECK ERROR rc=%s\n%s" % (r.returncode, r.stderr[-3000:]))
        return 2
    finally:
        shutil.rmtree(work, ignore_errors=True)


if __name__ == "__main__":
    sys.exit(main())
