#!/venv/bin/python
"""C08 regression corpus for the fresh-process comparison: K passing cases whose first project is 'wide' (>= 3 populations, a transfer
with two sources into one destination) and that are re-run in fresh processes with other hash seeds.  Saved as replays/C08/corpus_fresh_<n>.json."""
import sys, os, json, warnings
warnings.filterwarnings("ignore")
VERIF = os.path.dirname(os.path.dirname(os.path.abspath(__file__)))
sys.path.insert(0, VERIF)
from vlib import runner
runner.setup_paths()
import hypothesis
from hypothesis import given, settings, HealthCheck, Phase
from props import c08

K = int(sys.argv[1]) if len(sys.argv) > 1 else 8
kept = []


def wide_enough(spec):
    if len(spec["pops"]) < 3:
        return False
    for tr in spec["data"]["tr"]:
        dests = {}
        for k in tr["e"]:
            a, b = k.split(">")
            dests.setdefault(b, set()).add(a)
        if any(len(v) >= 2 for v in dests.values()):
            return True
    return False


@hypothesis.seed(777)
@settings(max_examples=3000, database=None, deadline=None, suppress_health_check=list(HealthCheck), phases=[Phase.generate])
@given(c08.cases(dict(c08.PROFILE), 1.0))
def test(case):
    if len(kept) >= K or not wide_enough(case["specs"][0]) or len(json.dumps(case)) > 80000:
        return
    case["ops"] = case["ops"][:3]
    try:
        c08.check(case)
    except (runner.Discard, runner.Violation):
        return
    kept.append(case)


test()
rdir = os.path.join(VERIF, "replays", "C08")
for i, c in enumerate(kept):
    with open(os.path.join(rdir, "corpus_fresh_%d.json" % i), "w") as f:
        json.dump({"property": "C08", "bucket": "regression-corpus", "detail": "passing case with a wide first project, re-run in fresh processes", "case": c}, f)
print("saved", len(kept))
