#!/venv/bin/python
"""C08 regression corpus for the fresh-process comparison: K passing cases whose first project is 'wide' (>= 3 populations, a transfer
with two sources into one destination) and that are re-run in fresh processes with other hash seeds.  Saved as replays/C08/corpus_fresh_<n>.json."""
import sys, os, json, warnings
warnings.filterwarnings("ignore")
VERIF = os.path.dirname(os.path.dirname(os.path.abspath(__file__)))
sys.path.insert(0, VERIF)
from vlib import runner
runner.setup_paths()
import hypothesis
from hypothesis import given, settings, HealthCheck, Phase
from props import c08

K = int(sys.argv[1]) if len(sys.argv) > 1 else 8
kept = []


def wide_enough(spec):
    if len(spec["pops"]) < 3:
        return False
    for tr in spec["data"]["tr"]:
        dests = {}
        for k in tr["e"]:
            a, b = k.split(">")
            dests.setdefault(b, set()).add(a)
        if any(len(v) >= 2 for v in dests.values()):
            return True
    return False


def order_sensitive(case):
    """keep only projects whose outputs depend (in the last bits) on the ORDER in which the transfers of the parameter set are stored:
    the same inputs with the per-transfer dictionaries reversed give another digest.  Such a project exposes any iteration order that
    varies between processes."""
    from vlib import simcase, canon
    import sciris as sc

    try:
        b = c08.build_project(case["specs"][0], (case.get("scens") or [None])[0], (case.get("partial_init") or [None])[0])
        res, _ = simcase.two_step(b["P"], b["ps"], b["progset"], b["instructions"])
        d0 = canon.result_digest(res)
        ps2 = sc.dcp(b["ps"])
        for name in list(ps2.transfers.keys()):
            items = list(ps2.transfers[name].items())
            ps2.transfers[name] = type(ps2.transfers[name])(reversed(items))
        res2, _ = simcase.two_step(b["P"], ps2, b["progset"], b["instructions"])
        return canon.result_digest(res2) != d0
    except Exception:
        return False


@hypothesis.seed(777)
@settings(max_examples=3000, database=None, deadline=None, suppress_health_check=list(HealthCheck), phases=[Phase.generate])
@given(c08.cases(dict(c08.PROFILE), 1.0))
def test(case):
    if len(kept) >= K or not wide_enough(case["specs"][0]) or len(json.dumps(case)) > 80000:
        return
    case["ops"] = case["ops"][:3]
    if not order_sensitive(case):
        return
    try:
        c08.check(case)
    except (runner.Discard, runner.Violation):
        return
    kept.append(case)


test()
rdir = os.path.join(VERIF, "replays", "C08")
for i, c in enumerate(kept):
    with open(os.path.join(rdir, "corpus_fresh_%d.json" % i), "w") as f:
        json.dump({"property": "C08", "bucket": "regression-corpus", "detail": "passing case with a wide first project, re-run in fresh processes", "case": c}, f)
print("saved", len(kept))
