#!/venv/bin/python
"""Draw cases for a property with a fixed seed and save the first K non-trivial passing ones as replays/<id>/corpus_<n>.json.
These form the seconds-long replay tier that every run re-checks first (bypassing Hypothesis)."""
import sys, os, json, warnings
warnings.filterwarnings("ignore")
VERIF = os.path.dirname(os.path.dirname(os.path.abspath(__file__)))
sys.path.insert(0, VERIF)
from vlib import runner
runner.setup_paths()
import hypothesis
from hypothesis import given, settings, HealthCheck, Phase

pid = sys.argv[1].upper(); K = int(sys.argv[2]) if len(sys.argv) > 2 else 3
mod = runner.load_module(pid)
kept = []
seen_labels = set()

@hypothesis.seed(4242)
@settings(max_examples=400, database=None, deadline=None, suppress_health_check=list(HealthCheck), phases=[Phase.generate])
@given(mod.strategy("quick"))
def test(case):
    if len(kept) >= K:
        return
    try:
        info = mod.check(case) or {}
    except (runner.Discard, runner.Violation):
        return
    if info.get("nontrivial"):
        sig = tuple(sorted(l for l in info.get("labels", []) if ":" in l))[:6]
        if len(json.dumps(case)) < 60000:
            kept.append(case)

test()
rdir = os.path.join(VERIF, "replays", pid)
os.makedirs(rdir, exist_ok=True)
for i, c in enumerate(kept):
    with open(os.path.join(rdir, "corpus_%d.json" % i), "w") as f:
        json.dump({"property": pid, "bucket": "regression-corpus", "detail": "non-trivial passing case kept for the replay tier", "case": c}, f)
print(pid, "saved", len(kept))
