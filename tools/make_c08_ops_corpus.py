#!/venv/bin/python
"""C08 regression corpus for rare operation/project combinations, so that the quick tier exercises them whatever the machine load:
  - a parameter scenario built from the project's parameter set that overwrites a TRANSFER or an INTERACTION,
  - copies (save+load / deep copy / pickle) of a finished result of a project WITH programs.
Passing cases drawn with a fixed seed, saved as replays/C08/corpus_ops_<n>.json (re-checked first on every run)."""
import sys, os, json, warnings
warnings.filterwarnings("ignore")
VERIF = os.path.dirname(os.path.dirname(os.path.abspath(__file__)))
sys.path.insert(0, VERIF)
from vlib import runner
runner.setup_paths()
import hypothesis
from hypothesis import given, settings, HealthCheck, Phase
from props import c08

want = {"scenario-on:tr": 3, "scenario-on:iw": 2, "copy-with-programs": 4}
kept = []


@hypothesis.seed(4321)
@settings(max_examples=4000, database=None, deadline=None, suppress_health_check=list(HealthCheck), phases=[Phase.generate])
@given(c08.cases(dict(c08.PROFILE, p_transfer=0.9, p_interaction=0.8), 0.0))
def test(case):
    if not any(want.values()) or len(json.dumps(case)) > 60000:
        return
    ops = [o[0] for o in case["ops"]]
    if "scenario" not in ops and "saveload" not in ops:
        return
    try:
        info = c08.check(case) or {}
    except (runner.Discard, runner.Violation):
        return
    labels = set(info.get("labels", []))
    progs = [bool(s.get("progs")) for s in case["specs"]]
    tags = [k for k in ("scenario-on:tr", "scenario-on:iw") if k in labels]
    if any(o[0] == "saveload" and progs[o[1]] for o in case["ops"]):
        tags.append("copy-with-programs")
    for k in tags:
        if want.get(k, 0) > 0:
            want[k] -= 1
            kept.append((k, case))
            break


test()
rdir = os.path.join(VERIF, "replays", "C08")
for i, (k, c) in enumerate(kept):
    with open(os.path.join(rdir, "corpus_ops_%d.json" % i), "w") as f:
        json.dump({"property": "C08", "bucket": "regression-corpus", "detail": "passing case kept for the replay tier: " + k, "case": c}, f)
print("saved", len(kept), want)
