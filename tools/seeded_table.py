#!/venv/bin/python
"""Render the table of independently seeded changes (seeded/*/meta.json + validation.json) as markdown."""
import os, json, glob
VERIF = os.path.dirname(os.path.dirname(os.path.abspath(__file__)))
rows = []
for d in sorted(glob.glob(os.path.join(VERIF, "seeded", "*"))):
    try:
        v = json.load(open(os.path.join(d, "validation.json")))
        m = json.load(open(os.path.join(d, "meta.json")))
    except Exception:
        continue
    det = ", ".join("%s (%s)" % (p, "; ".join(sorted(set(c["violation_buckets"]))[:2])) for p, c in v["checks"].items() if c["rc"] == 1) or "MISSED"
    ran = ", ".join(v["checks"].keys())
    rows.append("| %s | %s | %s | %s | %s |" % (os.path.basename(d), m.get("property", ""), str(m.get("title", ""))[:110].replace("|", "/"), str(m.get("needs_to_manifest", ""))[:160].replace("|", "/").replace("\n", " "), det))
print("| seed | property | change | needs to manifest | detected by (bucket) |\n|---|---|---|---|---|")
print("\n".join(rows))
