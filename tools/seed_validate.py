#!/venv/bin/python
"""Validate an independently written seeded change and run our checks against it.

usage: seed_validate.py <seed_dir> <name> <Cxx> [<Cyy> ...] [--skip-tests]
  seed_dir contains patch.diff, demo.py, meta.json (written by a sub-agent that saw nothing from /verif).
Steps (all in a scratch git worktree of /repo under /tmp, removed afterwards):
  1 apply patch.diff                                      2 demo fails with the change (exit != 0)
  3 the 76 pinned tests still pass with the change        4 demo passes on the unchanged tree
  5 run the quick tier of the given checks against the changed sources (VERIF_ATOMICA_SRC) and record what they report
The change is kept as /verif/seeded/<name>/ (patch.diff, demo.py, meta.json, validation.json) only if 1-4 hold.
"""
import os, sys, json, shutil, subprocess, tempfile, time

VERIF = os.path.dirname(os.path.dirname(os.path.abspath(__file__)))
PY = "/venv/bin/python"


def sh(cmd, **kw):
    return subprocess.run(cmd, capture_output=True, text=True, **kw)


def main():
    args = [a for a in sys.argv[1:] if not a.startswith("--")]
    skip_tests = "--skip-tests" in sys.argv
    seed_dir, name, props = args[0], args[1], args[2:]
    wt = tempfile.mkdtemp(prefix="sv_%s_" % name)
    os.rmdir(wt)
    out = {"name": name, "seed_dir": seed_dir, "when": time.strftime("%Y-%m-%d %H:%M:%S"), "repo_head": sh(["git", "-C", "/repo", "log", "--format=%h", "-1"]).stdout.strip()}
    r = sh(["git", "-C", "/repo", "worktree", "add", "-q", "--detach", wt, "HEAD"])
    if r.returncode:
        print("worktree failed", r.stderr)
        return 2
    try:
        r = sh(["git", "-C", wt, "apply", os.path.join(os.path.abspath(seed_dir), "patch.diff")])
        out["patch_applies"] = r.returncode == 0
        if r.returncode:
            r3 = sh(["git", "-C", wt, "apply", "--3way", os.path.join(os.path.abspath(seed_dir), "patch.diff")])
            out["patch_applies"] = r3.returncode == 0
            out["patch_note"] = "applied with --3way" if r3.returncode == 0 else (r.stderr + r3.stderr)[-500:]
        if not out["patch_applies"]:
            print(json.dumps(out, indent=1))
            return 1
        env = dict(os.environ, ATOMICA_SRC=wt, PYTHONPATH=wt, MPLBACKEND="Agg")
        demo = os.path.join(os.path.abspath(seed_dir), "demo.py")
        r = sh([PY, demo], env=env, cwd=wt, timeout=1800)
        out["demo_changed_rc"] = r.returncode
        out["demo_changed_tail"] = (r.stdout + r.stderr)[-600:]
        env0 = dict(os.environ, ATOMICA_SRC="/repo", PYTHONPATH="/repo", MPLBACKEND="Agg")
        r = sh([PY, demo], env=env0, cwd="/tmp", timeout=1800)
        out["demo_pristine_rc"] = r.returncode
        out["demo_pristine_tail"] = (r.stdout + r.stderr)[-300:]
        if not skip_tests:
            tests = open("/tmp/seed_out/stable_tests.txt").read().split()
            r = sh([PY, "-m", "pytest", "-q", "-p", "no:cacheprovider", "--timeout=900", "-n", "6"] + tests, env=env, cwd=wt, timeout=7200)
            tail = (r.stdout or "").strip().splitlines()[-1:] or [""]
            out["tests_summary"] = tail[0]
            out["tests_pass"] = r.returncode == 0
        out["checks"] = {}
        scratch_out = tempfile.mkdtemp(prefix="sv_out_")
        for pid in props:
            env2 = dict(os.environ, VERIF_ATOMICA_SRC=wt, VERIF_OUT_DIR=scratch_out, VERIF_SEED="1")
            t0 = time.time()
            r = sh([PY, os.path.join(VERIF, "check.py"), pid, "--tier", "quick"], env=env2, cwd=VERIF, timeout=3600)
            buckets = [l.split("]")[0].replace("detail: [", "") for l in r.stdout.splitlines() if l.startswith("detail: [")]
            out["checks"][pid] = {"rc": r.returncode, "violation_buckets": buckets, "summary": [l for l in r.stdout.splitlines() if l.startswith(pid + " tier")][-1:], "wall_s": round(time.time() - t0, 1)}
        shutil.rmtree(scratch_out, ignore_errors=True)
        valid = out["demo_changed_rc"] != 0 and out["demo_pristine_rc"] == 0 and (skip_tests or out.get("tests_pass"))
        out["valid_seed"] = bool(valid)
        out["detected_by"] = [p for p, v in out["checks"].items() if v["rc"] == 1]
        if valid:
            dst = os.path.join(VERIF, "seeded", name)
            os.makedirs(dst, exist_ok=True)
            for fn in ("patch.diff", "demo.py", "meta.json"):
                if os.path.exists(os.path.join(seed_dir, fn)):
                    shutil.copy(os.path.join(seed_dir, fn), os.path.join(dst, fn))
            with open(os.path.join(dst, "validation.json"), "w") as f:
                json.dump(out, f, indent=1)
        print(json.dumps({k: v for k, v in out.items() if k not in ("demo_changed_tail", "demo_pristine_tail")}, indent=1))
        return 0
    finally:
        sh(["git", "-C", "/repo", "worktree", "remove", "--force", wt])
        shutil.rmtree(wt, ignore_errors=True)


if __name__ == "__main__":
    sys.exit(main())
